import sys, subprocess, difflib
sys.path.insert(0, '/verif')
from hgsa.selfval import parse_patch, apply_hunks
name = sys.argv[1]
rel = "histogrammar/primitives/centrallybin.py"
patch = open(f"/verif/neutral/{name}/patch.diff").read()
files = parse_patch(patch)
assert list(files) == [rel], list(files)
old = subprocess.run(["git", "-C", "/repo", "show", f"6e9c03b:{rel}"], capture_output=True, text=True).stdout
new_head = open(f"/repo/{rel}").read()
neutral_old = apply_hunks(old, files[rel])
assert neutral_old is not None
guard = '        if not isinstance(other, CentrallyBin):\n            raise ContainerException(f"cannot add {self.name} and {other.name}")\n'
out = neutral_old
for hdr in ("    def __add__(self, other):\n", "    def __iadd__(self, other):\n"):
    assert out.count(hdr) == 1, (hdr, out.count(hdr))
    out = out.replace(hdr, hdr + guard, 1)
compile(out, rel, "exec")
d = list(difflib.unified_diff(new_head.splitlines(True), out.splitlines(True), f"a/{rel}", f"b/{rel}", n=3))
text = f"diff --git a/{rel} b/{rel}\n" + "".join(d)
open(f"/tmp/{name}.rebased.diff", "w").write(text)
print(name, len(d), "diff lines")
