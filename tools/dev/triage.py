import sys, os, glob
sys.path.insert(0, '/verif'); sys.path.insert(0, '/verif/tools')
import regress
from concurrent.futures import ProcessPoolExecutor
tag = sys.argv[1]
pids = sys.argv[2:] or [f"C{i:02d}" for i in range(1, 18)]
pat = "patch_*.diff" if tag in "abcdefg" else "neutral_*.diff"
jobs = []
for pid in pids:
    for p in sorted(glob.glob(f"/tmp/seed/{pid}{tag}/SEED/{pat}")):
        k = os.path.basename(p).split("_")[1].split(".")[0]
        jobs.append((f"{pid}-{tag}{k}", p, regress.PROPS))
with ProcessPoolExecutor(max_workers=8) as ex:
    for name, res in ex.map(regress._one, jobs):
        own = name.split("-")[0]
        rep = [p for p, v in res.items() if v[0] == "reported"]
        err = [p for p, v in res.items() if v[0] == "error"]
        print(f"{name}: own={'YES' if own in rep else 'no '} reported={rep} errors={err}")
        for p in ([own] if own in rep else rep[:1]) + err[:1]:
            if p in res:
                print(f"     [{p}] {res[p][1][:230]}")
