import sys, ast, subprocess, shutil, tempfile, os
sys.path.insert(0, '/verif')
from hgsa.selfval import parse_patch, apply_hunks
from hgsa.loader import Repo
patch, cls, meth = sys.argv[1], sys.argv[2], sys.argv[3]
ov = {}
if patch != '-':
    for rel, hunks in parse_patch(open(patch).read()).items():
        ov[rel] = apply_hunks(open('/repo/' + rel).read(), hunks)
repo = Repo('/repo', ov)
for m in repo.modules.values():
    for n in ast.walk(m.tree):
        if isinstance(n, ast.ClassDef) and n.name == cls:
            for b in n.body:
                if isinstance(b, ast.FunctionDef) and b.name == meth:
                    print(ast.unparse(b))
