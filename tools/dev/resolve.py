import re, sys, subprocess
name = sys.argv[1]
wt = f"/tmp/rb_{name}"
rel = subprocess.run(["git", "-C", wt, "diff", "--name-only", "HEAD"], capture_output=True, text=True).stdout.split()[0]
p = f"{wt}/{rel}"
s = open(p).read()
pat = re.compile(r"<<<<<<< ours\n(.*?)=======\n(.*?)>>>>>>> theirs\n", re.S)
def res(m):
    ours, theirs = m.group(1), m.group(2)
    if name in ("C02-p2", "C16-m3", "C16-n2"):
        # both sides add a method to the Collection mix-in: keep both (a class docstring from the refactoring goes first)
        if theirs.lstrip().startswith('"""'):
            doc_end = theirs.index('"""', theirs.index('"""') + 3) + 3
            return theirs[:doc_end] + "\n\n" + ours.rstrip("\n") + "\n" + theirs[doc_end:]
        return ours.rstrip("\n") + "\n\n" + theirs
    if name == "C03-p3":
        # the refactoring's early returns, with the repaired guard (the batch has positive weight)
        t = theirs.replace("        if not ca_plus_cb > 0.0:\n            # still empty (or NaN entries): leave the moments alone\n            return\n",
                           "        if not ca_plus_cb > ca:\n            # the batch has no positive weight (or NaN entries): leave the moments alone\n            return\n")
        assert t != theirs
        return t
    if name == "C16-p1":
        # the refactoring's single entries update, behind the repaired child loop
        t = theirs.replace("        for sub in self.values:\n            sub._numpy(data, weights, shape)\n", "        self._numpyEach(data, weights, shape)\n")
        assert t != theirs
        return t
    raise SystemExit("no resolution")
s2, n = pat.subn(res, s)
print(name, n, "conflicts resolved")
open(p, "w").write(s2)
compile(s2, p, "exec")
out = subprocess.run(["git", "-C", wt, "diff", "HEAD"], capture_output=True, text=True).stdout
open(f"/tmp/{name}.rebased.diff", "w").write(out)
