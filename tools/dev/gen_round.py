import json, os, re, sys, glob
kind, tag = sys.argv[1], sys.argv[2]   # seed d | neutral p
props = [json.loads(l) for l in open('/verif/properties.jsonl')]
for pr in props:
    pid = pr.get('id') or pr.get('property_id')
    prev = sys.argv[3]
    src = f"/tmp/seed/prompt_{pid}{prev}.txt"
    text = open(src).read()
    old_wt = f"/tmp/seed/{pid}{prev}"
    new_wt = f"/tmp/seed/{pid}{tag}"
    text = text.replace(old_wt, new_wt)
    # extend the NOTE list
    extra = []
    if kind == 'seed':
        for d in sorted(glob.glob(f"/verif/seeded/{pid}-{prev}*")):
            m = json.load(open(d + "/meta.json"))
            first = m.get("needs_to_manifest", "").strip().splitlines()[0] if m.get("needs_to_manifest") else ""
            first = re.sub(r"^#+\s*(Change|Seed|Patch)?\s*\d*\s*[:\-–]?\s*", "", first).strip()
            if first:
                extra.append("  - " + first[:160])
        marker = "\n\n\nYOUR TASK"
        if marker not in text:
            marker = "\n\nYOUR TASK"
        text = text.replace(marker, "\n" + "\n".join(extra) + marker, 1)
    else:
        for d in sorted(glob.glob(f"/verif/neutral/{pid}-{prev}*")):
            m = json.load(open(d + "/meta.json"))
            body = m.get("needs_to_manifest", "")
            line = next((l for l in body.splitlines() if "File" in l and "function" in l), body.strip().splitlines()[0] if body.strip() else "")
            line = line.replace("**", "").strip()
            if line:
                extra.append("  - " + line[:170])
        marker = "\n\nYOUR TASK"
        text = text.replace(marker, "\n" + "\n".join(extra) + marker, 1)
        if "assert on histogrammar.__file__" not in text:
            text += "\nDo not assert on histogrammar.__file__ or on any absolute path in your scripts (they are re-run in another directory)."
    open(f"/tmp/seed/prompt_{pid}{tag}.txt", "w").write(text)
    print(pid, len(text), len(extra))
