import sys, os, json, glob
sys.path.insert(0, '/verif'); sys.path.insert(0, '/verif/tools')
import regress
from concurrent.futures import ProcessPoolExecutor
first = {
 "C01-f1": "C02 (own property: ANALYSIS-ERROR, a statement no scenario reaches)", "C01-f2": "C01", "C02-f1": "C01, C02, C03", "C02-f2": "C01, C02, C03",
 "C03-f1": "C03, C05", "C03-f2": "C03, C11", "C04-f1": "none", "C04-f2": "none", "C05-f1": "C03, C05", "C05-f2": "C03, C11 (own property: ANALYSIS-ERROR)",
 "C06-f1": "C06, C13", "C06-f2": "none", "C07-f1": "none", "C07-f2": "none", "C08-f1": "C08", "C08-f2": "none", "C09-f1": "C09", "C09-f2": "none",
 "C10-f1": "C01 (own property silent)", "C10-f2": "C01, C07, C10, C15", "C11-f1": "C11", "C11-f2": "C03, C05 (own property silent)", "C12-f1": "C12", "C12-f2": "C12",
 "C13-f1": "none", "C13-f2": "none", "C14-f1": "none", "C14-f2": "none", "C15-f1": "none", "C15-f2": "C04 (own property silent)", "C16-f1": "C16", "C16-f2": "none",
 "C17-f1": "none", "C17-f2": "none"}
jobs = [(os.path.basename(d), d + "/patch.diff", regress.PROPS) for d in sorted(glob.glob("/verif/seeded/*-f*"))]
with ProcessPoolExecutor(max_workers=12) as ex:
    for name, res in ex.map(regress._one, jobs):
        own = name.split("-")[0]
        rep = [p for p, v in res.items() if v[0] == "reported"]
        mp = f"/verif/seeded/{name}/meta.json"
        m = json.load(open(mp))
        m["first_run"] = {"violation_in": first.get(name, "?")}
        m["detected_by"] = rep
        m["detected_by_own_property"] = own in rep
        line = res[own][1] if own in rep else ""
        m["report_line"] = f"[{own}] " + line
        import re
        rules = sorted({re.search(r"\[(C\d\d/R[\d.]+[a-z]?)\]", v[1]).group(1) for p, v in res.items() if v[0] == "reported" and re.search(r"\[(C\d\d/R[\d.]+[a-z]?)\]", v[1])})
        m["detected_by_rules"] = rules
        json.dump(m, open(mp, "w"), indent=1)
        print(name, rep, rules)
