import sys, os, json, glob
sys.path.insert(0, '/verif'); sys.path.insert(0, '/verif/tools')
import regress
from concurrent.futures import ProcessPoolExecutor
first = {
 "C01-g1": "none", "C01-g2": "C01, C07, C10", "C02-g1": "C03 (own property silent)", "C02-g2": "C02", "C03-g1": "none", "C03-g2": "C03, C05",
 "C04-g1": "none", "C04-g2": "none", "C05-g1": "C03, C05, C11", "C05-g2": "C01, C06 (own property silent)", "C06-g1": "C05, C07 (own property silent)", "C06-g2": "C06",
 "C07-g1": "C01, C07, C10", "C07-g2": "C01, C07, C10", "C08-g1": "none", "C08-g2": "none", "C09-g1": "C09", "C09-g2": "none", "C10-g1": "C10, C13", "C10-g2": "C10",
 "C11-g1": "none", "C11-g2": "C11", "C12-g1": "none (ANALYSIS-ERROR in C01/C02/C03/C05/C11)", "C12-g2": "none", "C13-g1": "C13", "C13-g2": "none", "C14-g1": "none", "C14-g2": "C14",
 "C15-g1": "C15", "C15-g2": "none", "C16-g1": "none", "C16-g2": "C16", "C17-g1": "C17", "C17-g2": "none"}
jobs = [(os.path.basename(d), d + "/patch.diff", regress.PROPS) for d in sorted(glob.glob("/verif/seeded/*-g*"))]
with ProcessPoolExecutor(max_workers=12) as ex:
    for name, res in ex.map(regress._one, jobs):
        own = name.split("-")[0]
        rep = [p for p, v in res.items() if v[0] == "reported"]
        mp = f"/verif/seeded/{name}/meta.json"
        m = json.load(open(mp))
        m["first_run"] = {"violation_in": first.get(name, "?")}
        m["detected_by"] = rep
        m["detected_by_own_property"] = own in rep
        line = res[own][1] if own in rep else ""
        m["report_line"] = f"[{own}] " + line
        import re
        rules = sorted({re.search(r"\[(C\d\d/R[\d.]+[a-z]?)\]", v[1]).group(1) for p, v in res.items() if v[0] == "reported" and re.search(r"\[(C\d\d/R[\d.]+[a-z]?)\]", v[1])})
        m["detected_by_rules"] = rules
        json.dump(m, open(mp, "w"), indent=1)
        print(name, rep, rules)
