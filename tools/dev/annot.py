import sys, os, json, glob
sys.path.insert(0, '/verif'); sys.path.insert(0, '/verif/tools')
import regress
from concurrent.futures import ProcessPoolExecutor
first = {
 "C01-e1": "C02, C05 (own property silent)", "C01-e2": "none (ANALYSIS-ERROR in C01/C03/C05/C11: scenario could not decide `other.mean != self.mean`)",
 "C02-e1": "none", "C02-e2": "C03 (own property silent)", "C03-e1": "C03", "C03-e2": "C03, C05", "C04-e1": "none", "C04-e2": "none",
 "C05-e1": "C03, C05", "C05-e2": "none", "C06-e1": "C06, C08", "C06-e2": "C06, C08", "C07-e1": "C01, C05, C07, C10", "C07-e2": "C01, C07",
 "C08-e1": "C08", "C08-e2": "C05, C06, C08", "C09-e1": "none", "C09-e2": "C09", "C10-e1": "none", "C10-e2": "C01, C07 (own property silent)",
 "C11-e1": "C12, C17 (own property silent)", "C11-e2": "none", "C12-e1": "C17 (own property silent)", "C12-e2": "C12", "C13-e1": "none", "C13-e2": "none",
 "C14-e1": "none", "C14-e2": "C14", "C15-e1": "none", "C15-e2": "C06 (ANALYSIS-ERROR in C01/C04/C10/C15: reader without ed())", "C16-e1": "none", "C16-e2": "none",
 "C17-e1": "none (ANALYSIS-ERROR in C12/C17: wrapper table could not follow `fcn.name = name`)", "C17-e2": "none"}
jobs = [(os.path.basename(d), d + "/patch.diff", regress.PROPS) for d in sorted(glob.glob("/verif/seeded/*-e*"))]
with ProcessPoolExecutor(max_workers=12) as ex:
    for name, res in ex.map(regress._one, jobs):
        own = name.split("-")[0]
        rep = [p for p, v in res.items() if v[0] == "reported"]
        mp = f"/verif/seeded/{name}/meta.json"
        m = json.load(open(mp))
        m["first_run"] = {"violation_in": first.get(name, "?")}
        m["detected_by"] = rep
        m["detected_by_own_property"] = own in rep
        line = res[own][1] if own in rep else ""
        m["report_line"] = f"[{own}] " + line
        import re
        rules = sorted({re.search(r"\[(C\d\d/R[\d.]+[a-z]?)\]", v[1]).group(1) for p, v in res.items() if v[0] == "reported" and re.search(r"\[(C\d\d/R[\d.]+[a-z]?)\]", v[1])})
        m["detected_by_rules"] = rules
        json.dump(m, open(mp, "w"), indent=1)
        print(name, rep, rules)
