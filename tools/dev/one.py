import sys, importlib
sys.path.insert(0,'/verif'); sys.path.insert(0,'/verif/tools')
import regress
name, patch, props = sys.argv[1], sys.argv[2], sys.argv[3:]
from hgsa.loader import Repo
from hgsa.report import Report
from hgsa.selfval import base_keys
ov = regress._overrides(patch)
repo = Repo('/repo', overrides=ov)
for prop in props:
    mod = importlib.import_module(f"hgsa.rules.{prop.lower()}")
    keys = base_keys(prop, '/repo')
    rep = Report(prop, "quick")
    try:
        mod.run(repo, rep, "quick")
    except Exception as e:
        print(prop, "ERROR", e); continue
    for f in rep.findings:
        if f.key not in keys:
            print(prop, f.text()[:420])
