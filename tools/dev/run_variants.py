import sys
sys.path.insert(0,'/verif')
from hgsa import selfval
prop = sys.argv[1]; sub = sys.argv[2] if len(sys.argv)>2 else ""
todo = [(p,k,rel,old,new,note or "", "/repo") for (p,k,rel,old,new,note) in selfval.VARIANTS if p==prop and sub in (note or "")]
for t in todo:
    print(selfval._run_one(t)[1:])
