import sys, ast
sys.path.insert(0, '/verif')
from hgsa.selfval import parse_patch, apply_hunks
from hgsa.loader import Repo
patch, name = sys.argv[1], sys.argv[2]
ov = {}
if patch != '-':
    for rel, hunks in parse_patch(open(patch).read()).items():
        ov[rel] = apply_hunks(open('/repo/' + rel).read(), hunks)
repo = Repo('/repo', ov)
for m in repo.modules.values():
    for n in m.tree.body:
        if isinstance(n, ast.FunctionDef) and n.name == name:
            print(ast.unparse(n))
