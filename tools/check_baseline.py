#!/venv/bin/python
"""Compare a junit xml of the repository's test suite with /root/.vp/BASELINE.json (stable_pass must all pass)."""
import json, sys
import xml.etree.ElementTree as ET
base = json.load(open("/root/.vp/BASELINE.json"))
root = ET.parse(sys.argv[1]).getroot()
passed = set()
for tc in root.iter("testcase"):
    bad = any(ch.tag in ("failure", "error", "skipped") for ch in tc)
    name = f"{tc.get('classname')}::{tc.get('name')}"
    if not bad:
        passed.add(name)
missing = [t for t in base["stable_pass"] if t not in passed]
print(f"passed {len(passed)}; baseline stable {len(base['stable_pass'])}; missing from baseline: {missing}")
sys.exit(1 if missing else 0)
