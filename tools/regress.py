#!/venv/bin/python
"""Development regression, everything applied in memory (never touches /repo, safe to run in parallel):

  1. every quick check exits 0 on the current tree
  2. every seeded/*/patch.diff is reported by its own property's check
  3. every neutral/*/patch.diff is silent in all 17 checks (no finding beyond the tree's own, no analysis error)

  regress.py [--seeds] [--neutral] [--quick] [--only <substring>]
"""
import importlib
import json
import os
import subprocess
import sys
from concurrent.futures import ProcessPoolExecutor

VERIF = os.path.dirname(os.path.dirname(os.path.abspath(__file__)))
sys.path.insert(0, VERIF)
ROOT = "/repo"
PROPS = [f"C{i:02d}" for i in range(1, 18)]


def _overrides(patch_path):
    from hgsa.selfval import apply_hunks, parse_patch
    ov = {}
    for rel, hunks in parse_patch(open(patch_path, encoding="utf-8").read()).items():
        src = open(os.path.join(ROOT, rel), encoding="utf-8").read()
        out = apply_hunks(src, hunks)
        if out is None:
            raise RuntimeError(f"patch does not apply to {rel}")
        compile(out, rel, "exec")
        ov[rel] = out
    return ov


def _one(args):
    name, patch, props = args
    from hgsa.loader import AnalysisError, Repo
    from hgsa.report import Report
    from hgsa.selfval import base_keys
    try:
        ov = _overrides(patch)
    except Exception as e:
        return name, {"*": ("error", str(e)[:200])}
    repo = Repo(ROOT, overrides=ov)
    res = {}
    for prop in props:
        mod = importlib.import_module(f"hgsa.rules.{prop.lower()}")
        try:
            keys = base_keys(prop, ROOT)
            rep = Report(prop, "quick")
            mod.run(repo, rep, "quick")
            rep.check_floors()
            new = [f for f in rep.findings if f.key not in keys]
            if not new and getattr(rep, "deferred", None):
                res[prop] = ("error", str(rep.deferred[0])[:200])
            elif new:
                res[prop] = ("reported", new[0].text()[:260])
            else:
                res[prop] = ("silent", "")
        except AnalysisError as e:
            res[prop] = ("error", str(e)[:200])
        except Exception as e:
            res[prop] = ("error", f"{type(e).__name__}: {e}"[:200])
    return name, res


def _quick(prop):
    r = subprocess.run(["/venv/bin/python", os.path.join(VERIF, "check.py"), prop], capture_output=True, text=True, cwd=VERIF,
                       env=dict(os.environ, HGSA_NO_EVIDENCE="1"))
    return prop, r.returncode


def main(argv):
    only = argv[argv.index("--only") + 1] if "--only" in argv else ""
    sel = [a for a in argv if a in ("--seeds", "--neutral", "--quick")]
    bad = 0
    with ProcessPoolExecutor(max_workers=16) as ex:
        if not sel or "--quick" in sel:
            rc = dict(ex.map(_quick, PROPS))
            print("quick:", " ".join(f"{p}={c}" for p, c in sorted(rc.items())))
            bad += sum(1 for c in rc.values() if c != 0)
        if not sel or "--seeds" in sel:
            jobs = []
            for d in sorted(os.listdir(os.path.join(VERIF, "seeded"))):
                p = os.path.join(VERIF, "seeded", d, "patch.diff")
                if os.path.exists(p) and only in d:
                    jobs.append((d, p, [d.split("-")[0]]))
            ok = 0
            for name, res in ex.map(_one, jobs):
                (prop, (st, txt)), = res.items()
                if st == "reported":
                    ok += 1
                else:
                    bad += 1
                    print(f"  SEED {name}: {st} {txt}")
            print(f"seeds: {ok}/{len(jobs)} reported by their own property")
        if not sel or "--neutral" in sel:
            jobs = []
            for d in sorted(os.listdir(os.path.join(VERIF, "neutral"))):
                p = os.path.join(VERIF, "neutral", d, "patch.diff")
                if os.path.exists(p) and only in d:
                    jobs.append((d, p, PROPS))
            ok = 0
            for name, res in ex.map(_one, jobs):
                noisy = {p: v for p, v in res.items() if v[0] != "silent"}
                if not noisy:
                    ok += 1
                else:
                    bad += 1
                    for p, (st, txt) in noisy.items():
                        print(f"  NEUTRAL {name} [{p}] {st}: {txt}")
            print(f"neutral: {ok}/{len(jobs)} silent in all checks")
    return 1 if bad else 0


if __name__ == "__main__":
    sys.exit(main(sys.argv[1:]))
