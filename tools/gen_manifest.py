#!/venv/bin/python
"""Generates /verif/MANIFEST.json from the per-property table below (kept in one place so it stays valid)."""

import json
import os

HERE = os.path.dirname(os.path.dirname(os.path.abspath(__file__)))
PY = "/venv/bin/python"

# property -> (technique, level text, level note, design ref)
CLAIMED = {}
NOT_APPLICABLE = {}


def claim(pid, technique, text, note, ref):
    CLAIMED[pid] = (technique, text, note, ref)


def na(pid, reason):
    NOT_APPLICABLE[pid] = reason


exec(open(os.path.join(HERE, "tools", "claims.py")).read())

BASELINE = (
    "cd /repo && /venv/bin/python -m pytest -ra -q -p no:cacheprovider --timeout=900 "
    "--continue-on-collection-errors tests"
)

manifest = {
    "version": 1,
    "setup_cmd": f"{PY} /verif/check.py --selfcheck",
    "hooks": {
        "guard": "HISTOGRAMMAR_PYTHON_VERIF",
        "enable": "no hooks: the checks parse /repo's source with the stdlib ast module and never import or run it",
        "baseline_off_cmd": BASELINE,
        "source_commits": [],
        "add_only": True,
    },
    "engines": [
        {
            "name": "hgsa",
            "path": "/verif/hgsa",
            "serves_properties": sorted(CLAIMED),
            "kind_free_text": "purpose-built static analyser (stdlib ast): resolved class model, statement CFGs, "
            "dataflow/typestate/ownership analyses, finite-domain abstract interpreters and a rational-function "
            "normaliser; nothing from /repo is imported or executed",
        }
    ],
    "checks": [],
    "notes": "All checks are static analyses of /repo's current working tree (see DESIGN.md). Exit 0/1/2 = held / "
    "VIOLATION / ANALYSIS-ERROR. Known findings are listed in /verif/KNOWN_FINDINGS.txt.",
    "not_applicable": [{"property_id": k, "reason": v} for k, v in sorted(NOT_APPLICABLE.items())],
}
for pid in sorted(CLAIMED):
    technique, text, note, ref = CLAIMED[pid]
    manifest["checks"].append(
        {
            "property_id": pid,
            "quick_cmd": f"{PY} /verif/check.py {pid} --tier quick",
            "thorough_cmd": f"{PY} /verif/check.py {pid} --tier thorough",
            "evidence_file": f"/verif/evidence/{pid}.json",
            "replay_cmd_template": f"{PY} /verif/check.py --replay {{path}}",
            "engine": "hgsa",
            "level_claimed": {"category": "other", "text": text, "design_ref": ref},
            "level_note": note,
            "technique": technique,
        }
    )
with open(os.path.join(HERE, "MANIFEST.json"), "w") as f:
    json.dump(manifest, f, indent=1)
print(f"MANIFEST.json: {len(CLAIMED)} claimed, {len(NOT_APPLICABLE)} not applicable")
