#!/venv/bin/python
"""Confirm a BEHAVIOUR-PRESERVING change produced by a sub-agent, in a scratch worktree, and file it under /verif/neutral/<id>/.

  confirm_neutral.py <property> <name> <neutral.diff> <equiv.py> <notes.md>

Steps (all in a fresh worktree of /repo's HEAD under /tmp, removed afterwards):
  1. the differential script runs on the clean tree (exit 0) and its transcript is kept
  2. the patch applies; the package still imports
  3. the script runs on the patched tree (exit 0) and prints the IDENTICAL transcript
  4. the repository's baseline suite: every stable-pass test of /root/.vp/BASELINE.json still passes
Only if all four hold the change is copied to /verif/neutral/<name>/ (patch.diff, equiv.py, notes.md, meta.json).
"""
import json
import os
import shutil
import subprocess
import sys
import tempfile

VERIF = os.path.dirname(os.path.dirname(os.path.abspath(__file__)))


def sh(cmd, cwd=None, env=None, timeout=1500):
    return subprocess.run(cmd, shell=True, capture_output=True, text=True, cwd=cwd, env=env, timeout=timeout)


def main():
    prop, name, patch, demo, notes = sys.argv[1:6]
    wt = tempfile.mkdtemp(prefix="confirm_", dir="/tmp")
    os.rmdir(wt)
    r = sh(f"git -C /repo worktree add -q {wt} HEAD")
    if r.returncode != 0:
        print("cannot create worktree", r.stderr)
        return 2
    env = dict(os.environ, PYTHONPATH=wt)
    ran = []
    ok = False
    try:
        r1 = sh(f"/venv/bin/python {demo}", cwd=wt, env=env)
        ran.append(f"clean tree: demo exit {r1.returncode}")
        if r1.returncode != 0:
            print(f"{name}: REJECTED - script fails on the clean tree: {r1.stdout[-300:]} {r1.stderr[-300:]}")
            return 1
        import re as _re
        norm_out = lambda t: _re.sub(r"0x[0-9a-fA-F]+", "0xADDR", t).replace(wt, "<tree>")
        clean_out = norm_out(r1.stdout)
        r2 = sh(f"git -C {wt} apply {patch}")
        if r2.returncode != 0:
            print(f"{name}: REJECTED - patch does not apply: {r2.stderr[:300]}")
            return 1
        r3 = sh("/venv/bin/python -c 'import histogrammar, histogrammar.dfinterface; print(histogrammar.__file__)'", cwd=wt, env=env)
        if r3.returncode != 0 or wt not in r3.stdout:
            print(f"{name}: REJECTED - package does not import with the patch: {r3.stderr[-300:]}")
            return 1
        r4 = sh(f"/venv/bin/python {demo}", cwd=wt, env=env)
        ran.append(f"patched tree: demo exit {r4.returncode}")
        if r4.returncode != 0:
            print(f"{name}: REJECTED - script fails with the patch: {r4.stdout[-200:]} {r4.stderr[-300:]}")
            return 1
        if norm_out(r4.stdout) != clean_out:
            import difflib
            d = list(difflib.unified_diff(clean_out.splitlines(), norm_out(r4.stdout).splitlines(), lineterm="", n=0))[:8]
            print(f"{name}: REJECTED - transcripts differ (the change is NOT behaviour-preserving): {d}")
            return 1
        if len(clean_out.strip()) < 50:
            print(f"{name}: REJECTED - transcript too short to show anything ({len(clean_out)} chars)")
            return 1
        junit = os.path.join(wt, "junit.xml")
        sh(f"/venv/bin/python -m pytest -q -p no:cacheprovider --timeout=900 --continue-on-collection-errors --junitxml={junit} tests", cwd=wt, env=env)
        r5 = sh(f"/venv/bin/python {VERIF}/tools/check_baseline.py {junit}")
        ran.append("patched tree: baseline suite: " + r5.stdout.strip().splitlines()[-1])
        if r5.returncode != 0:
            print(f"{name}: REJECTED - the existing suite notices the change: {r5.stdout.strip()[-300:]}")
            return 1
        ok = True
        fail_msg = f"transcript of {len(clean_out)} characters identical on both trees"
    finally:
        sh(f"git -C /repo worktree remove --force {wt}")
        shutil.rmtree(wt, ignore_errors=True)
    if ok:
        dst = os.path.join(VERIF, "neutral", name)
        os.makedirs(dst, exist_ok=True)
        shutil.copy(patch, os.path.join(dst, "patch.diff"))
        shutil.copy(demo, os.path.join(dst, "equiv.py"))
        needs = ""
        if os.path.exists(notes):
            shutil.copy(notes, os.path.join(dst, "notes.md"))
            needs = open(notes).read()[:1500]
        meta = {
            "property": prop,
            "name": name,
            "kind": "behaviour-preserving refactoring (the checks must stay silent on it)",
            "origin": "independent sub-agent given only the property text and a scratch worktree",
            "needs_to_manifest": needs,
            "confirmed": ran,
            "equivalence": fail_msg,
            "how_confirmed": "tools/confirm_neutral.py: fresh worktree of /repo HEAD under /tmp; differential script on clean tree, git apply, "
                             "script again: identical transcript; full pytest run compared with BASELINE.json stable_pass (all 79 pass); worktree removed",
        }
        with open(os.path.join(dst, "meta.json"), "w") as f:
            json.dump(meta, f, indent=1)
        print(f"{name}: CONFIRMED ({'; '.join(ran)})")
        return 0
    return 1


if __name__ == "__main__":
    sys.exit(main())
