#!/venv/bin/python
"""Development aid: run one property's rules on an in-memory variant of /repo (one textual substitution).

  mutate.py Cxx <relpath> <old> <new> [--count N]
Nothing is written to /repo; the variant is compiled with compile() to show it is still a valid program.
"""
import importlib, os, sys
sys.path.insert(0, os.path.dirname(os.path.dirname(os.path.abspath(__file__))))
from hgsa.loader import Repo, AnalysisError
from hgsa.report import Report

def run(prop, rel, old, new, count=1, quiet=False):
    src = open(os.path.join("/repo", rel)).read()
    if src.count(old) < 1:
        print("pattern not found"); return None
    src2 = src.replace(old, new, count)
    compile(src2, rel, "exec")
    repo = Repo(overrides={rel: src2})
    rep = Report(prop, "quick")
    mod = importlib.import_module(f"hgsa.rules.{prop.lower()}")
    try:
        mod.run(repo, rep, "quick")
    except AnalysisError as e:
        print("ANALYSIS-ERROR", e); return "error"
    base = Report(prop, "quick")
    mod.run(Repo(), base, "quick")
    basekeys = {f.key for f in base.findings}
    new_f = [f for f in rep.findings if f.key not in basekeys]
    if not quiet:
        for f in new_f:
            print("NEW", f.text()[:400])
        print(f"{len(new_f)} new findings ({len(rep.findings)} total, {len(basekeys)} on the unchanged tree)")
    return new_f

if __name__ == "__main__":
    a = sys.argv[1:]
    run(a[0], a[1], a[2], a[3])
