#!/venv/bin/python
"""Apply a seeded patch to /repo, run every quick check, undo the patch.  Prints which properties raise an alarm.

  try_seed.py <patch.diff> [Cxx ...]        (default: all claimed properties)
The patch is always reverted (git checkout -- .) even if a check crashes; /repo must be clean before.
"""
import json
import os
import subprocess
import sys

REPO = "/repo"
VERIF = os.path.dirname(os.path.dirname(os.path.abspath(__file__)))


def sh(cmd, **kw):
    return subprocess.run(cmd, shell=True, capture_output=True, text=True, **kw)


def main():
    patch = os.path.abspath(sys.argv[1])
    props = sys.argv[2:] or [c["property_id"] for c in json.load(open(os.path.join(VERIF, "MANIFEST.json")))["checks"]]
    if sh(f"git -C {REPO} status --porcelain --untracked-files=no").stdout.strip():
        print("refusing: /repo has uncommitted changes")
        return 2
    r = sh(f"git -C {REPO} apply {patch}")
    if r.returncode != 0:
        print("patch does not apply:", r.stderr[:300])
        return 2
    fired = {}
    try:
        procs = {p: subprocess.Popen(["/venv/bin/python", os.path.join(VERIF, "check.py"), p, "--tier", "quick"],
                                     stdout=subprocess.PIPE, stderr=subprocess.STDOUT, text=True, cwd=VERIF,
                                     env=dict(os.environ, HGSA_NO_EVIDENCE="1")) for p in props}
        for p, pr in procs.items():
            out, _ = pr.communicate()
            lines = [l for l in out.splitlines() if l.startswith("FINDING") or l.startswith("ANALYSIS-ERROR")]
            fired[p] = (pr.returncode, lines)
    finally:
        sh(f"git -C {REPO} checkout -- .")
    hit = [p for p, (rc, _) in fired.items() if rc == 1]
    err = [p for p, (rc, _) in fired.items() if rc == 2]
    print(f"patch {patch}: VIOLATION in {hit or 'none'}; ANALYSIS-ERROR in {err or 'none'}")
    for p in hit + err:
        for l in fired[p][1][:4]:
            print(f"  [{p}] {l[:330]}")
    # restore the evidence files of the unchanged tree
    return 0


if __name__ == "__main__":
    sys.exit(main())
