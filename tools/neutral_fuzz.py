#!/venv/bin/python
"""Development entry point: behaviour-preserving transformations x all checks (see hgsa/neutral.py).

  neutral_fuzz.py [T1 T2 ...] [--props C01,C02] [--files substring]
"""
import os
import sys

sys.path.insert(0, os.path.dirname(os.path.dirname(os.path.abspath(__file__))))
from hgsa.neutral import main  # noqa: E402

if __name__ == "__main__":
    sys.exit(main(sys.argv[1:]))
