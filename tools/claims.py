# per-property claims; executed by gen_manifest.py (claim(...) / na(...))
# Every text says which structural clauses are decided and that the run-time behaviour itself is not executed.

claim(
    "C01",
    "def-use slicing through constructor summaries + rational-function normal forms (no solver) + decision-table "
    "evaluation of the NaN-aware helpers",
    "Decides the algebraic shape of merge for all 19 primitives: every content field of a+b depends on that field of both "
    "operands (and the key set of data-keyed containers on both key sets); scalar combining expressions are symmetric "
    "under swapping the operands and the empty-side branches mirror each other; NaN-initialised fields are combined under "
    "a two-sided empty guard or a NaN-as-missing helper with a checked decision table; zero() is parameter-preserving and "
    "content-free; fill equals + with the singleton as an identity of rational functions (Count, Sum, Average, Deviate; "
    "non-empty and empty node) and, for Minimize/Maximize, as equality of decision tables; the leaf merge formulas composed "
    "with themselves are associative ((a+b)+c == a+(b+c) as rational functions of the nine operand fields); children of "
    "key-addressed collections are paired by key, never by position; combining with += keeps the receiver (shared rule of "
    "C07); fill hands the caller's weight to exactly the specified slots (shared rule of C02: additivity of fill over chunks); "
    "a + b, += and zero() of partials reloaded from JSON keep what only ed() establishes (shared rule of C04); "
    "what fill leaves in mean/variance for every (state class x datum class) pair is what merging the one-datum partials leaves (shared rule of C02); "
    "a dictionary accumulator (Bag.values) is merged key by key to self[k] + other[k] / other[k] (per-key evaluation); Python's builtin min/max is never applied to the "
    "NaN-capable extremum of Minimize/Maximize; "
    "defs.combine/increment. Necessary conditions of the property; data-dependent key sets under fill and "
    "floating-point rounding are NOT decided.",
    "Identities are over the reals; formula extraction follows the branch selected by the stated scenario (finite datum, "
    "empty/non-empty operands); an unsupported construct is ANALYSIS-ERROR, never a pass.",
    "DESIGN.md section 3, C01",
)
claim(
    "C04",
    "writer/reader agreement by def-use analysis (toJsonFragment vs fromJsonFragment -> ed -> __init__), mode typestate of "
    "constructors, rational-function composition for inverse pairs",
    "Decides that the two JSON code paths of every primitive agree: identical mandatory/optional key sets at every level, "
    "every key read back into the field it was written from, encoder applied exactly where the reader admits "
    "'nan'/'inf'/'-inf', children rebuilt by the factory of their own type tag with paired name suppression, registry and "
    "specialised `name` properties, fields established only by ed() surviving zero/+/* of a reloaded container with no slot "
    "left None, no JSON-keyed dict splatted into named parameters, numbers stored into serialised fields by _numpy passing "
    "through float()/int() (numpy integer/float32 scalars are not JSON-serialisable), and Bag's reader normalising numeric "
    "keys with the same function as the filling path, a child's name suppression being a constant that matches what the reader "
    "passes as nameFromParent, integer dict keys being parsed with int(text) directly (never through float), and ed() putting no range "
    "check on an accumulator other than entries (every state toJson can emit reloads), and every `getattr(child, name, default)` probe of a "
    "writer being answered by each class that can still be the child at that point (Select's __getattr__ raises KeyError for unknown names); type tags "
    "(contentType, *:type) come from `.name`, never from the Python class name that specialize() changes; every reader that restores a quantity name falls "
    "back to nameFromParent; the string encodings 'nan'/'inf'/'-inf' of a tagged value (Bag, range) are decoded under the document's tag; a factored-out "
    "child name the writer takes from the template is retained by the reader without children - this last clause fails for SparselyBin and Categorize, "
    "recorded as known findings. "
    "Bit-exact float text and equality of reloaded "
    "content for arbitrary states are NOT decided.",
    "Assumes maybeAdd adds exactly the non-None keyword pairs and hasKeys is the closed-set test its body states (its "
    "shape is part of C15's gates).",
    "DESIGN.md section 3, C04",
)
claim(
    "C06",
    "ownership/shape abstract interpretation with constructor summaries + effect summaries (fixpoint over self-calls)",
    "Decides aliasing and effects in the code's shape: all methods of the primitives, Container and the plot/specialised "
    "mixins outside the declared mutators have no store effect on receiver, arguments or anything borrowed from them; every "
    "aggregator stored into a child slot of the result of __add__/__mul__/zero is fresh; aggregator-valued default arguments "
    "(45 sites incl. dfinterface) reach fillable slots only through copy()/zero() and constructor summaries do not weaken "
    "against the confirmed table; template instantiation in fill/_numpy is fresh per slot; quantity names are written only "
    "on objects fresh out of ed(); mutable default arguments are never written and never become object state anywhere in the "
    "package; the plotting mixins are analysed with the field shapes of their host primitive and the projections they build "
    "hold only fresh counters; two child slots of one object never receive the same object (chained assignment, slot-to-slot store, one local stored twice); "
    "a += b keeps nothing borrowed from b (shared rule of C07). "
    "Run-time object graphs built by user code are NOT decided.",
    "Induction hypothesis: +, *, zero(), copy() of a child aggregator return fresh objects (the same rule is checked on every "
    "class). Flow-insensitive joins make the analysis conservative.",
    "DESIGN.md section 3, C06",
)
claim(
    "C07",
    "sibling agreement __iadd__ vs __add__ (def-use labels, guard signatures) + ownership lattice + CFG return check",
    "Decides for all 19 __iadd__: delegation (`both = self + other`, every content field taken from it) or in-place idiom with "
    "the same raising structural guards as __add__, every accumulator augmented (not overwritten) from the same field of "
    "`other`, every child slot merged with += (children of key-addressed slots paired by key), right-only keys inserted; "
    "NaN-initialised fields merged under the two-sided empty discipline; every normal path returns self; `other` is never "
    "written and nothing borrowed from it is stored into self; fillsparksql merges with +=; no accumulating store of own state inside a merge loop is "
    "loop-invariant; Bag.values is merged key by key to self[k] + other[k] / other[k] (per-key evaluation of the loop). Value-level equality under "
    "rounding is NOT decided.",
    "Same induction as C06 for child +=.",
    "DESIGN.md section 3, C07",
)
claim(
    "C08",
    "abstract evaluation over factor classes {NaN,<0,0,>0} + homogeneity-degree inference from fill + container-kind inference",
    "Decides for all 19 __mul__/__rmul__: exactly the NaN/non-positive factor classes return self.zero(); the scaling table "
    "derived from fill by homogeneity (weight, entries degree 1; datum degree 0) - extensive accumulators and every child slot "
    "multiplied by the factor, intensive ones copied; __rmul__ delegates; stores keep the container kind fixed by __init__ "
    "wherever the class uses the field kind-sensitively (tuple concat, hash, item assignment); Count refuses a non-identity "
    "transform first; a slot that __init__ mirrors into per-element attributes (Branch.i0..iN) is only ever set by __init__; "
    "the children of h*f are fresh objects (shared rule of C06); structural parameters and the bin template of h*f are h's own; a positive factor never returns the empty aggregator on any returning path; the child keys of h*f are h's own keys. Numeric identities under rounding are NOT decided.",
    "The degree assignment must be the unique consistent one; otherwise ANALYSIS-ERROR.",
    "DESIGN.md section 3, C08",
)
claim(
    "C09",
    "def-use analysis of __eq__ (field-dependence labels with keys/len/zip/slice flavours) + must-depend conjunction analysis "
    "over the CFG + evaluation-order isinstance check + shape check of numeq",
    "Decides which fields == can see: every field that toJsonFragment serialises flows from both operands into a "
    "content-sensitive comparison not under `or`; iterating/sorting a dict compares keys only and does not count; zip counts "
    "only with a length equality (so do elements obtained by iterating one operand only), and a proper slice or one attribute of a child (`self.denominator.entries`) or of an element of a child container (`v1.entries`) does not count as the whole field; in loop-free bodies every accepting return has passed the comparison of every field the function compares by name; the quantity whose name is serialised "
    "takes part in == and UserFcn.__eq__ depends on name and expr on every path; NaN-initialised fields go through numeq; isinstance(other, K) precedes any read of other; "
    "__ne__ negates ==; numeq has the NaN/inf/guarded-widening-tolerance/exact-fallback shape (decision table over IEEE classes; every "
    "positive-tolerance return is the symmetric `abs(x - y) <= bound`, through tolerance-derived locals as well). Equality of clones is NOT "
    "decided (needs their content).",
    "UserFcn equality of two Python functions by code object is taken as given.",
    "DESIGN.md section 3, C09",
)
claim(
    "C10",
    "must-dataflow of the type guard over the CFG + raising-comparison extraction + typestate for atomic rejection",
    "Decides for all 19 __add__/__iadd__: the type of `other` is established (isinstance with a failure edge that can only "
    "raise; reading an attribute does not count because Select forwards unknown attributes to its cut) before any store, child merge or construction; every structural "
    "parameter is compared with a mismatch that raises on its own (not only together with another mismatch, on a path that every normal return passes; scalars by value, fixed layouts by length/keys/thresholds, data-keyed "
    "containers by declared content type, which must survive zero/+/* in reloaded form - shared rule of C04); on every returning path every child slot has "
    "passed through the children's own + / += (the only place where the children's types are compared); and that += "
    "changes no state before an operation that can still reject - the "
    "last clause fails on the 12 container classes, which are recorded as known findings. Run-time behaviour on concrete "
    "trees is NOT executed.",
    "Nested mismatches surface from the child's own guard (induction over the same rule on every class).",
    "DESIGN.md section 3, C10",
)
claim(
    "C11",
    "set agreement between specialize/__getstate__/__setstate__, branch coverage of __reduce__, attribute resolution",
    "Narrow structural part: wrapper attributes installed, stripped and rebuilt are the same set and __dict__ is restored "
    "first; __reduce__ covers None/str/function and raises otherwise, its deserializers are module-level and restore every "
    "attribute __init__ sets; a rebuilt function gets a namespace of its own and the module's globals() are never written; every "
    "self.x in the pickling helpers resolves; Select.__getattr__ cannot recurse; the globals shipped with a function quantity are selected "
    "by membership only; the branches of Bin/CentrallyBin/Count._numpy selected by `transform is identity` (the unpickled clone takes the "
    "general one) have the same effect (shared rules of C03); UserFcn.__eq__ compares function quantities by code and names only (values whose == "
    "survives a copy); a string quantity keeps no per-record state in its unpickled closure (shared rule of C17); fill.numpy never writes into the caller's "
    "arrays, so clone and original handed one batch see the same batch (shared rule of C03); the references captured for a function override util's own globals in the rebuilt namespace. Fidelity of "
    "marshal-ed code and liveness/equality of the clone are NOT decided.",
    "pickle's protocol itself is trusted.",
    "DESIGN.md section 3, C11",
)
claim(
    "C12",
    "typestate (Clean -> Dirty on the first own-state store) over the CFG of every fill and its self-helpers",
    "Decides the ordering clause on every path of all 19 fill(): after the node's own state changed, no user function, "
    "child fill, raising helper, explicit raise, computed index or operation on a not-yet-validated user value can follow; "
    "single-path containers fill at most one child per path (induction step for ancestors); the repository's own rollback "
    "marker comment never follows an own-state store; conversion helpers that fill relies on as validators let the conversion error escape; a string quantity is evaluated in a namespace built for the record alone and a cached quantity that raises leaves no memo behind (shared rules of C17); a value returned by the user's function is stored into own state only where its type has been validated, and no handler around a child fill or user call swallows the failure. Run-time exception behaviour is NOT executed; numpy paths are outside "
    "the property.",
    "A user value counts as validated only by an isinstance test against numbers.Real or narrower (or a string type): "
    "math.isnan/isinf, arithmetic and comparisons on a validated numbers.Real, and membership/store on the node's own dict "
    "with a validated hashable key do not raise.",
    "DESIGN.md section 3, C12",
)
claim(
    "C13",
    "attribute resolution in composed classes + call-graph reachability + element-count identities (value-numbered "
    "polynomials)",
    "Narrow structural part: every self.x in primitives/specialised classes/plot mixins resolves in each composition; the "
    "accessors of Bin/SparselyBin/CentrallyBin reach the routing function fill uses and do not re-implement index arithmetic; "
    "element counts agree (edges = entries + 1, centres = entries = num_bins) on the full-range and general branches; "
    "Categorize labels/entries iterate the same dict; None-or-number attributes (minBin/maxBin) are never used as truth values; 2-D grids/projections sum inner-most bins only; every edge expression "
    "(range(), isclose corrections) is the class's one edge function of its index; children are looked up by an index obtained "
    "from the class's own index methods, never from inline arithmetic on the query; views have no store effect on the "
    "histogram and projections are built from fresh counters (shared rules of C06); the four accessors decide the end-of-range "
    "correction with one predicate; grid cells are addressed by positions of a dense index range or by lookup in the axis' key list; no view "
    "takes the length of an array from np.arange over float arguments; the accessors return an empty result for the same out-of-domain queries; an "
    "edge `i * width + origin` takes width and origin from one histogram; an index that may be the negative 'no bin' sentinel is range-checked before it "
    "addresses a list of children; range(i) is (E(i), E(i+1)) for one float expression E; a loop index over the outer/nested bins of a 2-D view is bounded by the same histogram's bin count. Sub-range numerics (rounding, arange "
    "lengths) and mpv are NOT decided.",
    "IrregularlyBin.fill routes inline, so there is no shared routing function to compare with for that class.",
    "DESIGN.md section 3, C13",
)
claim(
    "C14",
    "interprocedural alias propagation of the frame parameter + def-use export check + key-vocabulary agreement",
    "Narrow structural part: along the call graph from make_histograms the input frame and its plain aliases are never the "
    "target of a direct store; data-derived filler attributes read while histograms are built are exported by "
    "get_features_specs whole (not through a filtering comprehension) and make_histograms forwards its specification parameters; every "
    "nesting primitive built in get_hist_bin receives the histogram built so far and the axis' quantity; every bin-spec key set produced anywhere "
    "is accepted by a branch of get_hist_bin; _fill_histogram fills through hist.fill.numpy; given specs are never overwritten; a "
    "function that takes an axis index reads its column list with that index; no freshly indexed Series is assigned into the frame; the timestamp converter to_ns returns an integer on every path; the working frame process_features returns is never stored into by the functions it is handed to; the result of an empty-means-all column helper is consumed through the caller's own list; both spellings of an aliased bin-spec key are read wherever one of them is. The homomorphism over row chunks, "
    "dtype inference and quantiles are run-time and NOT decided.",
    "Only the pandas filler is followed (spark is not importable here and is outside the property's environment).",
    "DESIGN.md section 3, C14",
)
claim(
    "C15",
    "static path analysis over statement CFGs: per-iteration definite assignment, must-consume dataflow, "
    "closed-gate/raise reachability, type-validation facts dataflow",
    "Decides, for all 19 fromJsonFragment readers, the 19 ed() constructors and Factory.fromJson, on every path: no "
    "value from a previous loop iteration reaches a use, every non-raising path through a builder loop stores the "
    "element, every hasKeys gate is closed and its failure edge can only raise, no fall-through return, no exception "
    "built without raise, every JSON value is used only under a type validation that agrees with the use, ed() "
    "re-validates ranges, header/version/unknown-type gates raise and the version gate is monotone in the document's version, every key that is read reaches the field it was written from (shared rule of C04), every child fragment is parsed by the factory of its own "
    "type tag (shared rule of C04), every gated key of the fragment is read on every path to a successful return, no document-derived dict is splatted into "
    "named parameters (shared rule of C04), the negative-entries check of ed() dominates every normal return. This is the structural clause of the property "
    "(every failed validation ends in raise; nothing dropped, duplicated or defaulted); behaviour of fromJson on "
    "concrete documents is not executed.",
    "Assumes an unbound local raises, Factory.registered[x] raises for unknown x, child readers validate their own "
    "fragment (induction over the same rule on all 19 readers). version.compatible's arithmetic is taken as given.",
    "DESIGN.md section 3, C15",
)
claim(
    "C16",
    "dominance + control-dependence analysis of the cross-reference walk and its call sites",
    "Decides: every fill and fillnumpy calls the walk on a node dominating every own-state store, child fill and user call; "
    "`children` reads every stored slot fill/_numpy fill; in the walk the identity test and raise must not be "
    "control-dependent on the once-only flag the same traversal sets - this last clause fails on today's tree and is "
    "recorded as a known finding; the once-only flag is stored after the recursion into the children; outside the _numpy methods every "
    "use of `<x>._numpy` is dominated by a call of the walk; the flag is not stored on the failure path; `children` lists every filled slot on every branch; __hash__ of a primitive with a bin template does not read the template (the walk's memo hashes every node); an identity test that runs on every visit does not follow `children` into shared templates. Detection on concrete trees is NOT executed.",
    "none beyond the class model.",
    "DESIGN.md section 3, C16",
)
claim(
    "C17",
    "attribute resolution + def-use agreement of the memo attributes + isinstance-order check of the wrapper table",
    "Narrow structural part: self.x reads in UserFcn/CachedFcn resolve; CachedFcn's hit condition reads exactly the "
    "attributes the miss path writes, compares positionals under a length equality and keywords under key-set equality and "
    "calls the base __call__ unchanged; serializable/cached/named never double-wrap, carry expr and name, test the subclass "
    "first, a second explicit name raises while a default name derived by the constructor does not block a first one; the memo "
    "key is stored only after the wrapped call returned; UserFcn.__call__ compiles once, passes arguments through, evaluates in a "
    "namespace that is fresh per call and in which the record's fields take precedence over pre-loaded names, and discovers the free "
    "variable of a bare-datum expression as exactly (names of the code object) minus (names the namespace provides), and takes a record's fields unfiltered; "
    "the wrapper functions never assign attributes of the wrapper they are given; UserFcn.__init__ stores a derived name only when no name was given; the "
    "evaluation namespace is pre-loaded with all public names of math (no filter but a leading-underscore test) and eval takes that one namespace (no separate locals mapping). What string expressions "
    "evaluate to is NOT decided.",
    "none beyond the class model.",
    "DESIGN.md section 3, C17",
)
claim(
    "C02",
    "finite-domain abstract interpretation of fill over order-type regions x weight classes (exhaustive), rational-function "
    "normal forms for the accumulator updates, decision tables for min/max",
    "Decides for all 19 fill(): no effect for NaN/non-positive weights; for every container the routing table region -> "
    "{(child slot, weight)} over ALL order-type regions of the datum (NaN, -inf, each critical point, each open interval, +inf; "
    "1-3 thresholds/centres quick, 0-5 thorough) equals the specified table; the generic-case accumulator updates equal the "
    "specified functions as rational functions; Minimize/Maximize follow the min/max-ignoring-NaN decision table; a float-class "
    "interpretation of Average.fill and Deviate.fill over (empty|finite|+inf|-inf|NaN state) x (finite|+inf|-inf|NaN datum) "
    "yields the IEEE class of the weighted mean/variance of those data (opposite infinities -> NaN); every child fill is handed the caller's datum itself; the index formula of bin() inverts the edge function of range() (rational identity) and is the floating-point expression the vectorised path computes (shared rule of C03). Every statement of every fill must be reached by some scenario. NOT decided: "
    "that the opaque in-range index arithmetic picks the numerically right bucket for every float; floating-point summation "
    "order; what user functions return.",
    "Exact abstraction for comparison-only code (two data in one region take the same path). Library summaries are listed in "
    "the evidence file's assumptions. An unsupported construct is ANALYSIS-ERROR, never a pass.",
    "DESIGN.md sections 2.4 and 3, C02",
)
claim(
    "C03",
    "row-wise abstract interpretation of _numpy (generic row: region x weight class; both branches of every data-dependent "
    "fast path) compared with the abstract interpretation of fill; alias/taint tracking of input arrays; rational-function "
    "comparison of the batch-merge formulas",
    "Decides for all 19 _numpy, for every region of q[i] (NaN, +-inf, every edge/midpoint/threshold included), weight class "
    "{0,1,>0}, scalar and array weights, Count and non-Count children, known/unknown shape, and every fast/slow path: the same "
    "{(child slot, weight)} as fill up to zero weights (containers) / the same influence of the row on the accumulators "
    "(leaves); entries grows by the unmasked caller weight; no array that may alias the caller's inputs is written (with an "
    "embedded positive control); same slots visited; Average/Deviate batch merge == __add__ as rational functions; a one-row "
    "batch changes a Minimize/Maximize exactly as fill does for every region relative to the current extremum; Count adds (per-row "
    "increment) x (number of rows) on every branch; Stack is also checked with descending thresholds; the expression that reaches np.floor "
    "in Bin/SparselyBin._numpy is the expression under math.floor in the scalar index method up to commutativity of + and * only (same "
    "rounding); numpy.average over a batch is guarded by a test that implies a positive batch weight (linear forms over prior entries and "
    "batch weight); a Count child is handed the batch only once the batch length is known (the shared shape cell is modelled); every child "
    "_numpy is handed the caller's data (or None for a pre-summed Count, or a row selection of it); every range test on the real-valued sparse "
    "index in bin() has a counterpart on the float index in _numpy before the integer cast; every site that hands a child an aggregated weight is controlled by `transform is identity`, "
    "and Count._numpy transforms only the rows whose weight is > 0. One known "
    "finding (Sum masks NaN rows). NOT decided: equality of floating-point reductions, key creation order, negative weights.",
    "numpy/bisect library summaries (np.histogram edge conventions, np.unique partition, int64 cast of NaN/inf) are stated "
    "assumptions; every numpy operation used must be in the closed vocabulary (else ANALYSIS-ERROR).",
    "DESIGN.md sections 2.4 and 3, C03",
)
claim(
    "C05",
    "bookkeeping rules evaluated on the routing tables of the abstract interpreter (fill and _numpy, all regions, all paths) + "
    "homogeneity-derived scaling table",
    "Decides: partition nodes route every region to exactly one slot and Stack fills a prefix including level 0, in fill and "
    "in every path of _numpy; on every path with positive weight entries is incremented exactly once by the caller's weight "
    "and the partition child / collection children / Fraction.denominator / Bag cell receive that same weight; a fixed-length "
    "child sequence is never indexed by an unclamped float-derived index (scalar and vectorised); __mul__ implements the "
    "scaling table derived from fill; a numeric datum never makes fill raise; no node writes into the weight/data arrays its "
    "siblings also use and child += other_child updates the child (shared rules of C03/C07); Bag keys are normalised so that equal data share "
    "one key (shared rule of C02); a Count child of a collection sees the batch length and a Count handed a scalar weight and a known length grows by weight x rows (shared rules of C03); the vectorised entry point hands only positive-or-zero weights to the tree (rows whose weight is not > 0 are skipped as in fill); a + b, h * f and zero() share no child with their operands (shared rule of C06). NOT decided: that floats adjacent to an edge land in the numerically right bin, and "
    "sums up to rounding; invariants through + and += are the structural clauses of C01/C07.",
    "Same assumptions as C02/C03.",
    "DESIGN.md sections 2.4 and 3, C05",
)
