# per-property claims; executed by gen_manifest.py (claim(...) / na(...))
claim(
    "C15",
    "static path analysis over statement CFGs: per-iteration definite assignment, must-consume dataflow, "
    "closed-gate/raise reachability, type-validation facts dataflow",
    "Decides, for all 19 fromJsonFragment readers, the 19 ed() constructors and Factory.fromJson, on every path: no "
    "value from a previous loop iteration reaches a use, every non-raising path through a builder loop stores the "
    "element, every hasKeys gate is closed and its failure edge can only raise, no fall-through return, no exception "
    "built without raise, every JSON value is used only under a type validation that agrees with the use, ed() "
    "re-validates ranges, header/version/unknown-type gates raise. This is the structural clause of the property "
    "(every failed validation ends in raise; nothing dropped, duplicated or defaulted); behaviour of fromJson on "
    "concrete documents is not executed.",
    "Assumes an unbound local raises, Factory.registered[x] raises for unknown x, child readers validate their own "
    "fragment (induction over the same rule on all 19 readers). version.compatible's arithmetic is taken as given.",
    "DESIGN.md section 3, C15",
)
for _p in ["C01", "C02", "C03", "C04", "C05", "C06", "C07", "C08", "C09", "C10", "C11", "C12", "C13", "C14", "C16", "C17"]:
    na(_p, "check under construction in this session (see DESIGN.md section 3 for the planned static rules); not claimed until it runs clean")
