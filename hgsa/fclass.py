"""A float-class interpreter for scalar leaf code: values are IEEE classes (NaN, -inf, +inf, finite with an optional
sign), tests are three-valued and an unknown test forks.  Used to decide how non-finite data move an accumulator.

Nothing is executed: statements of the analysed function are walked (If / Assign / AugAssign / Expr / Raise / Pass /
Return); calls of other methods of the same class are inlined when they store to a tracked field and skipped otherwise.
"""

import ast

from .loader import AnalysisError, FuncInfo


class Unsupported(AnalysisError):
    pass


class FV:
    """cls: 'nan' | '+inf' | '-inf' | 'fin' | 'unk' ; sign (for 'fin'): -1 | 0 | 1 | None"""
    __slots__ = ("cls", "sign")

    def __init__(self, cls, sign=None):
        self.cls = cls
        self.sign = sign if cls == "fin" else {"+inf": 1, "-inf": -1}.get(cls)

    def __repr__(self):
        if self.cls == "fin":
            return {None: "finite", 0: "0", 1: "finite>0", -1: "finite<0"}[self.sign]
        return self.cls

    @property
    def label(self):
        return "finite" if self.cls == "fin" else self.cls


NAN, PINF, NINF = FV("nan"), FV("+inf"), FV("-inf")
UNKV = FV("unk")


def fin(sign=None):
    return FV("fin", sign)


def _inf(sign):
    return PINF if sign > 0 else NINF


def neg(a):
    if a.cls == "nan" or a.cls == "unk":
        return a
    if a.cls == "fin":
        return fin(None if a.sign is None else -a.sign)
    return _inf(-a.sign)


def add(a, b):
    if "nan" in (a.cls, b.cls):
        return NAN
    if "unk" in (a.cls, b.cls):
        return UNKV
    ia, ib = a.cls != "fin", b.cls != "fin"
    if ia and ib:
        return a if a.sign == b.sign else NAN
    if ia:
        return a
    if ib:
        return b
    if a.sign == 0:
        return fin(b.sign)
    if b.sign == 0:
        return fin(a.sign)
    return fin(a.sign if a.sign is not None and a.sign == b.sign else None)


def mul(a, b):
    if "nan" in (a.cls, b.cls):
        return NAN
    if "unk" in (a.cls, b.cls):
        return UNKV
    if a.cls == "fin" and b.cls == "fin":
        if a.sign == 0 or b.sign == 0:
            return fin(0)
        return fin(None if None in (a.sign, b.sign) else a.sign * b.sign)
    # at least one infinity
    for x in (a, b):
        if x.cls == "fin" and x.sign == 0:
            return NAN
    if a.sign is None or b.sign is None:
        return UNKV        # +-inf or NaN: not decided
    return _inf(a.sign * b.sign)


def div(a, b):
    if "nan" in (a.cls, b.cls):
        return NAN
    if "unk" in (a.cls, b.cls):
        return UNKV
    if b.cls != "fin":
        return NAN if a.cls != "fin" else fin(0)
    if b.sign == 0 or b.sign is None:
        return UNKV        # ZeroDivisionError / sign unknown
    if a.cls == "fin":
        return fin(None if a.sign is None else a.sign * b.sign)
    return _inf(a.sign * b.sign)


def compare(a, op, b):
    """three-valued: True | False | None"""
    if "nan" in (a.cls, b.cls):
        return isinstance(op, ast.NotEq)
    if "unk" in (a.cls, b.cls):
        return None

    def rank(v):
        return {"-inf": -2, "+inf": 2}.get(v.cls)
    ra, rb = rank(a), rank(b)
    if ra is not None or rb is not None:
        ka = ra if ra is not None else 0
        kb = rb if rb is not None else 0
    else:
        # finite vs finite: decidable only against a zero
        if b.sign == 0 and a.sign is not None:
            ka, kb = a.sign, 0
        elif a.sign == 0 and b.sign is not None:
            ka, kb = 0, b.sign
        else:
            return None
    return {ast.Lt: ka < kb, ast.LtE: ka <= kb, ast.Gt: ka > kb, ast.GtE: ka >= kb, ast.Eq: ka == kb, ast.NotEq: ka != kb}.get(type(op))


def extremum(vs, is_max):
    """builtin max/min of float classes, evaluated as Python does: the first argument is kept unless a later one compares
    greater (smaller) - so a NaN in first position is returned, a NaN in a later position is skipped"""
    op = ast.Gt() if is_max else ast.Lt()
    cur = vs[0]
    for v in vs[1:]:
        c = compare(v, op, cur)
        if c is True:
            cur = v
        elif c is None:
            if v.cls == "fin" and cur.cls == "fin":
                if is_max and 1 in (v.sign, cur.sign):
                    cur = fin(1)
                elif (not is_max) and -1 in (v.sign, cur.sign):
                    cur = fin(-1)
                elif v.sign is not None and cur.sign is not None:
                    cur = fin(max(v.sign, cur.sign) if is_max else min(v.sign, cur.sign))
                else:
                    cur = fin(None)
            else:
                cur = UNKV
    return cur


class _Done(Exception):
    def __init__(self, how):
        self.how = how


class Path:
    def __init__(self, env, outcome, trail):
        self.env = env
        self.outcome = outcome     # 'return' | 'raise'
        self.trail = trail         # [(lineno, branch)]
        self.value = None          # value of the return expression, if any
        self.node = None


class Interp:
    MAX_PATHS = 256

    def __init__(self, repo, cls, tracked, calls=None):
        self.repo = repo
        self.cls = cls
        self.tracked = set(tracked)
        self.calls = calls or {}       # text of a call's func -> value or callable(args) -> FV
        self.visited = set()           # line numbers of statements reached

    # ---- expressions
    def ev(self, e, env, selfname):
        if isinstance(e, ast.Constant):
            if isinstance(e.value, bool):
                return e.value
            if isinstance(e.value, (int, float)):
                return fin((e.value > 0) - (e.value < 0))
            return ("const", e.value)
        if isinstance(e, (ast.Name, ast.Attribute)):
            k = ast.unparse(e)
            if k in env:
                return env[k]
            if isinstance(e, ast.Attribute):
                return ("obj", k)
            raise Unsupported(f"unknown name `{k}`")
        if isinstance(e, ast.UnaryOp):
            if isinstance(e.op, ast.Not):
                v = self.truth(self.ev(e.operand, env, selfname))
                return None if v is None else (not v)
            v = self.ev(e.operand, env, selfname)
            if isinstance(v, FV):
                return neg(v) if isinstance(e.op, ast.USub) else v
            raise Unsupported(f"unary operator on {v!r}")
        if isinstance(e, ast.BoolOp):
            isand = isinstance(e.op, ast.And)
            unknown = False
            for sub in e.values:
                v = self.truth(self.ev(sub, env, selfname))
                if v is None:
                    unknown = True
                elif v is (not isand):
                    # short circuit only when nothing unknown came before; the value is decided either way
                    return v
            return None if unknown else isand
        if isinstance(e, ast.Compare):
            if len(e.ops) != 1:
                raise Unsupported("chained comparison")
            a, b = self.ev(e.left, env, selfname), self.ev(e.comparators[0], env, selfname)
            if isinstance(a, FV) and isinstance(b, FV):
                return compare(a, e.ops[0], b)
            if isinstance(a, bool) and isinstance(b, bool) and isinstance(e.ops[0], (ast.Eq, ast.NotEq, ast.Is, ast.IsNot)):
                return (a == b) if isinstance(e.ops[0], (ast.Eq, ast.Is)) else (a != b)
            return None
        if isinstance(e, ast.BinOp):
            a, b = self.ev(e.left, env, selfname), self.ev(e.right, env, selfname)
            if not (isinstance(a, FV) and isinstance(b, FV)):
                raise Unsupported(f"arithmetic on {a!r}, {b!r}")
            if isinstance(e.op, ast.Add):
                return add(a, b)
            if isinstance(e.op, ast.Sub):
                return add(a, neg(b))
            if isinstance(e.op, ast.Mult):
                return mul(a, b)
            if isinstance(e.op, ast.Div):
                return div(a, b)
            raise Unsupported(f"operator {type(e.op).__name__}")
        if isinstance(e, ast.Call):
            fn = ast.unparse(e.func)
            if fn in self.calls:
                c = self.calls[fn]
                return c([self.ev(a, env, selfname) for a in e.args]) if callable(c) else c
            if fn == "float" and len(e.args) == 1:
                a = e.args[0]
                if isinstance(a, ast.Constant) and isinstance(a.value, str):
                    t = a.value.strip().lower().lstrip("+")
                    if t == "nan":
                        return NAN
                    if t in ("inf", "infinity"):
                        return PINF
                    if t in ("-inf", "-infinity"):
                        return NINF
                return self.ev(a, env, selfname)
            if fn == "isinstance":
                return True
            if fn in ("math.isnan", "np.isnan", "numpy.isnan"):
                v = self.ev(e.args[0], env, selfname)
                return None if not isinstance(v, FV) or v.cls == "unk" else v.cls == "nan"
            if fn in ("math.isinf", "np.isinf", "numpy.isinf"):
                v = self.ev(e.args[0], env, selfname)
                return None if not isinstance(v, FV) or v.cls == "unk" else v.cls in ("+inf", "-inf")
            if fn in ("math.isfinite", "np.isfinite", "numpy.isfinite"):
                v = self.ev(e.args[0], env, selfname)
                return None if not isinstance(v, FV) or v.cls == "unk" else v.cls == "fin"
            if fn == "abs" and len(e.args) == 1:
                v = self.ev(e.args[0], env, selfname)
                if isinstance(v, FV):
                    return {"-inf": PINF, "+inf": PINF, "nan": NAN, "unk": UNKV}.get(v.cls) or fin(None if v.sign is None else abs(v.sign))
            if fn in ("max", "min") and len(e.args) >= 2 and not e.keywords:
                vs = [self.ev(a, env, selfname) for a in e.args]
                if all(isinstance(v, FV) for v in vs):
                    return extremum(vs, fn == "max")
            raise Unsupported(f"call `{ast.unparse(e)}`")
        if isinstance(e, (ast.Tuple, ast.List)):
            return ("tuple", [self.ev(x, env, selfname) for x in e.elts])
        if isinstance(e, ast.JoinedStr):
            return ("const", "str")
        if isinstance(e, ast.IfExp):
            t = self.truth(self.ev(e.test, env, selfname))
            if t is None:
                raise Unsupported("conditional expression with an undecided test")
            return self.ev(e.body if t else e.orelse, env, selfname)
        raise Unsupported(f"expression `{ast.unparse(e)}`")

    @staticmethod
    def truth(v):
        if v is True or v is False or v is None:
            return v
        if isinstance(v, FV):
            if v.cls == "fin":
                return None if v.sign is None else v.sign != 0
            return None if v.cls == "unk" else True
        return None

    # ---- statements: returns the list of surviving (env, trail) states; finished paths go to self.paths
    def block(self, stmts, states, f, selfname):
        for st in stmts:
            nxt = []
            for env, trail in states:
                nxt += self.stmt(st, env, trail, f, selfname)
            states = nxt
            if len(states) + len(self.paths) > self.MAX_PATHS:
                raise Unsupported("too many paths")
            if not states:
                break
        return states

    def stmt(self, st, env, trail, f, selfname):
        self.visited.add(st.lineno)
        if isinstance(st, ast.Expr):
            v = st.value
            if isinstance(v, ast.Constant):
                return [(env, trail)]
            if isinstance(v, ast.Call):
                return self.call_stmt(v, env, trail, f, selfname)
            raise Unsupported(f"statement `{ast.unparse(st)}`")
        if isinstance(st, ast.Pass):
            return [(env, trail)]
        if isinstance(st, ast.Raise):
            self.paths.append(Path(env, "raise", trail))
            return []
        if isinstance(st, ast.Return):
            pth = Path(env, "return", trail)
            pth.node = st
            try:
                pth.value = self.ev(st.value, env, selfname) if st.value is not None else None
            except Unsupported:
                pth.value = ("unsupported", ast.unparse(st.value))
            self.paths.append(pth)
            return []
        if isinstance(st, ast.Assign):
            v = self.ev(st.value, env, selfname)
            env = dict(env)
            for t in st.targets:
                if isinstance(t, (ast.Tuple, ast.List)) and isinstance(v, tuple) and v and v[0] == "tuple" and len(v[1]) == len(t.elts) \
                        and all(isinstance(x, (ast.Name, ast.Attribute)) for x in t.elts):
                    for tt, vv in zip(t.elts, v[1]):
                        env[ast.unparse(tt)] = vv
                    continue
                if not isinstance(t, (ast.Name, ast.Attribute)):
                    raise Unsupported(f"assignment target `{ast.unparse(t)}`")
                env[ast.unparse(t)] = v
            return [(env, trail)]
        if isinstance(st, ast.AugAssign):
            if not isinstance(st.target, (ast.Name, ast.Attribute)):
                raise Unsupported(f"assignment target `{ast.unparse(st.target)}`")
            k = ast.unparse(st.target)
            fake = ast.BinOp(left=st.target, op=st.op, right=st.value)
            v = self.ev(fake, env, selfname)
            env = dict(env)
            env[k] = v
            return [(env, trail)]
        if isinstance(st, ast.If):
            t = self.truth(self.ev(st.test, env, selfname))
            out = []
            for branch in ((True, False) if t is None else (t,)):
                tr = trail + [(st.lineno, branch)]
                out += self.block(st.body if branch else st.orelse, [(env, tr)], f, selfname)
            return out
        raise Unsupported(f"statement `{type(st).__name__}` at line {st.lineno}")

    def call_stmt(self, call, env, trail, f, selfname):
        fn = call.func
        if isinstance(fn, ast.Attribute) and isinstance(fn.value, ast.Name) and fn.value.id == selfname:
            m = self.repo.lookup(self.cls, fn.attr)
            if isinstance(m, FuncInfo):
                msn = m.params[0]
                stores = {t.attr for n in ast.walk(m.node) for t in ([n.target] if isinstance(n, ast.AugAssign) else getattr(n, "targets", []) if isinstance(n, ast.Assign) else [])
                          if isinstance(t, ast.Attribute) and isinstance(t.value, ast.Name) and t.value.id == msn}
                if not (stores & self.tracked):
                    return [(env, trail)]
                if len(self.stack) > 3:
                    raise Unsupported("inlining depth")
                # inline: rename the callee's self to ours by textual environment keys
                if msn != selfname or call.args or call.keywords:
                    raise Unsupported(f"call `{ast.unparse(call)}` with arguments stores to tracked fields")
                self.stack.append(m)
                saved = self.paths
                self.paths = []
                body = [s for s in m.node.body]
                states = self.block(body, [(env, trail)], m, selfname)
                returned = [(p.env, p.trail) for p in self.paths if p.outcome == "return"]
                raised = [p for p in self.paths if p.outcome == "raise"]
                self.paths = saved + raised
                self.stack.pop()
                return states + returned
        return [(env, trail)]

    def run(self, f, env):
        self.paths = []
        self.stack = []
        selfname = f.params[0] if f.params else "self"
        body = [s for s in f.node.body]
        states = self.block(body, [(dict(env), [])], f, selfname)
        for env2, trail in states:
            self.paths.append(Path(env2, "return", trail))
        return self.paths
