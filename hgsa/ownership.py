"""Ownership / shape evaluation for result-building methods (DESIGN 2.3).

Abstract values carry a shape (scalar, aggregator, sequence, dict, pair, abstract object under construction) and,
for aggregators and mutable containers, an ownership: fresh, or borrowed from a parameter (self / other / an
argument).  The evaluator interprets the AST of small methods flow-insensitively; constructor calls are evaluated
through the constructor's own body (constructor summaries), `self.zero()` through the body of zero().
"""

import ast

from .astutil import walk_local_stmt
from .loader import AnalysisError, ClassInfo, FuncInfo

FRESH = "fresh"


class V:
    __slots__ = ("kind", "own", "elem", "items", "cls", "fields", "note")

    def __init__(self, kind, own=None, elem=None, items=None, cls=None, fields=None, note=None):
        self.kind = kind      # S scalar | A aggregator | L sequence | D dict | P pair/tuple | O object under construction | U unknown
        self.own = own        # FRESH | ("borrowed", root, path) | None
        self.elem = elem
        self.items = items
        self.cls = cls
        self.fields = fields
        self.note = note

    def __repr__(self):
        if self.kind == "S":
            return "S"
        o = "fresh" if self.own == FRESH else (f"borrowed<{self.own[1]}.{self.own[2]}>" if self.own else "?")
        if self.kind == "A":
            return f"A:{o}"
        if self.kind in ("L", "D"):
            return f"{self.kind}:{o}[{self.elem!r}]"
        if self.kind == "P":
            return "P(" + ", ".join(repr(i) for i in self.items) + ")"
        if self.kind == "O":
            return f"O<{self.cls.name if self.cls else '?'}>"
        return "U"


S = V("S")
U = V("U")


def A(own):
    return V("A", own)


def borrowed(root, path):
    return ("borrowed", root, path)


def worse(o1, o2):
    if o1 is None:
        return o2
    if o2 is None:
        return o1
    if o1 == FRESH:
        return o2
    return o1


def join(a, b):
    if a is None:
        return b
    if b is None:
        return a
    if a.kind == "S":
        return b
    if b.kind == "S":
        return a
    if a.kind == "U":
        return b
    if b.kind == "U":
        return a
    if a.kind != b.kind:
        # keep the more dangerous one (a borrowed aggregator)
        for x in (a, b):
            if bad_parts(x):
                return x
        return a
    if a.kind == "A":
        return V("A", worse(a.own, b.own))
    if a.kind in ("L", "D"):
        return V(a.kind, worse(a.own, b.own), join(a.elem, b.elem))
    if a.kind == "P":
        if len(a.items) == len(b.items):
            return V("P", items=[join(x, y) for x, y in zip(a.items, b.items)])
        return a
    if a.kind == "O":
        if a.cls is b.cls:
            f = dict(a.fields)
            for k, v in b.fields.items():
                f[k] = join(f.get(k), v)
            return V("O", cls=a.cls, fields=f)
        return a
    return a


def with_own(v, own):
    """Deep re-owning: everything reachable from a borrowed container is borrowed."""
    if v is None or v.kind in ("S", "U"):
        return v
    if v.kind == "A":
        return V("A", own)
    if v.kind in ("L", "D"):
        return V(v.kind, own, with_own(v.elem, own))
    if v.kind == "P":
        return V("P", items=[with_own(i, own) for i in v.items])
    return v


def bad_parts(v, need_container_fresh=True, _path=""):
    """Borrowed aggregators (and borrowed mutable containers) reachable from v: list of (description, own)."""
    out = []
    if v is None or v.kind in ("S", "U"):
        return out
    if v.kind == "A":
        if v.own != FRESH and v.own is not None:
            out.append((_path or "value", v.own))
    elif v.kind in ("L", "D"):
        if need_container_fresh and v.own not in (FRESH, None) and v.note != "immutable":
            out.append(((_path or "value") + " (the container itself)", v.own))
        out += bad_parts(v.elem, need_container_fresh, (_path or "value") + "[*]")
    elif v.kind == "P":
        for i, it in enumerate(v.items):
            out += bad_parts(it, need_container_fresh, (_path or "value") + f"[{i}]")
    elif v.kind == "O":
        pass  # checked at construction
    return out


class Shapes:
    """Field shapes per primitive class, from the inferred model."""

    def __init__(self, repo, models):
        self.repo = repo
        self.models = models
        self.pair_slots = {}
        for name, m in models.items():
            for s in m.slots:
                if m.slot_kind.get(s) in ("list", "tuple", "list/tuple"):
                    for rhs in m.init_fields.get(s, []):
                        for n in ast.walk(rhs):
                            if isinstance(n, (ast.ListComp, ast.GeneratorExp)) and isinstance(n.elt, ast.Tuple) and len(n.elt.elts) == 2:
                                self.pair_slots[(name, s)] = True

    def field(self, cls, attr, own):
        m = self.models.get(cls.name) if cls is not None else None
        if m is None:
            for k in (self.repo.mro(cls) if cls is not None else []):
                if k.name in self.models:
                    m = self.models[k.name]
                    break
        if m is None:
            return U
        if attr in m.slots:
            k = m.slot_kind.get(attr)
            if k == "single":
                return A(own)
            if k == "dict":
                return V("D", own, A(own))
            if (m.name, attr) in self.pair_slots:
                return V("L", own, V("P", items=[S, A(own)]), note="immutable" if k == "tuple" else None)
            return V("L", own, A(own), note="immutable" if k == "tuple" else None)
        if attr == m.template:
            return V("A", own, note="template")
        if m.name == "Bag" and attr == "values":
            return V("D", own, S)
        return S

    def nested(self, attr, own):
        """`<borrowed aggregator of unknown class>.attr`: if some primitive keeps children under that name, the value is
        (a container of) aggregators that belong to the same owner; None if no class has such a slot."""
        kinds = set()
        pair = False
        for name, m in self.models.items():
            if attr in m.slots:
                kinds.add(m.slot_kind.get(attr))
                pair = pair or (name, attr) in self.pair_slots
            elif attr == m.template:
                kinds.add("single")
        if not kinds:
            return None
        if kinds == {"single"}:
            return A(own)
        if kinds == {"dict"}:
            return V("D", own, A(own))
        # lists of aggregators, lists of (threshold, aggregator) pairs, or dicts: indexing/iterating yields something of the owner
        return V("L", own, A(own), note="nested")


class Evaluator:
    def __init__(self, repo, shapes, depth=0):
        self.repo = repo
        self.shapes = shapes
        self.depth = depth
        self.sink_reports = []   # (node, func, message) produced while evaluating constructor calls

    # ------------------------------------------------------------------ function-level
    def eval_function(self, cls, f, self_val=None, arg_vals=None, roots=None, track=None):
        """Flow-insensitive evaluation of a method body. Returns (env, returned value, evaluator state).

        roots: {param name: root label} - attributes of these params are borrowed from that root.
        """
        env = {}
        params = f.params
        roots = dict(roots or {})
        arg_vals = arg_vals or {}
        for p in params:
            if p in arg_vals:
                env[p] = arg_vals[p]
        a = f.node.args
        if a.vararg and a.vararg.arg in arg_vals:
            env[a.vararg.arg] = arg_vals[a.vararg.arg]
        if a.kwarg and a.kwarg.arg in arg_vals:
            env[a.kwarg.arg] = arg_vals[a.kwarg.arg]
        ctx = Ctx(self, cls, f, roots, env, self_val)
        for _ in range(5):
            before = repr(sorted((k, repr(v)) for k, v in env.items())) + repr(ctx.objs_repr())
            ctx.pass_statements()
            after = repr(sorted((k, repr(v)) for k, v in env.items())) + repr(ctx.objs_repr())
            if before == after:
                break
        ctx.final = True
        ctx.reports = []
        ctx.pass_statements()
        ret = None
        for n in walk_local_stmt(f.node):
            if isinstance(n, ast.Return) and n.value is not None:
                ret = join(ret, ctx.ev(n.value))
        return ctx, ret


class Ctx:
    def __init__(self, evaluator, cls, f, roots, env, self_val):
        self.E = evaluator
        self.repo = evaluator.repo
        self.shapes = evaluator.shapes
        self.cls = cls
        self.f = f
        self.roots = roots
        self.env = env
        self.self_val = self_val
        self.final = False
        self.reports = []     # (node, message, own) sinks violated
        self.stores = []      # (root or objvar, field, value, node, kind)

    def objs_repr(self):
        return [(k, sorted((fk, repr(fv)) for fk, fv in v.fields.items())) for k, v in self.env.items() if v is not None and v.kind == "O"]

    # ------------------------------------------------------------------ expressions
    def ev(self, e):
        if e is None:
            return S
        if isinstance(e, ast.Constant):
            return S
        if isinstance(e, ast.Name):
            if e.id in self.env:
                return self.env[e.id]
            if e.id in self.roots:
                return V("A", borrowed(self.roots[e.id], ""), note="param")
            return U
        if isinstance(e, ast.Attribute):
            if isinstance(e.value, ast.Name) and e.value.id in self.roots and e.value.id not in self.env:
                root = self.roots[e.value.id]
                r = self.repo.lookup(self.cls, e.attr) if self.cls is not None else None
                if isinstance(r, FuncInfo) and r.is_property:
                    return self.prop(r, e.value.id, root)
                return self.shapes.field(self.cls, e.attr, borrowed(root, e.attr))
            base = self.ev(e.value)
            if base.kind == "O":
                return base.fields.get(e.attr, S)
            if base.kind == "A" and e.attr in ("quantity", "transform"):
                return S
            if base.kind == "A" and base.own not in (FRESH, None):
                own = borrowed(base.own[1], ((base.own[2] + ".") if base.own[2] else "") + e.attr)
                nv = self.shapes.nested(e.attr, own)
                if nv is not None:
                    return nv
            return S if base.kind in ("A", "S", "P", "L", "D") else U
        if isinstance(e, ast.Subscript):
            base = self.ev(e.value)
            if base.kind in ("L", "D"):
                if isinstance(e.slice, ast.Slice):
                    return V(base.kind, FRESH, base.elem)
                return base.elem or U
            if base.kind == "P":
                if isinstance(e.slice, ast.Constant) and isinstance(e.slice.value, int) and -len(base.items) <= e.slice.value < len(base.items):
                    return base.items[e.slice.value]
                out = None
                for it in base.items:
                    out = join(out, it)
                return out or U
            if base.kind == "A" and base.own not in (FRESH, None):
                return base        # e.g. a (threshold, aggregator) pair taken for an aggregator: still the owner's
            return U if base.kind == "U" else S
        if isinstance(e, ast.Call):
            return self.call(e)
        if isinstance(e, ast.BinOp):
            l, r = self.ev(e.left), self.ev(e.right)
            if l.kind in ("A", "O") or r.kind in ("A", "O"):
                return A(FRESH)  # aggregator + / * : fresh by induction over the same rule on every class
            if l.kind == "L" and r.kind == "L":
                return V("L", FRESH, join(l.elem, r.elem))
            if l.kind == "L" and isinstance(e.op, ast.Mult):
                return V("L", FRESH, l.elem, note="replicated")
            if r.kind == "L" and isinstance(e.op, ast.Mult):
                return V("L", FRESH, r.elem, note="replicated")
            if l.kind == "U" or r.kind == "U":
                return U
            return S
        if isinstance(e, (ast.ListComp, ast.GeneratorExp, ast.SetComp)):
            saved = dict(self.env)
            self.bind_gens(e.generators)
            v = self.ev(e.elt)
            self.env.clear()
            self.env.update(saved)
            return V("L", FRESH, v)
        if isinstance(e, ast.DictComp):
            saved = dict(self.env)
            self.bind_gens(e.generators)
            v = self.ev(e.value)
            self.env.clear()
            self.env.update(saved)
            return V("D", FRESH, v)
        if isinstance(e, ast.Tuple):
            return V("P", items=[self.ev(x) for x in e.elts])
        if isinstance(e, ast.List):
            out = None
            for x in e.elts:
                out = join(out, self.ev(x))
            return V("L", FRESH, out or S)
        if isinstance(e, ast.Dict):
            out = None
            for x in e.values:
                out = join(out, self.ev(x))
            return V("D", FRESH, out or S)
        if isinstance(e, ast.IfExp):
            return join(self.ev(e.body), self.ev(e.orelse))
        if isinstance(e, ast.Starred):
            return self.ev(e.value)
        if isinstance(e, (ast.Compare, ast.BoolOp, ast.UnaryOp, ast.JoinedStr)):
            if isinstance(e, ast.BoolOp):
                out = None
                for x in e.values:
                    out = join(out, self.ev(x))
                return out
            return S
        if isinstance(e, ast.Lambda):
            return U
        return U

    def prop(self, r, param, root):
        """Value of a property read on a borrowed root."""
        sub = Ctx(self.E, self.cls, r, {r.params[0]: root}, {}, None)
        out = None
        for n in walk_local_stmt(r.node):
            if isinstance(n, ast.Return) and n.value is not None:
                out = join(out, sub.ev(n.value))
        if out is not None and out.kind in ("L", "D") and out.own == FRESH:
            # a fresh list of borrowed elements, e.g. `list(self.pairs.values())`
            return out
        return out or U

    def elem_of(self, v):
        if v.kind in ("L",):
            return v.elem or U
        if v.kind == "D":
            return S  # iterating a dict yields keys
        if v.kind == "P":
            out = None
            for it in v.items:
                out = join(out, it)
            return out or U
        return U

    def bind(self, target, v):
        if isinstance(target, ast.Name):
            self.env[target.id] = join(self.env.get(target.id), v) if self.final is False and target.id in self.env else v
        elif isinstance(target, (ast.Tuple, ast.List)):
            if v.kind == "P" and len(v.items) == len(target.elts):
                for t, it in zip(target.elts, v.items):
                    self.bind(t, it)
            else:
                for t in target.elts:
                    self.bind(t, self.elem_of(v) if v.kind in ("L", "P") else U)
        elif isinstance(target, ast.Starred):
            self.bind(target.value, v)

    def bind_gens(self, gens):
        for g in gens:
            it = self.ev(g.iter)
            self.bind(g.target, self.elem_of(it))

    def call(self, e):
        fn = e.func
        args = [self.ev(a) for a in e.args]
        if isinstance(fn, ast.Name):
            n = fn.id
            if n in self.roots and n not in self.env:
                r = self.repo.lookup(self.cls, "__call__") if self.cls is not None else None
                if isinstance(r, FuncInfo):
                    return self.prop(r, n, self.roots[n])
                return U
            if n in ("float", "int", "len", "str", "repr", "bool", "abs", "round", "hash", "isinstance", "numeq", "sum",
                     "min", "max", "all", "any", "hasattr", "callable", "minplus", "maxplus", "floatToJson", "id"):
                return S
            if n in ("list", "tuple", "sorted", "reversed", "set", "frozenset", "iter"):
                if args:
                    a0 = args[0]
                    if a0.kind == "L":
                        return V("L", FRESH, a0.elem, note="immutable" if n == "tuple" else None)
                    if a0.kind == "D":
                        return V("L", FRESH, S)
                    if a0.kind == "P":
                        return V("L", FRESH, self.elem_of(a0))
                    return V("L", FRESH, U) if a0.kind == "U" else V("L", FRESH, S)
                return V("L", FRESH, S)
            if n == "dict":
                if args and args[0].kind == "D":
                    return V("D", FRESH, args[0].elem)
                if args and args[0].kind == "L":
                    el = args[0].elem
                    if el is not None and el.kind == "P" and len(el.items) == 2:
                        return V("D", FRESH, el.items[1])
                    return V("D", FRESH, U)
                out = None
                for k in e.keywords:
                    out = join(out, self.ev(k.value) if k.arg else (self.ev(k.value).elem or U))
                return V("D", FRESH, out or S)
            if n == "zip":
                return V("L", FRESH, V("P", items=[self.elem_of(a) for a in args]))
            if n == "enumerate":
                return V("L", FRESH, V("P", items=[S, self.elem_of(args[0]) if args else U]))
            if n in ("range", "xrange"):
                return V("L", FRESH, S)
            if n in ("getattr",):
                return U
            r = self.repo.resolve_name(self.f.module, n)
            if isinstance(r, ClassInfo):
                return self.construct(r, e)
            if isinstance(r, FuncInfo):
                return U
            return U
        if isinstance(fn, ast.Attribute):
            recv = self.ev(fn.value)
            m = fn.attr
            if m in ("zero", "copy") and recv.kind in ("A", "O", "U"):
                return A(FRESH)
            if m == "copy" and recv.kind in ("L", "D"):
                return V(recv.kind, FRESH, recv.elem)
            if m == "specialize":
                return recv
            if m in ("__mul__", "__add__", "__rmul__") and recv.kind in ("A", "O"):
                return A(FRESH)
            if recv.kind == "D":
                if m == "items":
                    return V("L", FRESH, V("P", items=[S, recv.elem or U]))
                if m == "values":
                    return V("L", FRESH, recv.elem or U)
                if m == "keys":
                    return V("L", FRESH, S)
                if m in ("get", "pop", "setdefault"):
                    out = recv.elem or U
                    for a in args[1:]:
                        out = join(out, a)
                    return out
            if m in ("union", "intersection", "difference"):
                return V("L", FRESH, S)
            if m in ("ed", "ing") and isinstance(fn.value, ast.Name):
                r = self.repo.resolve_name(self.f.module, fn.value.id)
                if isinstance(r, ClassInfo):
                    return A(FRESH)
            # dotted constructor: module.K(...)
            try:
                r = self.repo.resolve_name(self.f.module, ast.unparse(fn))
            except Exception:
                r = None
            if isinstance(r, ClassInfo):
                return self.construct(r, e)
            if recv.kind in ("A", "O") and m in ("fill", "_numpy"):
                return S
            return S if recv.kind == "S" else U
        return U

    # ------------------------------------------------------------------ constructors
    def construct(self, k, call):
        """Evaluate K(...) through K.__init__: returns an abstract object with its fields."""
        init = self.repo.method(k, "__init__", required=False)
        if init is None or init.cls is None or self.E.depth > 3:
            return A(FRESH)
        is_prim = any(x.name in self.shapes.models for x in self.repo.mro(k))
        if not is_prim:
            return V("U")
        a = init.node.args
        pos = [p.arg for p in a.posonlyargs + a.args][1:]
        argv = {}
        star_extra = None
        i = 0
        for arg in call.args:
            if isinstance(arg, ast.Starred):
                v = self.ev(arg.value)
                star_extra = join(star_extra, self.elem_of(v) if v.kind in ("L", "P") else U)
            elif i < len(pos):
                argv[pos[i]] = self.ev(arg)
                i += 1
            else:
                star_extra = join(star_extra, self.ev(arg))
        kw_extra = None
        for kw in call.keywords:
            if kw.arg is None:
                v = self.ev(kw.value)
                kw_extra = join(kw_extra, v.elem if v.kind == "D" else U)
            elif kw.arg in pos or kw.arg in [p.arg for p in a.kwonlyargs]:
                argv[kw.arg] = self.ev(kw.value)
            else:
                kw_extra = join(kw_extra, self.ev(kw.value))
        if a.vararg:
            argv[a.vararg.arg] = V("L", FRESH, star_extra or S, note="immutable")
        if a.kwarg:
            argv[a.kwarg.arg] = V("D", FRESH, kw_extra or S)
        # defaults: a default aggregator instance is shared by every call -> borrowed from the function object
        for p, d in init.defaults().items():
            if p not in argv:
                if isinstance(d, ast.Call):
                    argv[p] = V("A", borrowed("default", f"{k.name}.__init__({p}=...)"))
                else:
                    argv[p] = S
        sub = Evaluator(self.repo, self.shapes, self.E.depth + 1)
        selfname = init.params[0]
        ctx, _ = sub.eval_function(k, init, arg_vals=argv, roots={})
        fields = {}
        for (root, fld, v, node, kind) in ctx.stores:
            if root == selfname:
                fields[fld] = join(fields.get(fld), v) if kind != "set" or fld in fields else v
        return V("O", cls=k, fields=fields)

    # ------------------------------------------------------------------ statements
    def pass_statements(self):
        self.stores = []
        selfname = self.f.params[0] if self.f.params and not self.f.is_static else None
        nodes = [n for n in walk_local_stmt(self.f.node) if isinstance(n, (ast.Assign, ast.AugAssign, ast.For, ast.Expr, ast.AnnAssign))]
        for n in sorted(nodes, key=lambda x: (x.lineno, x.col_offset)):
            if isinstance(n, ast.Assign):
                v = self.ev(n.value)
                for t in n.targets:
                    self.assign(t, v, n)
            elif isinstance(n, ast.AugAssign):
                v = self.ev(n.value)
                tv = self.ev(n.target) if not isinstance(n.target, ast.Name) or n.target.id in self.env else U
                if isinstance(n.target, ast.Name):
                    # x += y on aggregators mutates x in place: no rebinding to a new owner
                    pass
                else:
                    self.record_store(n.target, v, n, "aug")
            elif isinstance(n, ast.For):
                it = self.ev(n.iter)
                self.bind(n.target, self.elem_of(it))
            elif isinstance(n, ast.Expr) and isinstance(n.value, ast.Call) and isinstance(n.value.func, ast.Attribute):
                c = n.value
                if c.func.attr in ("append", "add", "insert", "extend", "update"):
                    vals = [self.ev(a) for a in c.args]
                    v = vals[-1] if vals else S
                    if c.func.attr in ("extend", "update") and v.kind in ("L", "D"):
                        v = v.elem or U
                    if isinstance(c.func.value, ast.Name) and c.func.value.id in self.env:
                        cur = self.env[c.func.value.id]
                        if cur.kind in ("L", "D"):
                            self.env[c.func.value.id] = V(cur.kind, cur.own, join(cur.elem, v), note=cur.note)
                    else:
                        self.record_store(ast.Subscript(value=c.func.value, slice=ast.Constant(value=0), ctx=ast.Store()), v, n, "elem")

    def assign(self, t, v, node):
        if isinstance(t, ast.Name):
            if t.id in self.env and not self.final:
                self.env[t.id] = join(self.env[t.id], v)
            elif t.id in self.env and self.env[t.id].kind == "O" and v.kind == "O":
                self.env[t.id] = join(self.env[t.id], v)
            else:
                self.env[t.id] = v if t.id not in self.env else join(self.env[t.id], v)
        elif isinstance(t, (ast.Tuple, ast.List)):
            # unpacking: every element target is an assignment of its own (`out.values, smaller = other.values, self.values`)
            if v.kind == "P" and len(v.items) == len(t.elts):
                for tt, it in zip(t.elts, v.items):
                    self.assign(tt, it, node)
            else:
                for tt in t.elts:
                    self.assign(tt.value if isinstance(tt, ast.Starred) else tt, self.elem_of(v) if v.kind in ("L", "P", "D") else U, node)
        else:
            self.record_store(t, v, node, "elem" if isinstance(t, ast.Subscript) else "set")

    def record_store(self, t, v, node, kind):
        # find root.F at the base of the target
        depth = 0
        base = t
        while isinstance(base, ast.Subscript):
            base = base.value
            depth += 1
        if isinstance(base, ast.Attribute) and isinstance(base.value, ast.Name):
            rootname = base.value.id
            fld = base.attr
            if rootname in self.env and self.env[rootname].kind == "O":
                obj = self.env[rootname]
                cur = obj.fields.get(fld)
                if depth == 0:
                    obj.fields[fld] = v if kind == "set" else join(cur, v)
                else:
                    # element store into a container field
                    if cur is not None and cur.kind in ("L", "D"):
                        obj.fields[fld] = V(cur.kind, cur.own, join(cur.elem, v), note=cur.note)
                    else:
                        obj.fields[fld] = V("D", FRESH, v)
                self.stores.append((rootname, fld, v, node, kind if depth == 0 else "elem"))
            else:
                self.stores.append((rootname, fld, v, node, kind if depth == 0 else "elem"))
        elif isinstance(base, ast.Name) and base.id in self.env and depth > 0:
            cur = self.env[base.id]
            if cur.kind in ("L", "D"):
                self.env[base.id] = V(cur.kind, cur.own, join(cur.elem, v), note=cur.note)
