"""Loader and resolved class model (DESIGN 2.1).

Parses every *.py under <repo>/histogrammar with the stdlib ``ast`` module; nothing from the
repository is imported or executed.  Builds modules, import tables, classes with a C3 MRO over
repository classes, per-class method tables (including post-hoc ``Count.n_dim = n_dim`` class
attributes, properties and staticmethods) and the ``Factory.register`` registry.
"""

import ast
import os
import sys

REPO_ROOT = os.environ.get("HGSA_REPO", "/repo")
PKG = "histogrammar"


class AnalysisError(Exception):
    """Something the analysis relies on vanished or is outside the supported subset (exit 2)."""


_MANGLED = None


def demangle(text):
    """names of inlined helper locals (`_i12_key`) are shown with their original spelling"""
    global _MANGLED
    if _MANGLED is None:
        import re
        _MANGLED = re.compile(r"\b_i\d+_")
    return _MANGLED.sub("", text)


def norm(node):
    """Normalised one-line text of a statement/expression (keys for findings; never line numbers)."""
    return demangle(_norm(node))


def _norm(node):
    if isinstance(node, (ast.If, ast.While)):
        return type(node).__name__.lower() + " " + ast.unparse(node.test)
    if isinstance(node, ast.For):
        return "for " + ast.unparse(node.target) + " in " + ast.unparse(node.iter)
    if isinstance(node, (ast.FunctionDef, ast.AsyncFunctionDef)):
        return "def " + node.name
    if isinstance(node, ast.ClassDef):
        return "class " + node.name
    if isinstance(node, ast.Try):
        return "try"
    if isinstance(node, ast.With):
        return "with " + ", ".join(ast.unparse(i) for i in node.items)
    try:
        return " ".join(ast.unparse(node).split())
    except Exception:  # pragma: no cover
        return type(node).__name__


class FuncInfo:
    def __init__(self, node, module, cls=None):
        self.node = node
        self.name = node.name
        self.module = module
        self.cls = cls
        self.decorators = []
        for d in node.decorator_list:
            self.decorators.append(ast.unparse(d))
        self.is_static = "staticmethod" in self.decorators
        self.is_classmethod = "classmethod" in self.decorators
        self.is_property = "property" in self.decorators or any(d.endswith(".setter") for d in self.decorators)
        self.is_setter = any(d.endswith(".setter") for d in self.decorators)

    @property
    def qualname(self):
        return (self.cls.name + "." if self.cls else "") + self.name

    @property
    def construct(self):
        return f"{self.module.relpath}::{self.qualname}"

    @property
    def params(self):
        a = self.node.args
        return [x.arg for x in a.posonlyargs + a.args]

    def defaults(self):
        """param name -> default expr (positional and kw-only)."""
        a = self.node.args
        pos = a.posonlyargs + a.args
        out = {}
        for p, d in zip(pos[len(pos) - len(a.defaults):], a.defaults):
            out[p.arg] = d
        for p, d in zip(a.kwonlyargs, a.kw_defaults):
            if d is not None:
                out[p.arg] = d
        return out

    def __repr__(self):
        return f"<Func {self.construct}>"


class ClassInfo:
    def __init__(self, node, module):
        self.node = node
        self.name = node.name
        self.module = module
        self.base_exprs = [ast.unparse(b) for b in node.bases]
        self.bases = []  # resolved ClassInfo (repository classes only)
        self.external_bases = []
        self.methods = {}  # name -> FuncInfo (getter for properties)
        self.setters = {}
        self.class_attrs = {}  # name -> ast expr (class-level assignments and post-hoc X.a = v)
        self.posthoc = {}  # name -> (expr, resolved FuncInfo or None)
        for st in node.body:
            if isinstance(st, (ast.FunctionDef, ast.AsyncFunctionDef)):
                fi = FuncInfo(st, module, self)
                if fi.is_setter:
                    self.setters[st.name] = fi
                else:
                    self.methods[st.name] = fi
            elif isinstance(st, ast.Assign):
                for t in st.targets:
                    if isinstance(t, ast.Name):
                        self.class_attrs[t.id] = st.value
            elif isinstance(st, ast.AnnAssign) and isinstance(st.target, ast.Name) and st.value is not None:
                self.class_attrs[st.target.id] = st.value
        self._mro = None

    @property
    def qualname(self):
        return f"{self.module.name}.{self.name}"

    def __repr__(self):
        return f"<Class {self.qualname}>"


_CANON_DIGEST = None


IMPORTED_HELPER_PREFIX = "_hgsaimp_"
NEVER_IMPORTED = {"named", "cached", "serializable"}       # wrapper functions the rules of C17 reason about as atoms


def _parse_with_donors(src, path, donors):
    """parse(src); every donor - a small module-level function of another module of the package that validates its argument and raises
    (imported here with `from m import f`) - is appended as a private copy and its call sites renamed to it, so that the helper
    inliner (N8) treats the imported validator exactly like a private helper of this module"""
    tree = ast.parse(src, filename=path)
    if not donors:
        return tree
    stored = {n.id for n in ast.walk(tree) if isinstance(n, ast.Name) and isinstance(n.ctx, (ast.Store, ast.Del))}
    stored |= {n.name for n in ast.walk(tree) if isinstance(n, (ast.FunctionDef, ast.ClassDef, ast.AsyncFunctionDef))}
    stored |= {a.arg for n in ast.walk(tree) if isinstance(n, (ast.FunctionDef, ast.Lambda)) for a in n.args.args + n.args.kwonlyargs + n.args.posonlyargs}
    last = max((getattr(n, "end_lineno", 0) or 0 for n in tree.body), default=0)
    for name, dsrc in donors:
        if name in stored:
            continue
        fn = ast.parse(dsrc).body[0]
        fn.name = IMPORTED_HELPER_PREFIX + name
        for x in ast.walk(fn):
            if hasattr(x, "lineno"):
                x.lineno = x.end_lineno = last + 1
        used = False
        for n in ast.walk(tree):
            if isinstance(n, ast.Call) and isinstance(n.func, ast.Name) and n.func.id == name:
                n.func.id = fn.name
                used = True
        if used:
            tree.body.append(fn)
    return tree


def _strip_donors(tree):
    tree.body[:] = [n for n in tree.body if not (isinstance(n, ast.FunctionDef) and n.name.startswith(IMPORTED_HELPER_PREFIX))]
    for n in ast.walk(tree):
        if isinstance(n, ast.Name) and n.id.startswith(IMPORTED_HELPER_PREFIX):
            n.id = n.id[len(IMPORTED_HELPER_PREFIX):]
    return tree


def _canonical_tree(src, path, inline, donors=()):
    """canonicalise(parse(src)), memoised on disk by the digest of the source text and of the canonicaliser's own code.
    The analysis always starts from the current text of the file; only the (pure) rewriting of identical text is reused.
    HGSA_NO_CACHE=1 disables the cache; an unwritable cache directory is ignored."""
    import hashlib
    import pickle
    from .canon import canonicalise

    global _CANON_DIGEST
    donors = tuple(donors) if inline else ()
    if os.environ.get("HGSA_NO_CACHE"):
        return _strip_donors(canonicalise(_parse_with_donors(src, path, donors), inline=inline))
    here = os.path.dirname(os.path.abspath(__file__))
    if _CANON_DIGEST is None:
        h = hashlib.sha256()
        for fn in ("canon.py", "inline.py", "forward.py"):
            with open(os.path.join(here, fn), "rb") as fh:
                h.update(fh.read())
        h.update(sys.version.encode())
        _CANON_DIGEST = h.hexdigest()
    key = hashlib.sha256((_CANON_DIGEST + ("I" if inline else "P") + src + "".join(f"\0{n}\0{d}" for n, d in donors)).encode("utf-8")).hexdigest()
    cdir = os.path.join(os.path.dirname(here), ".hgsa_cache")
    cpath = os.path.join(cdir, key + ".pkl")
    try:
        with open(cpath, "rb") as fh:
            return pickle.load(fh)
    except Exception:
        pass
    tree = _strip_donors(canonicalise(_parse_with_donors(src, path, donors), inline=inline))
    try:
        os.makedirs(cdir, exist_ok=True)
        names = os.listdir(cdir)
        if len(names) > 6000:          # variants of the self-validation accumulate: start over rather than grow without bound
            for nm in names:
                try:
                    os.remove(os.path.join(cdir, nm))
                except OSError:
                    pass
        tmp = cpath + f".{os.getpid()}.tmp"
        with open(tmp, "wb") as fh:
            pickle.dump(tree, fh, protocol=pickle.HIGHEST_PROTOCOL)
        os.replace(tmp, cpath)
    except Exception:
        pass
    return tree


class Module:
    def __init__(self, name, path, relpath, src, inline=True, donors=()):
        self.name = name
        self.path = path
        self.relpath = relpath
        self.src = src
        self.tree = _canonical_tree(src, path, inline, donors)
        self.lines = src.split("\n")
        self.is_pkg = os.path.basename(path) == "__init__.py"
        self.imports = {}  # local name -> ("module", modname) | ("symbol", modname, symname)
        self.classes = {}
        self.functions = {}
        self.assigns = {}  # module-level simple assignments name -> expr
        # parent links; the context/operator nodes (Load(), Store(), Add(), ...) are singletons shared by ALL trees and must stay clean
        shared = (ast.expr_context, ast.operator, ast.cmpop, ast.boolop, ast.unaryop)
        for n in ast.walk(self.tree):
            for c in ast.iter_child_nodes(n):
                if isinstance(c, shared):
                    if "_parent" in getattr(c, "__dict__", {}):
                        del c.__dict__["_parent"]
                    continue
                c._parent = n

    def comment_lines(self, needle):
        return [i + 1 for i, l in enumerate(self.lines) if l.lstrip().startswith("#") and needle in l]


class Repo:
    def plain(self):
        """the same sources without helper inlining (cached)"""
        if not self.inline:
            return self
        if getattr(self, "_plain", None) is None:
            self._plain = Repo(self.root, self.overrides, inline=False)
        return self._plain

    def __init__(self, root=None, overrides=None, inline=True):
        """inline=False keeps private helpers as calls (for rules that reason with helper calls as atoms, e.g. C13)"""
        self.root = root or REPO_ROOT
        self.overrides = overrides or {}
        self.inline = inline
        self.modules = {}
        self.by_relpath = {}
        self._load()
        self._resolve()

    # ------------------------------------------------------------------ loading
    def _load(self):
        pkgdir = os.path.join(self.root, PKG)
        if not os.path.isdir(pkgdir):
            raise AnalysisError(f"package directory {pkgdir} not found")
        files = []
        for dirpath, dirnames, filenames in os.walk(pkgdir):
            dirnames[:] = sorted(d for d in dirnames if d != "__pycache__")
            for fn in sorted(filenames):
                if not fn.endswith(".py"):
                    continue
                path = os.path.join(dirpath, fn)
                rel = os.path.relpath(path, self.root)
                if rel in self.overrides:
                    src = self.overrides[rel]
                else:
                    with open(path, encoding="utf-8") as f:
                        src = f.read()
                modname = rel[:-3].replace(os.sep, ".")
                if modname.endswith(".__init__"):
                    modname = modname[: -len(".__init__")]
                files.append((modname, path, rel, src))
        # validators defined in one module and imported by name into another (`from histogrammar.defs import numberFromJson`):
        # small undecorated module-level functions that raise; they are inlined at their call sites like private helpers
        donors = {}
        raw = {}
        if self.inline:
            for modname, path, rel, src in files:
                try:
                    t = ast.parse(src, filename=path)
                except SyntaxError as e:
                    raise AnalysisError(f"cannot parse {rel}: {e}")
                raw[modname] = t
                for n in t.body:
                    if isinstance(n, ast.FunctionDef) and not n.decorator_list and n.name not in NEVER_IMPORTED and not n.name.startswith("__"):
                        nst = sum(1 for x in ast.walk(n) if isinstance(x, ast.stmt))
                        nested = any(isinstance(x, (ast.FunctionDef, ast.ClassDef, ast.Lambda, ast.Global, ast.Nonlocal, ast.Yield, ast.YieldFrom)) and x is not n for x in ast.walk(n))
                        if nst <= 15 and not nested and any(isinstance(x, ast.Raise) for x in ast.walk(n)) and not (n.args.vararg or n.args.kwarg or n.args.kwonlyargs):
                            donors[(modname, n.name)] = ast.unparse(n)
        for modname, path, rel, src in files:
            mine = []
            if donors and modname in raw:
                for n in raw[modname].body:
                    if isinstance(n, ast.ImportFrom) and n.module:
                        parts = modname.split(".")
                        base = n.module if n.level == 0 else ".".join(parts[: len(parts) - n.level + (1 if rel.endswith("__init__.py") else 0)] + [n.module])
                        for al in n.names:
                            if al.asname is None and (base, al.name) in donors and base != modname:
                                mine.append((al.name, donors[(base, al.name)]))
            try:
                m = Module(modname, path, rel, src, inline=self.inline, donors=tuple(sorted(mine)))
            except SyntaxError as e:
                raise AnalysisError(f"cannot parse {rel}: {e}")
            self.modules[modname] = m
            self.by_relpath[rel] = m
        for m in self.modules.values():
            self._scan_module(m)

    def _abs_module(self, m, level, name):
        if level == 0:
            return name
        parts = m.name.split(".")
        if not m.is_pkg:
            parts = parts[:-1]
        if level > 1:
            parts = parts[: -(level - 1)]
        return ".".join(parts + ([name] if name else []))

    def _scan_module(self, m):
        for st in ast.walk(m.tree):
            if isinstance(st, ast.Import):
                for a in st.names:
                    if a.asname:
                        m.imports.setdefault(a.asname, ("module", a.name))
                    else:
                        top = a.name.split(".")[0]
                        m.imports.setdefault(top, ("module", top))
            elif isinstance(st, ast.ImportFrom):
                mod = self._abs_module(m, st.level, st.module)
                for a in st.names:
                    m.imports.setdefault(a.asname or a.name, ("symbol", mod, a.name))
        for st in m.tree.body:
            if isinstance(st, ast.ClassDef):
                m.classes[st.name] = ClassInfo(st, m)
            elif isinstance(st, (ast.FunctionDef, ast.AsyncFunctionDef)):
                m.functions[st.name] = FuncInfo(st, m)
            elif isinstance(st, ast.Assign) and len(st.targets) == 1 and isinstance(st.targets[0], ast.Name):
                m.assigns[st.targets[0].id] = st.value

    # ------------------------------------------------------------------ resolution
    def resolve_name(self, m, dotted, _depth=0):
        """Resolve a (possibly dotted) name used in module m to a ClassInfo / FuncInfo / Module / ("assign", m, expr)."""
        if _depth > 12:
            return None
        parts = dotted.split(".")
        head = parts[0]
        cur = None
        if head in m.classes:
            cur = m.classes[head]
        elif head in m.functions:
            cur = m.functions[head]
        elif head in m.assigns and head not in m.imports:
            cur = ("assign", m, m.assigns[head])
        elif head in m.imports:
            imp = m.imports[head]
            if imp[0] == "module":
                cur = self._module_obj(imp[1])
            else:
                target = self.modules.get(imp[1])
                sub = self.modules.get(imp[1] + "." + imp[2])
                if target is not None:
                    r = self.resolve_name(target, imp[2], _depth + 1)
                    cur = r if r is not None else sub
                else:
                    cur = sub
        if cur is None:
            return None
        for p in parts[1:]:
            if isinstance(cur, Module):
                nxt = self.modules.get(cur.name + "." + p)
                r = self.resolve_name(cur, p, _depth + 1)
                cur = r if r is not None else nxt
            elif isinstance(cur, tuple) and cur and cur[0] == "extmodule":
                nxt = self.modules.get(cur[1] + "." + p)
                cur = nxt if nxt is not None else ("extmodule", cur[1] + "." + p)
            elif isinstance(cur, ClassInfo):
                cur = self.lookup(cur, p)
            else:
                return None
            if cur is None:
                return None
        return cur

    def _module_obj(self, name):
        if name in self.modules:
            return self.modules[name]
        return ("extmodule", name)

    def _resolve(self):
        self.classes = {}
        for m in self.modules.values():
            for c in m.classes.values():
                self.classes.setdefault(c.name, []).append(c)
        for m in self.modules.values():
            for c in m.classes.values():
                for b in c.node.bases:
                    r = self.resolve_name(m, ast.unparse(b))
                    if isinstance(r, ClassInfo):
                        c.bases.append(r)
                    else:
                        c.external_bases.append(ast.unparse(b))
        # post-hoc class attributes and registry
        self.registry = []  # (ClassInfo, call node, module)
        for m in self.modules.values():
            for st in m.tree.body:
                if isinstance(st, ast.Assign) and len(st.targets) == 1 and isinstance(st.targets[0], ast.Attribute):
                    t = st.targets[0]
                    if isinstance(t.value, ast.Name):
                        c = self.resolve_name(m, t.value.id)
                        if isinstance(c, ClassInfo):
                            r = None
                            if isinstance(st.value, (ast.Name, ast.Attribute)):
                                r = self.resolve_name(m, ast.unparse(st.value))
                            c.posthoc[t.attr] = (st.value, r if isinstance(r, FuncInfo) else None)
                elif isinstance(st, ast.Expr) and isinstance(st.value, ast.Call):
                    call = st.value
                    if ast.unparse(call.func) == "Factory.register" and len(call.args) == 1:
                        c = self.resolve_name(m, ast.unparse(call.args[0]))
                        if isinstance(c, ClassInfo):
                            self.registry.append((c, call, m))

    # ------------------------------------------------------------------ queries
    def cls(self, name, module=None):
        cands = self.classes.get(name, [])
        if module is not None:
            cands = [c for c in cands if c.module.name == module or c.module.relpath == module]
        if len(cands) != 1:
            raise AnalysisError(f"class {name} not uniquely found ({len(cands)} candidates)")
        return cands[0]

    def mro(self, c):
        if c._mro is not None:
            return c._mro
        seqs = [self.mro(b)[:] for b in c.bases] + [c.bases[:]]
        out = [c]
        while True:
            seqs = [s for s in seqs if s]
            if not seqs:
                break
            for s in seqs:
                cand = s[0]
                if not any(cand in t[1:] for t in seqs):
                    break
            else:
                raise AnalysisError(f"inconsistent MRO for {c.name}")
            out.append(cand)
            for s in seqs:
                if s[0] is cand:
                    del s[0]
        c._mro = out
        return out

    def lookup(self, c, attr):
        """Attribute lookup along the MRO: FuncInfo, ("classattr", expr) or None."""
        for k in self.mro(c):
            if attr in k.posthoc:
                expr, r = k.posthoc[attr]
                return r if r is not None else ("classattr", expr)
            if attr in k.methods:
                return k.methods[attr]
            if attr in k.class_attrs:
                return ("classattr", k.class_attrs[attr])
        return None

    def method(self, c, name, required=True):
        r = self.lookup(c, name)
        if isinstance(r, FuncInfo):
            return r
        if required:
            raise AnalysisError(f"method {c.name}.{name} not found")
        return None

    def own_method(self, c, name, required=True):
        r = c.methods.get(name)
        if r is None:
            # a concrete method shared through a mix-in of the package (Collection) counts as the class's own; the abstract roots
            # (Container, Factory: stubs that raise NotImplementedError) do not
            for k in self.mro(c)[1:]:
                if k.name in ("Container", "Factory", "object"):
                    continue
                if name in k.methods:
                    r = k.methods[name]
                    break
        if r is None and required:
            raise AnalysisError(f"method {c.name}.{name} not defined in the class itself")
        return r

    def is_subclass(self, c, base):
        return base in self.mro(c)

    def subclasses(self, base):
        return [c for cs in self.classes.values() for c in cs if base in self.mro(c)]

    def primitives(self):
        """The registered primitives, in registration order (the repository's own registry)."""
        seen = []
        for c, _, _ in self.registry:
            if c not in seen:
                seen.append(c)
        return seen

    def all_functions(self):
        for m in self.modules.values():
            for f in m.functions.values():
                yield f
            for c in m.classes.values():
                for f in c.methods.values():
                    yield f
                for f in c.setters.values():
                    yield f

    def exception_classes(self):
        out = []
        for cs in self.classes.values():
            for c in cs:
                chain = self.mro(c)
                if any(any(e.endswith("Exception") or e.endswith("Error") for e in k.external_bases) for k in chain):
                    out.append(c)
        return out


PRIMITIVE_NAMES = [
    "Count", "Sum", "Average", "Deviate", "Minimize", "Maximize", "Bag", "Bin", "SparselyBin", "CentrallyBin",
    "IrregularlyBin", "Stack", "Fraction", "Select", "Categorize", "Label", "UntypedLabel", "Index", "Branch",
]


def primitives(repo):
    """The 19 primitives by name; a missing one is an analysis error (anchor vanished)."""
    reg = {c.name: c for c in repo.primitives()}
    out = []
    for n in PRIMITIVE_NAMES:
        cands = [c for c in repo.classes.get(n, []) if c.module.name.startswith(PKG + ".primitives")]
        if len(cands) != 1:
            raise AnalysisError(f"primitive class {n} not found in histogrammar/primitives")
        out.append(cands[0])
    return out, reg
