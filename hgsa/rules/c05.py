"""C05 - bookkeeping invariants: every datum lands in exactly one bin, totals conserve."""

import ast

from ..astutil import call_name, walk_local_stmt
from ..interp import NAN, Pos, Unsup, W
from ..loader import AnalysisError, norm, primitives
from ..model import build_models
from ..routing import CONTAINERS, LEAVES, PARTITION, WEIGHT_CLASSES_NUMPY, configs, run_fill, run_numpy, weight_kind
from . import c08
from .c02 import all_configs


def numpy_variants(cname):
    """(children are Count?, shape already known from an enclosing node?) scenarios of a vectorised fill."""
    if cname in ("Label", "UntypedLabel", "Index", "Branch") or cname in LEAVES:
        return [(False, False), (False, True)]
    return [(True, False), (False, False)]


def entries_kinds(p):
    out = []
    for e in p.entries:
        if isinstance(e, tuple) and e and e[0] == "rowsum":
            k = weight_kind(e[1])
            if e[2] is not True:
                k = f"masked({k})"
            out.append(k)
        else:
            out.append(weight_kind(e))
    return out


def nonpositive_weights_normalised(repo, rep):
    """R5.12: every fill() counts a datum only when `weight > 0` - a zero, negative or NaN weight is a skipped row.  Every _numpy adds
    the raw `weights.sum()` to entries while its children/bins receive masked weights, so the vectorised entry point must hand only
    non-negative weights down: an array through `numpy.where(w > 0, w, 0)` (NaN -> 0 as well), and a scalar that is not > 0 must not reach
    _numpy at all.  Accepted idioms are enumerated here; anything else is reported."""
    import ast as _ast

    from .. import cfg as cfgmod
    from ..astutil import walk_local_stmt

    r12 = rep.rule("R5.12", "fillnumpy hands only positive-or-zero weights to the tree (rows with a negative or NaN weight are skipped as in fill)", floor=2)
    cont = repo.cls("Container", "histogrammar.defs")
    f = repo.own_method(cont, "fillnumpy")
    rep.analysed_functions.add(f.construct)
    if len(f.params) < 3:
        raise AnalysisError(f"{f.construct}: unexpected signature")
    wp = f.params[2]
    calls = [n for n in walk_local_stmt(f.node) if isinstance(n, _ast.Call) and isinstance(n.func, _ast.Attribute) and n.func.attr == "_numpy"]
    if not calls:
        raise AnalysisError(f"{f.construct}: no call of _numpy")

    def positive_test(t, name):
        """`name > 0` / `0 < name` (positive=True)"""
        if isinstance(t, _ast.Compare) and len(t.ops) == 1:
            l, r, op = t.left, t.comparators[0], t.ops[0]
            zero = lambda e: isinstance(e, _ast.Constant) and isinstance(e.value, (int, float)) and e.value == 0
            nm = lambda e: isinstance(e, _ast.Name) and e.id == name
            if nm(l) and zero(r) and isinstance(op, _ast.Gt):
                return True
            if zero(l) and nm(r) and isinstance(op, _ast.Lt):
                return True
        return False

    def is_where_clip(e):
        """numpy.where(w > 0, w, 0): the source name, or None"""
        if isinstance(e, _ast.Call) and isinstance(e.func, _ast.Attribute) and e.func.attr == "where" and len(e.args) == 3:
            c0, a1, a2 = e.args
            if isinstance(a1, _ast.Name) and isinstance(a2, _ast.Constant) and a2.value == 0 and positive_test(c0, a1.id):
                return a1.id
        return None

    g = cfgmod.build(f.node)
    dom = g.dominators()
    tcd = g.transitive_control_deps()
    for call in calls:
        warg = call.args[1] if len(call.args) > 1 else next((k.value for k in call.keywords if k.arg == "weights"), None)
        holder = [n for n in g.nodes if n.kind == "stmt" and n.ast is not None and any(x is call for x in _ast.walk(n.ast))]
        if warg is None or not isinstance(warg, _ast.Name) or not holder:
            r12.ob(False)
            rep.finding("R5.12", f, call, "the weights handed to _numpy are not a plain local: the normalisation of non-positive weights cannot be followed", stmt="weights argument of _numpy")
            continue
        h = holder[0]
        # (1) arrays: an assignment `w = numpy.where(src > 0, src, 0)` under `isinstance(src, numpy.ndarray)` dominating... or unconditional
        clips = [n for n in g.nodes if n.kind == "stmt" and isinstance(n.ast, _ast.Assign) and any(isinstance(t, _ast.Name) and t.id == warg.id for t in n.ast.targets)
                 and is_where_clip(n.ast.value) in (wp, warg.id)]
        arr_ok = False
        for cnode in clips:
            ctl = [g.nodes[x[0]] for x in tcd.get(cnode.id, set())]
            under_isarray = [t for t in ctl if t.ast is not None and "ndarray" in _ast.unparse(t.ast)]
            if cnode.id in dom[h.id] or under_isarray:
                arr_ok = True
        r12.ob(arr_ok, "fillnumpy: weight arrays pass through numpy.where(w > 0, w, 0)")
        if not arr_ok:
            rep.finding("R5.12", f, call, f"`{_ast.unparse(call)[:60]}` receives the caller's weight array as it is: every _numpy adds the raw `weights.sum()` to entries, while "
                        f"fill() skips a row whose weight is not > 0 and the bins receive masked weights - with a negative (or NaN) weight in the array the node's "
                        f"entries no longer equals the weight in its bins and can become negative", stmt="weight array not normalised before _numpy")
        # (2) scalars: the call is not reached with a scalar that is not > 0: some test `w > 0` controls the call on its true edge, or an early return on the false one
        sc_ok = False
        for (tid, lab) in tcd.get(h.id, set()):
            t = g.nodes[tid]
            if t.ast is None:
                continue
            txt = _ast.unparse(t.ast)
            for x in _ast.walk(t.ast):
                if positive_test(x, wp) or positive_test(x, warg.id):
                    # the call lies on the side where the test holds (lab "T"), or on the F side of `not w > 0`
                    neg = any(isinstance(y, _ast.UnaryOp) and isinstance(y.op, _ast.Not) and any(z is x for z in _ast.walk(y)) for y in _ast.walk(t.ast))
                    if (lab == "T" and not neg) or (lab == "F" and neg) or "ndarray" in txt:
                        sc_ok = True
        r12.ob(sc_ok, "fillnumpy: a scalar weight that is not > 0 does not reach _numpy")
        if not sc_ok:
            rep.finding("R5.12", f, call, f"`{_ast.unparse(call)[:60]}` is reached with any scalar weight: fill() ignores a datum whose weight is not > 0, but Count and every "
                        f"container add `weight * rows` to entries in _numpy - a zero, negative or NaN scalar weight makes entries negative/NaN instead of "
                        f"leaving the tree untouched", stmt="non-positive scalar weight reaches _numpy")


def run(repo, rep, tier):
    rep.extra["explanation"] = (
        "Bookkeeping decided on the routing tables of the abstract interpreter (every order-type region of the datum, every "
        "path, fill and both branches of every data-dependent fast path of _numpy): (R5.1) partition nodes route every "
        "region to exactly one slot, Stack fills a prefix of its levels and level 0 for every non-NaN datum; (R5.2) on every "
        "path with a positive weight the node's own entries is incremented exactly once by the caller's weight, the "
        "partition child / every collection child / Fraction.denominator receives that same weight, Bag adds the same weight "
        "to entries and to one cell, and a vectorised fill adds the sum of the unmasked weights; (R5.3) a fixed-length child "
        "sequence is never indexed by an unclamped float-derived index; (R5.4) the scaling table derived from fill by "
        "homogeneity is what __mul__ implements. That floats adjacent to an edge land in the numerically right bin, and sums "
        "'up to rounding', are NOT decided."
    )
    rep.extra["explanation"] += " " + (
        'Later additions: a numeric datum never makes fill raise (R5.1); shared rules R5.5 (C03: input arrays never written), R5.6/R5.7 (C07: += updates the child and shares nothing with the right operand).'
    )
    rep.not_decided += ["floats adjacent to edges landing in the numerically right bin", "sums up to floating-point rounding"]
    rep.assumptions += ["np.histogram(q, n, (lo, hi)) keeps lo <= q <= hi and closes the last bin; explicit edges are [e_i, e_{i+1}) with the last closed",
                        "np.unique partitions the selected rows by value; NaN/inf cast to int64 gives INT64_MIN (the x86 behaviour the code assumes through LONG_NAN)"]
    prims, _ = primitives(repo)
    models = build_models(repo)
    from ..interp import Machine
    Machine.COVERED.clear()
    r1 = rep.rule("R5.1", "partition: every region is routed to exactly one slot; Stack fills a prefix including level 0", floor=100)
    r2 = rep.rule("R5.2", "conservation: entries += the caller's weight exactly once; children receive that weight", floor=150)
    r3 = rep.rule("R5.3", "float-derived index into a fixed-length child sequence is clamped", floor=2)
    r4 = rep.rule("R5.4", "scaling table derived from fill is what __mul__ implements", floor=40)
    # totals are conserved across siblings only if a node leaves the caller's weight array alone (a sibling filled afterwards would
    # see zeroed weights while the parent counted them) and only if += really updates the child it is applied to
    rep.borrow(repo, "C03", {"R3.3": ("R5.5", "a node never writes into the weight/data arrays its siblings and parent also use", 400)})
    rep.borrow(repo, "C06", {"R6.2": ("R5.13", "a + b, h * f and zero() share no child with their operands (a later fill of the result would add weight to an operand's bins but not to its entries)", 40)})
    rep.borrow(repo, "C07", {"R7.3": ("R5.7", "a += b shares no child with b afterwards (a later fill of b would add weight to a's bins but not to a's entries)", 19)})
    rep.borrow(repo, "C03", {"R3.12": ("R5.10", "a finite datum whose sparse index exceeds the int64 range lands in the saturated bin in fill.numpy as well (every row of positive weight is in exactly one bin)", 2)})
    rep.borrow(repo, "C03", {"R3.7": ("R5.11", "a Count handed a scalar weight and a known batch length grows by weight x rows, which is what its parent collection adds to its own entries", 8)})
    rep.borrow(repo, "C03", {"R3.10": ("R5.9", "a Count child of Label/UntypedLabel/Index/Branch receives the batch with a known length, so it ends with the parent's entries", 4)})
    rep.borrow(repo, "C02", {"R2.5": ("R5.8", "Bag keys are normalised so that equal data (NaN included) share one key: the weights still sum to entries after a JSON round trip", 2)})
    rep.borrow(repo, "C07", {"R7.2": ("R5.6", "child += other_child updates the child (every __iadd__ returns self), so children keep the parent's entries", 19)})
    nonpositive_weights_normalised(repo, rep)
    for c in prims:
        fill = repo.own_method(c, "fill")
        npf = repo.own_method(c, "_numpy")
        for cfg in all_configs(repo, c.name, tier):
            if cfg.knobs.get("unordered"):
                continue       # the Stack clause of the property is stated for increasing thresholds
            for label, q in cfg.regions:
                # ---------------- scalar path
                try:
                    paths = run_fill(repo, cfg, label, q, "pos")
                except Unsup as e:
                    raise AnalysisError(f"{fill.construct}: {e}")
                for p in paths:
                    if p.outcome == "raise":
                        # "any numeric quantity value is accepted by fill without error": a numeric datum must not raise
                        numeric = q is NAN or isinstance(q, Pos)
                        if numeric and c.name != "Categorize":
                            r1.ob(False, f"{cfg.desc} fill: {label} raises")
                            rep.finding("R5.1", fill, fill.node, f"{cfg.desc}: fill raises {p.raises[0] if p.raises else 'an exception'} for a numeric "
                                        f"datum in region `{label}`: every numeric quantity value must be accepted and routed to exactly one bin",
                                        stmt=f"fill {label.replace(' ', '')}: raises")
                        continue
                    check_path(rep, r1, r2, c, cfg, fill, label, q, p, "fill")
                    if c.name == "Bin":
                        for e in p.effects:
                            if e[0] == "index":
                                r3.ob(bool(e[2]), f"{cfg.desc}: {label}: index into values is clamped")
                                if not e[2]:
                                    rep.finding("R5.3", fill, fill.node, "self.values is indexed by int(floor(num*(x-low)/(high-low))) without a "
                                                "clamp: for x < high the real quotient is < num but the float quotient can round to num "
                                                "(IndexError for a datum just below high with a large offset)", stmt="unclamped bin index")
                # ---------------- vectorised path
                for wc in WEIGHT_CLASSES_NUMPY:
                    for wform in ("array", "scalar"):
                        for cc, sk in numpy_variants(c.name):
                            try:
                                npaths = run_numpy(repo, cfg, label, q, wc, wform, cc, sk)
                            except Unsup as e:
                                raise AnalysisError(f"{npf.construct}: {e}")
                            for p in npaths:
                                if p.outcome == "raise":
                                    continue
                                if wc == "zero":
                                    continue
                                check_path(rep, r1, r2, c, cfg, npf, label, q, p, f"_numpy[{wform} weight {wc}, children {'Count' if cc else 'other'}]")
        # R5.4
        m = models[c.name]
        mul = repo.own_method(c, "__mul__")
        c08.scaling_rule(repo, rep, r4, c, m, mul, mul.params[0], mul.params[1], rule="R5.4")
    from .c03 import coverage_guard
    coverage_guard(repo, prims, rep=rep)
    # ---------------- R5.3 vectorised slow path of Bin: clamp of the integer index
    b = repo.cls("Bin")
    npf = repo.own_method(b, "_numpy")
    ok = False
    for n in walk_local_stmt(npf.node):
        if isinstance(n, ast.Assign) and isinstance(n.targets[0], ast.Subscript) and isinstance(n.targets[0].value, ast.Name):
            arr = n.targets[0].value.id
            sn = npf.params[0]

            def is_num(e):
                return ast.unparse(e).replace(" ", "") == f"{sn}.num"

            def is_num_m1(e):
                return ast.unparse(e).replace(" ", "") in (f"{sn}.num-1", f"{sn}.num-1.0")

            def is_arr(e):
                return isinstance(e, ast.Name) and e.id == arr

            selects_overflowing = False
            for cmpn in ast.walk(n.targets[0].slice):
                if isinstance(cmpn, ast.Compare) and len(cmpn.ops) == 1:
                    a, op, b2 = cmpn.left, cmpn.ops[0], cmpn.comparators[0]
                    # idx >= num | num <= idx | idx > num-1 | num-1 < idx | idx == num | num == idx
                    if (is_arr(a) and is_num(b2) and isinstance(op, (ast.GtE, ast.Eq))) or (is_num(a) and is_arr(b2) and isinstance(op, (ast.LtE, ast.Eq))) \
                            or (is_arr(a) and is_num_m1(b2) and isinstance(op, ast.Gt)) or (is_num_m1(a) and is_arr(b2) and isinstance(op, ast.Lt)):
                        selects_overflowing = True
            if selects_overflowing and is_num_m1(n.value):
                ok = True
        if isinstance(n, ast.Call) and (call_name(n) or "").split(".")[-1] in ("clip", "minimum"):
            ok = True
    r3.ob(ok, "Bin._numpy: integer index clamped to num-1 for in-range rows")
    if not ok:
        rep.finding("R5.3", npf, npf.node, "the vectorised index floor(num*(q-low)/(high-low)) is not clamped to num-1 for rows below high: "
                    "such a row is counted in entries but lands in no bin", stmt="unclamped vectorised index")


def check_path(rep, r1, r2, c, cfg, f, label, q, p, how):
    slots = sorted(s for s, k in p.fills)
    cname = c.name
    # ---------------- R5.1
    if cname in PARTITION:
        ok = len(p.fills) == 1
        r1.ob(ok, f"{cfg.desc} {how}: {label} -> {slots}")
        if not ok:
            rep.finding("R5.1", f, f.node, f"{cfg.desc}, {how}: a datum in region `{label}` is routed to {slots or 'no slot'} - it must land in "
                        f"exactly one of the bins/flows, otherwise the bins do not sum to entries",
                        stmt=f"{how.split('[')[0]} {label.replace(' ', '')}: {len(p.fills)} slots")
    elif cname == "Stack":
        levels = sorted(int(s.split("[")[1][:-1]) for s in slots if s.startswith("bins["))
        if q is NAN:
            ok = not levels and slots == ["nanflow"]
        else:
            ok = levels == list(range(len(levels))) and len(levels) >= 1 and "nanflow" not in slots
        r1.ob(ok, f"{cfg.desc} {how}: {label} -> levels {levels}")
        if not ok:
            rep.finding("R5.1", f, f.node, f"{cfg.desc}, {how}: a datum in region `{label}` fills {slots}: Stack must fill a prefix of its "
                        f"levels including level 0 (NaN: only nanflow), otherwise levels are not non-increasing / level 0 + nanflow != entries",
                        stmt=f"{how.split('[')[0]} {label.replace(' ', '')}: levels {levels}")
    # ---------------- R5.2
    ek = entries_kinds(p)
    if cname == "Count":
        ok = len(ek) == 1
    else:
        ok = len(ek) == 1 and (ek[0] == "weight" or ek[0].startswith("opaque:weight["))
    r2.ob(ok, f"{cfg.desc} {how}: {label}: entries += {ek}")
    if not ok:
        rep.finding("R5.2", f, f.node, f"{cfg.desc}, {how}, region `{label}`: the node's entries is incremented by {ek or 'nothing'}; it must be "
                    f"incremented exactly once by the caller's (unmasked) weight", stmt=f"{how.split('[')[0]} {label.replace(' ', '')}: entries += {ek}")
    want_weight = None
    if cname in PARTITION or cname in ("Stack", "Label", "UntypedLabel", "Index", "Branch"):
        want_weight = {s for s, k in p.fills}
    elif cname == "Fraction":
        want_weight = {"denominator"} & {s for s, k in p.fills}
    if want_weight is not None:
        bad = [(s, k) for s, k in p.fills if s in want_weight and k != "weight"]
        r2.ob(not bad, f"{cfg.desc} {how}: {label}: children {sorted(want_weight)} receive the caller's weight")
        for s, k in bad:
            rep.finding("R5.2", f, f.node, f"{cfg.desc}, {how}, region `{label}`: child `{s}` receives `{k}` instead of the caller's weight: its "
                        f"entries no longer add up to the parent's", stmt=f"{how.split('[')[0]}: {s} receives {k}")
    if cname == "Bag":
        cells = [a for a in p.accs if a[0] == "acc+" and a[1].startswith("values[")] + [a for a in p.inserts if a[1] == "values"]
        kinds = [weight_kind(a[2] if a[0] == "acc+" else a[3]) for a in cells]
        ok = len(cells) == 1 and kinds[0] == "weight"
        r2.ob(ok, f"Bag {how}: {label}: one cell += weight")
        if not ok:
            rep.finding("R5.2", f, f.node, f"Bag, {how}, region `{label}`: {len(cells)} cells updated with {kinds}; exactly one cell must receive the "
                        f"caller's weight so that the weights sum to entries", stmt=f"Bag cells {kinds}")
