"""C06 - non-interference: operations never mutate operands or share mutable state."""

import ast

from ..astutil import chain, walk_local_stmt
from ..loader import AnalysisError, ClassInfo, FuncInfo, norm, primitives
from ..model import build_models
from ..ownership import FRESH, A, Ctx, Evaluator, S, Shapes, U, V, bad_parts, borrowed

RESULT_BUILDERS = ("__add__", "__mul__", "zero")
# The operations the property names plus the read accessors of the primitives / Container / plotting mixins, confirmed on the
# pinned tree.  A method that is not in this table (a helper extracted from a mutator, a new mutator such as reset()) carries no
# purity obligation of its own; if a method of the table CALLS it, its effect is charged to that caller (summary propagation).
PURE_NAMES = {
    "__add__", "__call__", "__eq__", "__getstate__", "__hash__", "__mul__", "__ne__", "__repr__", "__rmul__", "_bin_range",
    "_center_from_key", "_checkNPWeights", "_lower_index", "_makeNPWeights", "_sparksql", "_upper_index", "ascii", "at", "bin",
    "bin_centers", "bin_edges", "bin_entries", "bin_labels", "bin_width", "binsMap", "center", "centers", "centersSet", "children",
    "confidenceIntervalValues", "copy", "edges", "factory", "fractionPassing", "get", "getOrElse", "high", "histogram", "index",
    "indexes", "keySet", "keys", "low", "maxBin", "meanValues", "minBin", "mpv", "n_bins", "name", "nan", "neighbors", "num",
    "numFilled", "num_bins", "numericalNanflow", "numericalOverflow", "numericalUnderflow", "numericalValues", "over", "pairs",
    "plot", "plotbokeh", "plotmatplotlib", "project_on_x", "project_on_y", "range", "size", "thresholds", "toImmutable", "toJson",
    "toJsonFile", "toJsonFragment", "toJsonString", "under", "value", "values", "variance", "varianceValues", "x_lim",
    "xy_ranges_grid", "y_lim", "zero",
}
# methods that are allowed to change the receiver (everything else on a primitive must be pure)
MUTATORS = {"__init__", "fill", "_numpy", "_update", "fillnumpy", "fillsparksql", "__iadd__", "__setstate__",
            "specialize", "_checkForCrossReferences", "_checkNPQuantity", "__getattr__"}
MUTATING_CALLS = {"fill", "_numpy", "fillnumpy", "_update", "append", "extend", "insert", "pop", "remove", "clear",
                  "update", "setdefault", "popitem", "sort", "reverse", "add", "discard", "__iadd__", "__setstate__",
                  "fillsparksql"}
# constructor parameters that retain the caller's aggregator by design (DESIGN Appendix E), one reason each
RETAINED_BY_DESIGN = {
    ("Select", "cut"): "Select wraps the aggregator the user passes (the sub-tree itself)",
    ("Label", "pairs"): "collections hold the user's sub-aggregators (the tree itself)",
    ("UntypedLabel", "pairs"): "collections hold the user's sub-aggregators (the tree itself)",
    ("Index", "values"): "collections hold the user's sub-aggregators (the tree itself)",
    ("Branch", "values"): "collections hold the user's sub-aggregators (the tree itself)",
    ("IrregularlyBin", "bins"): "value=None mode (ed/zero/+): the given (threshold, aggregator) pairs are adopted",
    ("Stack", "bins"): "value=None mode (ed/zero/+): the given (threshold, aggregator) pairs are adopted",
}


def desc_own(own):
    if own == FRESH or own is None:
        return "fresh"
    return f"{own[1]}.{own[2]}" if own[2] else own[1]


def prim_of(repo, models, k):
    for x in repo.mro(k):
        if x.name in models:
            return x
    return None


class Checker:
    def __init__(self, repo, rep, models):
        self.repo = repo
        self.rep = rep
        self.models = models
        self.shapes = Shapes(repo, models)

    def eval(self, cls, f, roots, arg_vals=None):
        ev = Evaluator(self.repo, self.shapes)
        constructed = []
        orig = Ctx.construct

        def patched(ctx, k, call):
            v = orig(ctx, k, call)
            if ctx.final and ctx.f is f and v.kind == "O":
                constructed.append((call, v))
            return v

        Ctx.construct = patched
        try:
            ctx, ret = ev.eval_function(cls, f, roots=roots, arg_vals=arg_vals)
        finally:
            Ctx.construct = orig
        return ctx, ret, constructed

    def check_object_fields(self, rule, f, call, obj, stats, allow_retained_args=False, what="result"):
        k = prim_of(self.repo, self.models, obj.cls)
        if k is None:
            return
        m = self.models[k.name]
        fields = list(m.slots) + (["values"] if m.name == "Bag" else [])
        for fld in fields:
            v = obj.fields.get(fld)
            bads = bad_parts(v)
            repl = v is not None and v.kind == "L" and v.note == "replicated" and v.elem is not None and v.elem.kind == "A"
            bads2 = []
            for d, own in bads:
                if allow_retained_args and own[1] == "arg" and (k.name, fld) in RETAINED_BY_DESIGN:
                    continue
                bads2.append((d, own))
            stats.ob(not bads2 and not repl, f"{f.qualname}: {what} {k.name}.{fld} = {v!r}")
            for d, own in bads2:
                self.rep.finding(
                    rule, f, call,
                    f"{what} field `{k.name}.{fld}` holds {d} borrowed from `{desc_own(own)}` (no copy()/zero()/+): the "
                    f"{what} shares this mutable aggregator with its source, so filling or merging one changes the other",
                    stmt=f"{k.name}.{fld} <- {desc_own(own)} via {norm(call)[:80]}",
                )
            if repl:
                self.rep.finding(rule, f, call, f"`{k.name}.{fld}` is built by replicating one aggregator object (`[x] * n`): "
                                 f"all bins are the same object", stmt=f"{k.name}.{fld} replicated")


def run(repo, rep, tier):
    rep.extra["explanation"] = (
        "Ownership and effect analysis over the class table: (R6.1) every method of the 19 primitives, of Container and "
        "of the specialised/plotting mixins outside a short list of declared mutators has no store effect on its "
        "receiver, its arguments or anything borrowed from them (direct stores, stores through aliases, calls with a "
        "mutating summary; fixpoint over self-calls); mutable default arguments are never written. (R6.2) every "
        "aggregator stored into a child slot of the object returned by __add__/__mul__/zero is Fresh (constructor "
        "summaries decide whether an argument is copied or retained). (R6.3) aggregator-valued default arguments reach "
        "fillable slots only through copy()/zero(), and constructor summaries do not weaken w.r.t. the confirmed table. "
        "(R6.4) children created from a template are fresh per slot. (R6.5) quantity names are only written on objects "
        "fresh out of ed(). Decides aliasing/effects in the code's shape, not run-time object graphs."
    )
    rep.extra["explanation"] += " " + (
        'Later additions: mutable defaults never become object state (R6.1); unpacking assignments are stores of their own; child slots of borrowed aggregators of unknown class are followed; plotting mixins are analysed with the shapes of their host primitive and their projections are covered by R6.2.'
    )
    rep.not_decided += ["aliasing introduced by user code (one object passed twice is C16's business)"]
    rep.assumptions += [
        "a + b, a * f, zero(), copy() on a child aggregator return fresh objects (induction: the same rule is checked on every class)",
        "templates (SparselyBin.value, Categorize.value, CentrallyBin.value) are only copied, never filled (checked by R6.4's fill sink)",
    ]
    prims, _ = primitives(repo)
    models = build_models(repo)
    ck = Checker(repo, rep, models)
    r1 = rep.rule("R6.1", "pure methods have no store effect on receiver/arguments", floor=250)
    r2 = rep.rule("R6.2", "children of the results of __add__/__mul__/zero are fresh objects", floor=40)
    r3 = rep.rule("R6.3", "default-argument aggregators reach fillable slots only through copy()/zero(); ctor summaries do not weaken", floor=40)
    r4 = rep.rule("R6.4", "children instantiated from a template are fresh per slot", floor=6)
    r5 = rep.rule("R6.5", "quantity names are written only on objects fresh out of ed()", floor=14)

    rep.borrow(repo, "C07", {"R7.3": ("R6.7", "a += b leaves b untouched and keeps nothing borrowed from b (a later fill of a would change b)", 19)})
    # ---------------------------------------------------------------- R6.6
    distinct_slots(repo, rep, prims, models)

    # ---------------------------------------------------------------- R6.2
    def check_builder(c, f, roots, must_return=True):
        rep.analysed_functions.add(f.construct)
        ctx, ret, constructed = ck.eval(c, f, roots)
        if ret is None:
            if must_return:
                raise AnalysisError(f"{f.construct}: no returned value found")
            return False
        if not must_return and not (ret.kind == "O" and prim_of(repo, models, ret.cls) is not None):
            return False        # not a builder of aggregators
        if ret.kind == "A" and ret.own != FRESH:
            r2.ob(False)
            rep.finding("R6.2", f, f.node, f"returns an object borrowed from `{desc_own(ret.own)}` instead of a new one",
                        stmt="returns operand")
        for call, obj in constructed:
            ck.check_object_fields("R6.2", f, call, obj, r2)
        # patches on the result object (out.F = ..., out.F[k] = ...)
        allfields = set()
        for mm in models.values():
            allfields |= set(mm.slots)
        allfields.add("values")
        for (root, fld, v, node, kind) in ctx.stores:
            if root in roots:
                continue  # stores into operands are R6.1's business
            if fld not in allfields:
                continue
            bads = bad_parts(v)
            r2.ob(not bads, f"{f.qualname}: {root}.{fld} <- {v!r}")
            for d, own in bads:
                rep.finding(
                    "R6.2", f, node,
                    f"`{root}.{fld}` of the result receives {d} borrowed from `{desc_own(own)}` (no copy()/zero()/+): the "
                    f"result shares this mutable state with an operand, so filling or merging one changes the other",
                    stmt=f"{c.name}.{fld} <- {desc_own(own)} via {norm(node)[:80]}",
                )
        return True

    for c in prims:
        for name in RESULT_BUILDERS:
            f = repo.own_method(c, name)
            roots = {f.params[0]: "self"}
            if len(f.params) > 1 and name == "__add__":
                roots[f.params[1]] = "other"
            check_builder(c, f, roots)
    # derived views that build aggregators (projections of 2-D histograms in the plotting mixins): same freshness rule
    nviews = 0
    for cs in repo.classes.values():
        for k in cs:
            if not k.module.name.startswith("histogrammar.plot"):
                continue
            host = None
            for cs2 in repo.classes.values():
                for k2 in cs2:
                    mro = repo.mro(k2)
                    if k in mro:
                        host = host or next((x for x in mro if x.name in models), None)
            if host is None:
                continue
            for f in k.methods.values():
                if f.is_static or not f.params or f.name.startswith("plot"):
                    continue
                try:
                    if check_builder(host, f, {f.params[0]: "self"}, must_return=False):
                        nviews += 1
                except AnalysisError:
                    raise
    if nviews < 4:
        raise AnalysisError(f"R6.2: only {nviews} aggregator-building views found in the plotting mixins (6 projections expected)")
    # ---------------------------------------------------------------- R6.3 defaults + constructor summaries
    seen_defaults = 0
    for mod in repo.modules.values():
        for fn in ast.walk(mod.tree):
            if not isinstance(fn, (ast.FunctionDef, ast.AsyncFunctionDef)):
                continue
            cls = None
            par = getattr(fn, "_parent", None)
            if isinstance(par, ast.ClassDef) and par.name in mod.classes:
                cls = mod.classes[par.name]
            fi = FuncInfo(fn, mod, cls)
            agg_defaults = {}
            for p, d in fi.defaults().items():
                if isinstance(d, ast.Call):
                    r = None
                    try:
                        r = repo.resolve_name(mod, ast.unparse(d.func))
                    except Exception:
                        pass
                    if isinstance(r, ClassInfo) and prim_of(repo, models, r) is not None:
                        agg_defaults[p] = d
            if not agg_defaults:
                continue
            seen_defaults += len(agg_defaults)
            rep.analysed_functions.add(fi.construct)
            argv = {p: V("A", borrowed("default", f"{fi.qualname}({p}=...)")) for p in agg_defaults}
            if fi.name == "__init__" and cls is not None and prim_of(repo, models, cls) is not None:
                # evaluate the constructor body itself with the defaults in place
                ctx, _, _ = ck.eval(cls, fi, roots={}, arg_vals=argv)
                k = prim_of(repo, models, cls)
                m = models[k.name]
                fields = {}
                from ..ownership import join

                for (root, fld, v, node, kind) in ctx.stores:
                    if root == fi.params[0]:
                        fields[fld] = (join(fields[fld][0], v), node) if fld in fields else (v, node)
                for fld in m.slots:
                    v, node = fields.get(fld, (None, fn))
                    bads = [b for b in bad_parts(v) if b[1][1] == "default"]
                    r3.ob(not bads, f"{fi.qualname}: slot {fld} = {v!r} with default arguments")
                    for d, own in bads:
                        rep.finding(
                            "R6.3", fi, node,
                            f"slot `{fld}` (filled by fill/_numpy) receives the default-argument aggregator `{own[2]}` by "
                            f"reference: the default is evaluated once at import, so every {k.name} built without this "
                            f"argument shares (and fills) the same object",
                            stmt=f"{k.name}.{fld} <- default of {own[2]}",
                        )
            else:
                ctx, ret, constructed = ck.eval(cls, fi, roots={}, arg_vals=argv)
                if not constructed:
                    r3.ob(True, f"{fi.qualname}: defaults {sorted(agg_defaults)} do not reach a constructor here")
                for call, obj in constructed:
                    k = prim_of(repo, models, obj.cls)
                    if k is None:
                        continue
                    for fld in models[k.name].slots:
                        v = obj.fields.get(fld)
                        bads = [b for b in bad_parts(v) if b[1][1] == "default"]
                        r3.ob(not bads, f"{fi.qualname}: {k.name}.{fld} = {v!r} with default arguments")
                        for d, own in bads:
                            rep.finding(
                                "R6.3", fi, call,
                                f"the default-argument aggregator `{own[2]}` reaches the fillable slot `{k.name}.{fld}` by "
                                f"reference: every call relying on the default shares (and fills) one object",
                                stmt=f"{k.name}.{fld} <- default of {own[2]}",
                            )
    if seen_defaults < 40:
        raise AnalysisError(f"only {seen_defaults} aggregator-valued default arguments found (confirmed: 45)")
    # constructor summaries with explicit arguments
    for c in prims:
        init = repo.own_method(c, "__init__")
        m = models[c.name]
        a = init.node.args
        argv = {}
        for p in init.params[1:]:
            argv[p] = V("A", borrowed("arg", p))
        if a.vararg:
            argv[a.vararg.arg] = V("L", borrowed("arg", a.vararg.arg), V("A", borrowed("arg", a.vararg.arg)), note="immutable")
        if a.kwarg:
            argv[a.kwarg.arg] = V("D", borrowed("arg", a.kwarg.arg), V("A", borrowed("arg", a.kwarg.arg)))
        # scalar-looking parameters are scalars
        for p in list(argv):
            if p in ("num", "low", "high", "quantity", "transform", "binWidth", "origin", "range", "centers", "edges", "thresholds"):
                argv[p] = S if p not in ("centers", "edges", "thresholds") else V("L", borrowed("arg", p), U)
        ctx, _, _ = ck.eval(c, init, roots={}, arg_vals=argv)
        from ..ownership import join

        fields = {}
        for (root, fld, v, node, kind) in ctx.stores:
            if root == init.params[0]:
                fields[fld] = (join(fields[fld][0], v), node) if fld in fields else (v, node)
        for fld in m.slots:
            v, node = fields.get(fld, (None, init.node))
            bads = [b for b in bad_parts(v) if b[1][1] == "arg"]
            retained = bool(bads)
            allowed = (c.name, fld) in RETAINED_BY_DESIGN
            ok = not retained or allowed
            r3.ob(ok, f"{c.name}.__init__: slot {fld} " + ("retains its argument (by design)" if retained else "copies its argument"))
            if not ok:
                d, own = bads[0]
                rep.finding(
                    "R6.3", init, node,
                    f"constructor stores the caller's aggregator `{own[2]}` into the fillable slot `{fld}` by reference (the "
                    f"confirmed constructor summary copies it with copy()/zero()): two separately constructed aggregators "
                    f"given the same argument share mutable state",
                    stmt=f"{c.name}.{fld} retains argument {own[2]}",
                )
    # ---------------------------------------------------------------- R6.4 template instantiation in fill/_numpy
    for c in prims:
        m = models[c.name]
        if getattr(m, "template_filled", False):
            f = repo.own_method(c, "fill")
            r4.ob(False)
            rep.finding("R6.4", f, f.node, f"the template `{m.template}` itself is the receiver of a fill: every bin created from it afterwards "
                        f"starts non-empty and all bins created this way are one shared object", stmt=f"template {m.template} filled")
        for name in ("fill", "_numpy"):
            self_slot_sinks(repo, rep, ck, models, c, name, "R6.4", r4)
    # ---------------------------------------------------------------- R6.1 purity
    purity(repo, rep, r1, ck, prims, models)
    # mutable default arguments anywhere in the package (hasKeys(optional=set()), bin_entries(xvalues=[]), ...)
    hits, checked = mutable_default_writes(repo)
    for _ in range(checked - len({(h[0].construct, h[1]) for h in hits})):
        r1.ob(True)
    for fi, p, n, what in hits:
        r1.ob(False, f"{fi.qualname}: default `{p}` modified")
        rep.finding("R6.1", fi, n, f"{what} modifies the mutable default argument `{p}` (shared by every call that relies on the default): "
                    f"state leaks from one call into the next", stmt=f"mutable default {p} written")
    # ---------------------------------------------------------------- R6.5
    quantity_names(repo, rep, r5, prims, models)


def distinct_slots(repo, rep, prims, models):
    """R6.6: within one function, two different child slots of one object never receive the same object: neither through a
    chained assignment (`x.a = x.b = v`), nor by storing one slot into another, nor by storing one local twice."""
    r6 = rep.rule("R6.6", "two child slots of one object never receive the same aggregator object (chained assignment, slot-to-slot store, one local stored twice)", floor=30)
    slots_of = {c.name: set(models[c.name].slots) | ({models[c.name].template} if models[c.name].template else set()) for c in prims}
    for c in prims:
        slots = slots_of[c.name]
        allslots = set().union(*slots_of.values())
        for f in c.methods.values():
            nassign = {}
            for n in walk_local_stmt(f.node):
                if isinstance(n, (ast.Assign, ast.AugAssign, ast.For)):
                    tg = n.targets if isinstance(n, ast.Assign) else [n.target]
                    for t in tg:
                        for x in ast.walk(t):
                            if isinstance(x, ast.Name) and isinstance(x.ctx, ast.Store):
                                nassign[x.id] = nassign.get(x.id, 0) + 1
            seen = {}        # (object name, source key) -> (slot, node)
            for n in walk_local_stmt(f.node):
                if not isinstance(n, ast.Assign):
                    continue
                tslots = [(t.value.id, t.attr) for t in n.targets if isinstance(t, ast.Attribute) and isinstance(t.value, ast.Name) and t.attr in allslots]
                if not tslots:
                    continue
                v = n.value
                immut = isinstance(v, ast.Constant)
                rep.analysed_functions.add(f.construct)
                if len(tslots) >= 2:
                    ok = immut or len({x for x in tslots}) < 2
                    r6.ob(ok, f"{f.qualname}: `{norm(n)[:80]}`")
                    if not ok:
                        rep.finding("R6.6", f, n, f"the chained assignment `{norm(n)[:100]}` stores ONE object into the child slots "
                                    f"{[b for a, b in tslots]}: the two sub-aggregators share all mutable state, so filling or merging one changes the other "
                                    f"(and the cross-reference guard does not see it)", stmt=f"chained store into {sorted(b for a, b in tslots)}")
                    continue
                (obj, slot), = tslots
                key = None
                if isinstance(v, ast.Name) and nassign.get(v.id, 0) <= 1:
                    key = ("name", v.id)
                elif isinstance(v, ast.Attribute) and isinstance(v.value, ast.Name) and v.attr in allslots:
                    key = ("attr", v.value.id, v.attr)
                    same_obj = v.value.id == obj and v.attr != slot
                    r6.ob(not same_obj, f"{f.qualname}: `{norm(n)[:80]}`")
                    if same_obj:
                        rep.finding("R6.6", f, n, f"`{norm(n)[:100]}` stores the object of slot `{v.attr}` into slot `{slot}` of the same aggregator: the two "
                                    f"sub-aggregators are one object", stmt=f"slot {v.attr} stored into slot {slot}")
                        continue
                if key is None:
                    r6.ob(True, f"{f.qualname}: `{norm(n)[:80]}`")
                    continue
                prev = seen.get((obj, key))
                ok = prev is None or prev[0] == slot
                r6.ob(ok, f"{f.qualname}: `{norm(n)[:80]}`")
                if not ok:
                    rep.finding("R6.6", f, n, f"`{norm(v)}` is stored into slot `{slot}` of `{obj}` and was already stored into its slot `{prev[0]}` "
                                f"(line {prev[1].lineno}): the two sub-aggregators are one object", stmt=f"one object in slots {sorted((slot, prev[0]))}")
                seen.setdefault((obj, key), (slot, n))


def self_slot_sinks(repo, rep, ck, models, c, name, rule, stats):
    """Values stored (not merged with +=) into a child slot of self must be fresh."""
    m = models[c.name]
    f = repo.own_method(c, name)
    rep.analysed_functions.add(f.construct)
    roots = {f.params[0]: "self"}
    if name == "__iadd__" and len(f.params) > 1:
        roots[f.params[1]] = "other"
    ctx, _, _ = ck.eval(c, f, roots)
    fields = list(m.slots) + (["values"] if m.name == "Bag" else [])
    for (root, fld, v, node, kind) in ctx.stores:
        if root != f.params[0] or fld not in fields:
            continue
        if kind == "aug" or isinstance(node, ast.AugAssign):
            continue  # `x += y` on an aggregator merges in place through the child's own __iadd__; nothing is retained
        # an element of self.<fld> put back into self.<fld> shares nothing new
        bads = [b for b in bad_parts(v) if not (b[1][1] == "self" and b[1][2] == fld)]
        stats.ob(not bads, f"{f.qualname}: self.{fld} <- {v!r}")
        for d, own in bads:
            rep.finding(
                rule, f, node,
                f"`self.{fld}` receives {d} borrowed from `{desc_own(own)}` without copy()/zero(): the child is shared with "
                f"its source, so later changes to one leak into the other",
                stmt=f"{c.name}.{fld} <- {desc_own(own)} via {norm(node)[:80]}")


def direct_effects(repo, ck, cls, f, roots, arg_vals=None):
    """[(node, description)] stores/mutating calls on objects borrowed from the roots."""
    ctx, ret, _ = ck.eval(cls, f, roots, arg_vals)
    out = []

    def borrowed_obj(e):
        v = ctx.ev(e)
        if v is None:
            return None
        if v.kind in ("A", "L", "D") and v.own not in (FRESH, None):
            return v.own
        if v.kind == "P":
            for it in v.items:
                if it.kind in ("A", "L", "D") and it.own not in (FRESH, None):
                    return it.own
        return None

    for n in walk_local_stmt(f.node):
        targets = []
        if isinstance(n, ast.Assign):
            targets = n.targets
        elif isinstance(n, (ast.AugAssign, ast.AnnAssign)):
            targets = [n.target]
        elif isinstance(n, ast.Delete):
            targets = n.targets
        flat = []
        for t in targets:
            flat += list(t.elts) if isinstance(t, (ast.Tuple, ast.List)) else [t]
        for t in flat:
            if isinstance(t, (ast.Attribute, ast.Subscript)):
                own = borrowed_obj(t.value)
                if own is None and isinstance(t.value, ast.Name) and t.value.id in roots and t.value.id not in ctx.env:
                    own = borrowed(roots[t.value.id], "")
                if own is not None:
                    if isinstance(t, ast.Attribute) and t.attr.startswith("_checked"):
                        continue
                    out.append((n, f"store into `{ast.unparse(t)}` (object borrowed from {desc_own(own)})"))
            elif isinstance(t, ast.Name) and isinstance(n, ast.AugAssign):
                v = ctx.env.get(t.id)
                if v is not None and v.kind in ("A", "L", "D") and v.own not in (FRESH, None):
                    out.append((n, f"in-place `{ast.unparse(n)}` on an object borrowed from {desc_own(v.own)}"))
        if isinstance(n, ast.Call) and isinstance(n.func, ast.Attribute) and n.func.attr in MUTATING_CALLS:
            own = borrowed_obj(n.func.value)
            if own is None and isinstance(n.func.value, ast.Name) and n.func.value.id in roots and n.func.value.id not in ctx.env:
                own = borrowed(roots[n.func.value.id], "")
            if own is not None:
                # set.add / dict.update on a local fresh container are not borrowed -> own is None there
                out.append((n, f"mutating call `{ast.unparse(n.func)}` on an object borrowed from {desc_own(own)}"))
    return out


def purity(repo, rep, r1, ck, prims, models):
    cont = repo.cls("Container", "histogrammar.defs")
    classes = []
    for cs in repo.classes.values():
        for c in cs:
            if any(x in prims or x is cont for x in repo.mro(c)) or c.module.name.startswith("histogrammar.plot"):
                classes.append(c)
    # mixins (histogrammar.plot.*) get the shapes of the primitive they are combined with in histogrammar.specialized
    mixin_host = {}
    for cs in repo.classes.values():
        for k in cs:
            mro = repo.mro(k)
            host = next((x for x in mro if x.name in models), None)
            if host is None:
                continue
            for x in mro:
                if x.module.name.startswith("histogrammar.plot") and x not in mixin_host:
                    mixin_host[x] = host
    # effect summaries of self-methods: fixpoint "mutates its receiver"
    summ = {}
    direct = {}
    for c in classes:
        for f in list(c.methods.values()):
            if f.is_static or not f.params:
                continue
            pk = None
            for x in repo.mro(c):
                if x.name in models:
                    pk = x
                    break
            if pk is None:
                pk = mixin_host.get(c)     # a plotting mixin: analysed with the field shapes of the primitive it is mixed into
            roots = {p: ("self" if i == 0 else p) for i, p in enumerate(f.params)}
            try:
                eff = direct_effects(repo, ck, pk or c, f, roots)
            except RecursionError:
                raise AnalysisError(f"{f.construct}: evaluator recursion")
            direct[(c.name, f.name)] = (c, f, eff)
    # propagate through self.m() calls
    changed = True
    mut = {k for k, (c, f, eff) in direct.items() if any("borrowed from self" in d for _, d in eff)}
    while changed:
        changed = False
        for k, (c, f, eff) in direct.items():
            if k in mut:
                continue
            sn = f.params[0]
            for n in walk_local_stmt(f.node):
                if isinstance(n, ast.Call):
                    ch = chain(n.func)
                    if ch and ch[0] == sn and len(ch) == 2:
                        tgt = repo.lookup(c, ch[1])
                        if isinstance(tgt, FuncInfo) and tgt.cls is not None and (tgt.cls.name, tgt.name) in mut:
                            mut.add(k)
                            changed = True
                            break
    for k, (c, f, eff) in sorted(direct.items()):
        if f.name in MUTATORS or f.is_setter:
            continue
        if f.name not in PURE_NAMES:
            continue        # no obligation of its own (see PURE_NAMES); effects reach its callers through `mut`
        rep.analysed_functions.add(f.construct)
        msgs = list(eff)
        sn = f.params[0]
        for n in walk_local_stmt(f.node):
            if isinstance(n, ast.Call):
                ch = chain(n.func)
                if ch and ch[0] == sn and len(ch) == 2:
                    tgt = repo.lookup(c, ch[1])
                    if isinstance(tgt, FuncInfo) and tgt.cls is not None and (tgt.cls.name, tgt.name) in mut and tgt.name not in (
                            "_checkForCrossReferences",):
                        msgs.append((n, f"call to `{ast.unparse(n.func)}`, which modifies its receiver"))
        r1.ob(not msgs, f"{f.qualname}: no store effect")
        for n, d in msgs:
            rep.finding("R6.1", f, n, f"{f.qualname} must leave its operands unchanged but performs a {d}", stmt=None)
        # mutable default arguments are never written
        for p, d in f.defaults().items():
            if isinstance(d, (ast.List, ast.Dict, ast.Set)):
                bad = None
                for n in walk_local_stmt(f.node):
                    if isinstance(n, ast.Call) and isinstance(n.func, ast.Attribute) and n.func.attr in MUTATING_CALLS and isinstance(
                            n.func.value, ast.Name) and n.func.value.id == p:
                        bad = n
                    if isinstance(n, (ast.Assign, ast.AugAssign)):
                        for t in (n.targets if isinstance(n, ast.Assign) else [n.target]):
                            if isinstance(t, ast.Subscript) and isinstance(t.value, ast.Name) and t.value.id == p:
                                bad = n
                            if isinstance(n, ast.AugAssign) and isinstance(t, ast.Name) and t.id == p:
                                bad = n
                r1.ob(bad is None, f"{f.qualname}: mutable default `{p}` never written")
                if bad is not None:
                    rep.finding("R6.1", f, bad, f"the mutable default argument `{p}` is modified: the change persists across calls",
                                stmt=f"mutable default {p} written")


_ATTR_MUT = {}


def attr_mutated_somewhere(repo, attr):
    """Is `<obj>.attr` updated in place anywhere in the package (element store, augmented element store, mutating call)?"""
    if not _ATTR_MUT.get(id(repo)):
        found = set()
        for mod in repo.modules.values():
            for n in ast.walk(mod.tree):
                tg = []
                if isinstance(n, ast.Assign):
                    tg = n.targets
                elif isinstance(n, ast.AugAssign):
                    tg = [n.target]
                elif isinstance(n, ast.Delete):
                    tg = n.targets
                for t in tg:
                    if isinstance(t, ast.Subscript):
                        b = t
                        while isinstance(b, ast.Subscript):
                            b = b.value
                        if isinstance(b, ast.Attribute):
                            found.add(b.attr)
                if isinstance(n, ast.Call) and isinstance(n.func, ast.Attribute) and n.func.attr in MUTATING_CALLS and isinstance(n.func.value, ast.Attribute):
                    found.add(n.func.value.attr)
        _ATTR_MUT[id(repo)] = found
    return attr in _ATTR_MUT[id(repo)]


def mutable_default_writes(repo):
    """[(FuncInfo, param, node, description)] for every function of the package that modifies a mutable default argument
    (directly or through a plain local alias).  Nested functions included."""
    out = []
    checked = 0
    for mod in repo.modules.values():
        for fn in ast.walk(mod.tree):
            if not isinstance(fn, (ast.FunctionDef, ast.AsyncFunctionDef)):
                continue
            par = getattr(fn, "_parent", None)
            cls = mod.classes.get(par.name) if isinstance(par, ast.ClassDef) and par.name in mod.classes else None
            fi = FuncInfo(fn, mod, cls)
            muts = {}
            for p, d in fi.defaults().items():
                if isinstance(d, (ast.List, ast.Dict, ast.Set)) or (
                        isinstance(d, ast.Call) and isinstance(d.func, ast.Name) and d.func.id in ("set", "dict", "list", "defaultdict") and not d.args):
                    muts[p] = d
            if not muts:
                continue
            for p in muts:
                checked += 1
                aliases = {p}
                rebound = False
                changed = True
                while changed:
                    changed = False
                    for n in walk_local_stmt(fn):
                        if isinstance(n, ast.Assign) and isinstance(n.value, ast.Name) and n.value.id in aliases:
                            for t in n.targets:
                                if isinstance(t, ast.Name) and t.id not in aliases:
                                    aliases.add(t.id)
                                    changed = True
                for n in walk_local_stmt(fn):
                    hit = None
                    if isinstance(n, ast.AugAssign):
                        t = n.target
                        base = t
                        while isinstance(base, ast.Subscript):
                            base = base.value
                        if isinstance(base, ast.Name) and base.id in aliases:
                            hit = f"`{ast.unparse(n)}`"
                    elif isinstance(n, ast.Assign):
                        for t in n.targets:
                            if isinstance(t, ast.Subscript):
                                base = t
                                while isinstance(base, ast.Subscript):
                                    base = base.value
                                if isinstance(base, ast.Name) and base.id in aliases:
                                    hit = f"`{ast.unparse(n)}`"
                    elif isinstance(n, ast.Call) and isinstance(n.func, ast.Attribute) and n.func.attr in MUTATING_CALLS | {"union_update", "intersection_update", "difference_update"} \
                            and isinstance(n.func.value, ast.Name) and n.func.value.id in aliases:
                        hit = f"`{ast.unparse(n)[:60]}`"
                    # escapes: the default object itself is stored into an attribute / a container element or returned, so the
                    # one object created at `def` time becomes (part of) the state of every result built with the default
                    if hit is None and isinstance(n, ast.Assign) and isinstance(n.value, ast.Name) and n.value.id in aliases:
                        for t in n.targets:
                            if isinstance(t, ast.Subscript) or (isinstance(t, ast.Attribute) and attr_mutated_somewhere(repo, t.attr)):
                                hit = f"`{ast.unparse(n)}` (the default object itself becomes `{ast.unparse(t)}`, which the package updates in place)"
                    if hit is None and isinstance(n, ast.Return) and isinstance(n.value, ast.Name) and n.value.id in aliases:
                        hit = f"`{ast.unparse(n)}` (the default object itself is handed out)"
                    if hit:
                        # a parameter that is re-bound to a fresh object before (`if x is None: x = set()` style) is a different matter:
                        # only report when the default object itself can reach the write: the parameter is not unconditionally re-bound
                        out.append((fi, p, n, hit))
    return out, checked


def quantity_names(repo, rep, r5, prims, models):
    n_sites = 0
    for f in repo.all_functions():
        for n in walk_local_stmt(f.node):
            if isinstance(n, (ast.Assign, ast.AugAssign)):
                for t in (n.targets if isinstance(n, ast.Assign) else [n.target]):
                    if isinstance(t, ast.Attribute) and t.attr == "name" and isinstance(t.value, ast.Attribute) and t.value.attr in (
                            "quantity", "transform"):
                        n_sites += 1
                        base = t.value.value
                        ok = False
                        why = "the owner is not a local fresh out of ed()"
                        if isinstance(base, ast.Name):
                            for a in walk_local_stmt(f.node):
                                if isinstance(a, ast.Assign) and any(isinstance(x, ast.Name) and x.id == base.id for x in a.targets):
                                    v = a.value
                                    if isinstance(v, ast.Call) and isinstance(v.func, ast.Attribute) and v.func.attr == "ed":
                                        k = repo.resolve_name(f.module, ast.unparse(v.func.value))
                                        if isinstance(k, ClassInfo):
                                            ok, why = ed_passes_none(repo, k)
                        r5.ob(ok, f"{f.qualname}: {norm(n)[:70]}")
                        if not ok:
                            rep.finding("R6.5", f, n, f"`{ast.unparse(t)}` is written but {why}: a shared function object (e.g. the "
                                        f"module-level `identity`) would be renamed for every aggregator using it")
    if n_sites == 0:
        r5.ob(True, "no stores to quantity names")


def ed_passes_none(repo, k):
    ed = repo.method(k, "ed", required=False)
    init = repo.method(k, "__init__", required=False)
    if ed is None or init is None:
        return False, f"{k.name}.ed not found"
    fcn_param = None
    for p in init.params[1:]:
        if p in ("quantity", "transform"):
            fcn_param = p
    if fcn_param is None:
        return True, ""
    idx = init.params[1:].index(fcn_param)
    for n in walk_local_stmt(ed.node):
        if isinstance(n, ast.Call) and isinstance(n.func, ast.Name):
            r = repo.resolve_name(ed.module, n.func.id)
            if r is k:
                arg = None
                if idx < len(n.args):
                    arg = n.args[idx]
                for kw in n.keywords:
                    if kw.arg == fcn_param:
                        arg = kw.value
                if isinstance(arg, ast.Constant) and arg.value is None:
                    return True, ""
                return False, f"{k.name}.ed does not construct with {fcn_param}=None (a fresh UserFcn)"
    return False, f"{k.name}.ed does not call the constructor"
