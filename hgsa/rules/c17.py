"""C17 - user-function wrappers preserve behaviour (structural part: resolution, memo discipline, wrapper table)."""

import ast

from .. import cfg as cfgmod
from ..astutil import call_name, walk_local_stmt
from ..loader import AnalysisError, FuncInfo, norm
from ..resolve import unresolved_self_loads
from .c15 import edge_always_raises


def self_attrs(node, sn, ctx=None):
    out = []
    for n in ast.walk(node):
        if isinstance(n, ast.Attribute) and isinstance(n.value, ast.Name) and n.value.id == sn:
            if ctx is None or isinstance(n.ctx, ctx):
                out.append(n)
    return out


def run(repo, rep, tier):
    rep.extra["explanation"] = (
        "Structural part of the wrapper contract in util.py: (R17.1) every `self.x` read in UserFcn/CachedFcn resolves in "
        "the class; (R17.2) memo discipline of CachedFcn.__call__: the attributes read by the hit condition are exactly "
        "those written on the miss path before returning, positional comparison through zip() is under a length equality "
        "and keyword comparison under key-set equality, and the miss path calls the base __call__ with the arguments "
        "unchanged; (R17.3) serializable/cached/named never double-wrap, carry expr and name across every re-wrap, test "
        "the subclass CachedFcn before its base UserFcn, and `named` raises when a name is already present; (R17.4) "
        "UserFcn.__call__ compiles once (hasattr guard) and passes all arguments through. Narrow: what string expressions "
        "evaluate to is not decided."
    )
    rep.extra["explanation"] += " " + (
        'Later additions: exact comparators only and the memo key stored after the wrapped call returned (R17.2); a default name derived by the constructor does not block a first explicit name (R17.3); the eval namespace is fresh per call and record fields take precedence over pre-loaded names (R17.4).'
    )
    rep.not_decided += [
        "that a string expression evaluates like the equivalent Python function (namespace construction is run-time)",
        "what cached results are for equal-but-not-identical arguments",
    ]
    um = repo.modules.get("histogrammar.util")
    if um is None:
        raise AnalysisError("histogrammar.util not found")
    for nm in ("UserFcn", "CachedFcn"):
        if nm not in um.classes:
            raise AnalysisError(f"util.{nm} not found")
    ufc, cfc = um.classes["UserFcn"], um.classes["CachedFcn"]
    r1 = rep.rule("R17.1", "every self.x read in UserFcn/CachedFcn resolves", floor=20)
    r2 = rep.rule("R17.2", "CachedFcn memo discipline", floor=5)
    r3 = rep.rule("R17.3", "wrapper table: no double wrap, expr and name carried, subclass tested first, second name raises", floor=8)
    r4 = rep.rule("R17.4", "UserFcn.__call__ compiles once and passes arguments through", floor=2)
    # ---------------- R17.1
    bad, checked = unresolved_self_loads(repo, classes={"UserFcn", "CachedFcn"})
    for _ in range(checked - len(bad)):
        r1.ob(True)
    seen = set()
    for f, n, where in bad:
        r1.ob(False, f"{f.qualname}: self.{n.attr}")
        if (f.qualname, n.attr) in seen:
            continue
        seen.add((f.qualname, n.attr))
        rep.finding("R17.1", f, n, f"`self.{n.attr}` is read but no class in the MRO of {where} defines or assigns `{n.attr}`: "
                    f"AttributeError as soon as this expression is evaluated", stmt=f"self.{n.attr} unresolved")
    # ---------------- R17.2
    call = repo.own_method(cfc, "__call__")
    rep.analysed_functions.add(call.construct)
    sn = call.params[0]
    a = call.node.args
    if not (a.vararg and a.kwarg):
        raise AnalysisError("CachedFcn.__call__ does not take *args, **kwds")
    va, kw = a.vararg.arg, a.kwarg.arg
    g = cfgmod.build(call.node)
    hit = None
    for n in g.nodes:
        if n.kind == "test":
            for lab, s in n.succ:
                sx = g.nodes[s]
                if lab == "T" and sx.kind == "stmt" and isinstance(sx.ast, ast.Return) and self_attrs(sx.ast, sn):
                    hit = (n, sx)
    if hit is None:
        raise AnalysisError("CachedFcn.__call__: hit branch (`if <memo matches>: return self.last...`) not found")
    test, ret = hit
    read = {x.attr for x in self_attrs(test.ast, sn, ast.Load)} | {x.attr for x in self_attrs(ret.ast, sn, ast.Load)}
    read = {x for x in read if x.startswith("last")}
    # miss path: nodes reachable from the F edge
    miss = set()
    work = [s for lab, s in test.succ if lab == "F"]
    while work:
        x = work.pop()
        if x in miss:
            continue
        miss.add(x)
        work += [s for _, s in g.nodes[x].succ]
    written = set()
    base_call = None
    for nid in miss:
        n = g.nodes[nid]
        if n.kind == "stmt":
            for t in ast.walk(n.ast):
                if isinstance(t, ast.Attribute) and isinstance(t.ctx, ast.Store) and isinstance(t.value, ast.Name) and t.value.id == sn:
                    written.add(t.attr)
            for cl in ast.walk(n.ast):
                if isinstance(cl, ast.Call) and isinstance(cl.func, ast.Attribute) and cl.func.attr == "__call__":
                    base_call = cl
    ok = read == {w for w in written if w.startswith("last")} and bool(read)
    r2.ob(ok, f"memo attributes read {sorted(read)} == written on miss {sorted(written)}")
    if not ok:
        rep.finding("R17.2", call, test.stmt, f"the hit condition reads {sorted(read)} but the miss path stores {sorted(written)}: a stale "
                    f"or missing memo attribute makes the cache return a result for other arguments", stmt="memo read/write sets")
    # the hit condition starts with hasattr(self, "lastArgs")
    conj = test.ast.values if isinstance(test.ast, ast.BoolOp) and isinstance(test.ast.op, ast.And) else [test.ast]
    ok = bool(conj) and isinstance(conj[0], ast.Call) and call_name(conj[0]) == "hasattr"
    r2.ob(ok, "hit condition guarded by hasattr")
    if not ok:
        rep.finding("R17.2", call, test.stmt, "the hit condition does not start with hasattr(self, 'lastArgs'): the first call fails",
                    stmt="hasattr guard")
    txt = [ast.unparse(x).replace(" ", "") for x in conj]
    has_len = any(t in (f"len({va})==len({sn}.lastArgs)", f"len({sn}.lastArgs)==len({va})") for t in txt)
    zips = [n for n in ast.walk(test.ast) if isinstance(n, ast.Call) and call_name(n) == "zip"]
    ok = has_len or not zips
    r2.ob(ok, "positional comparison by zip is under a length equality")
    if not ok:
        rep.finding("R17.2", call, test.stmt, "positional arguments are compared through zip() without `len(args) == len(self.lastArgs)`: "
                    "a call with fewer arguments hits the cache of a longer call", stmt="zip without length")
    has_keys = any("keys()" in t and "==" in t and kw in t and "lastKwds" in t for t in txt)
    r2.ob(has_keys, "keyword comparison under key-set equality")
    if not has_keys:
        rep.finding("R17.2", call, test.stmt, "keyword arguments are compared without key-set equality", stmt="kwds key sets")
    # every comparison of args is an `all(...)`, never `any(...)`
    anys = [n for n in ast.walk(test.ast) if isinstance(n, ast.Call) and call_name(n) == "any"]
    r2.ob(not anys, "argument comparisons quantify with all()")
    if anys:
        rep.finding("R17.2", call, test.stmt, "an argument comparison uses any(): one matching argument is enough for a cache hit",
                    stmt="any() in hit condition")
    ok = base_call is not None and [ast.unparse(x) for x in base_call.args] == [f"*{va}"] and \
        [(k.arg, ast.unparse(k.value)) for k in base_call.keywords] == [(None, kw)] and \
        ast.unparse(base_call.func.value) in ("super()", f"super(CachedFcn, {sn})", "UserFcn")
    r2.ob(ok, "miss path calls the base __call__ with the arguments unchanged")
    if not ok:
        rep.finding("R17.2", call, base_call or call.node, "the miss path does not call `super().__call__(*args, **kwds)` with the "
                    "arguments unchanged: the cached wrapper returns something other than the underlying function",
                    stmt="base call on miss")
    # the memo key is committed only after the underlying call has returned: if that call raises, the key of the failed call
    # must not stay paired with the result of an earlier call
    base_node = None
    key_stores = []
    for nid in miss:
        n = g.nodes[nid]
        if n.kind != "stmt":
            continue
        if base_call is not None and any(x is base_call for x in ast.walk(n.ast)):
            base_node = n
        for t in ast.walk(n.ast):
            if isinstance(t, ast.Attribute) and isinstance(t.ctx, ast.Store) and isinstance(t.value, ast.Name) and t.value.id == sn \
                    and t.attr in read and not any(x is base_call for x in ast.walk(n.ast)):
                key_stores.append((n, t.attr))
    if base_node is not None:
        dom = g.dominators()
        for n, attr in key_stores:
            ok = base_node.id in dom.get(n.id, set())
            r2.ob(ok, f"memo attribute {attr} stored after the base call")
            if not ok:
                rep.finding("R17.2", call, n.ast, f"`{sn}.{attr}` is stored before the underlying function is called: if that call raises, the memo "
                            f"pairs the arguments of the failed call with the result of the previous successful call, and the next call "
                            f"with the same arguments returns that stale result instead of what the function returns",
                            stmt=f"memo key {attr} stored before the call")
    # argument comparisons in the hit condition use exact, shape-sensitive equalities only (enumerated idioms, one reason each)
    EXACT = {"array_equal": "numpy: same shape and same elements"}
    for cl in ast.walk(test.ast):
        if isinstance(cl, ast.Call) and isinstance(cl.func, ast.Attribute) and cl.func.attr not in ("keys",) and \
                ast.unparse(cl.func).split(".")[0] in ("np", "numpy", "self"):
            nm = cl.func.attr
            if nm in ("lastArgs", "lastKwds"):
                continue
            ok = nm in EXACT
            r2.ob(ok, f"argument comparison through {ast.unparse(cl.func)}")
            if not ok:
                rep.finding("R17.2", call, test.stmt, f"the hit condition compares arguments with `{ast.unparse(cl.func)}`, which is not an exact, "
                            f"shape-sensitive equality (accepted: identity, ==, np.array_equal): arguments that merely broadcast or are "
                            f"close hit the cache and the previous result is returned", stmt=f"comparator {nm}")
    # ---------------- R17.3 wrapper table
    for nm in ("serializable", "cached", "named"):
        if nm not in um.functions:
            raise AnalysisError(f"util.{nm} not found")
    wrapper_rules(repo, rep, r3, um)
    # ---------------- R17.4
    uc = repo.own_method(ufc, "__call__")
    rep.analysed_functions.add(uc.construct)
    sn = uc.params[0]
    g = cfgmod.build(uc.node)
    compile_nodes = [n for n in g.nodes if n.kind == "stmt" and any(isinstance(x, ast.Call) and call_name(x) == "compile" for x in ast.walk(n.ast))]
    guard = [n for n in g.nodes if n.kind == "test" and ast.unparse(n.ast).replace(" ", "").replace('"', "'") == f"nothasattr({sn},'fcn')"]
    dom = g.dominators()
    ok = bool(guard) and all(any(gd.id in dom[c.id] for gd in guard) for c in compile_nodes if c.id in dom)
    stores_fcn = any(isinstance(t, ast.Attribute) and t.attr == "fcn" and isinstance(t.ctx, ast.Store) for t in ast.walk(uc.node))
    r4.ob(ok and stores_fcn, "string expression compiled once under `if not hasattr(self, 'fcn')`")
    if not (ok and stores_fcn):
        rep.finding("R17.4", uc, uc.node, "compilation of the string expression is not guarded by `if not hasattr(self, 'fcn')` with a "
                    "store to self.fcn", stmt="compile-once guard")
    # one namespace: eval(code, ns).  With a separate locals mapping (eval(code, g, l)) names bound there are invisible to nested
    # scopes of the expression (generator expressions, lambdas), which resolve free names in the GLOBALS only
    for cl in ast.walk(uc.node):
        if isinstance(cl, ast.Call) and isinstance(cl.func, ast.Name) and cl.func.id == "eval":
            ok = len(cl.args) == 2 and not cl.keywords
            r4.ob(ok, f"`{ast.unparse(cl)[:40]}` evaluates in one namespace")
            if not ok:
                rep.finding("R17.4", uc, cl, f"`{ast.unparse(cl)[:60]}` passes the record's fields as a separate locals mapping: a generator expression or lambda inside the "
                            f"string expression resolves its free names in the globals only, so `sum(x * k for k in range(n))` raises NameError (or silently takes a "
                            f"pre-loaded name such as `e`) where the equivalent Python function reads the record's field", stmt="eval with separate locals")
    # the namespace a string expression is evaluated in is built afresh on every call (no state from earlier records)
    for inner in ast.walk(uc.node):
        if isinstance(inner, ast.FunctionDef) and inner is not uc.node:
            for cl in ast.walk(inner):
                if isinstance(cl, ast.Call) and isinstance(cl.func, ast.Name) and cl.func.id == "eval" and len(cl.args) >= 2:
                    ns = cl.args[1]
                    fresh = False
                    if isinstance(ns, ast.Name):
                        for a in ast.walk(inner):
                            if isinstance(a, ast.Assign) and any(isinstance(t, ast.Name) and t.id == ns.id for t in a.targets):
                                v = a.value
                                fresh = (isinstance(v, ast.Call) and ((isinstance(v.func, ast.Name) and v.func.id == "dict") or (
                                    isinstance(v.func, ast.Attribute) and v.func.attr == "copy"))) or isinstance(v, (ast.Dict, ast.DictComp))
                                if not fresh and isinstance(v, ast.Call):
                                    fresh = returns_fresh_dict(repo, um, ufc, v)
                    elif isinstance(ns, (ast.Dict, ast.DictComp)) or (isinstance(ns, ast.Call) and ast.unparse(ns.func) == "dict"):
                        fresh = True
                    r4.ob(fresh, f"eval namespace `{ast.unparse(ns)}` is a fresh dict per call")
                    if not fresh:
                        rep.finding("R17.4", uc, cl, f"the namespace `{ast.unparse(ns)}` passed to eval() is not created inside the per-datum "
                                    f"function: fields of one record stay visible to the evaluation of the next (a string quantity no "
                                    f"longer evaluates like the equivalent function)", stmt="eval namespace shared across calls")
                    # precedence: whatever the record provides overrides the pre-loaded names (math.*, numpy, module globals), never the reverse
                    if isinstance(ns, ast.Name):
                        dparam = inner.args.args[0].arg if inner.args.args else None
                        first = True
                        for a in sorted((x for x in ast.walk(inner) if isinstance(x, (ast.Assign, ast.Expr))), key=lambda x: x.lineno):
                            bad = None
                            if isinstance(a, ast.Assign) and any(isinstance(t, ast.Name) and t.id == ns.id for t in a.targets):
                                if first:
                                    first = False
                                    continue
                                v = a.value
                                if isinstance(v, ast.Dict) and any(k is None for k in v.keys):
                                    parts = [ast.unparse(x) for k, x in zip(v.keys, v.values) if k is None]
                                    if ns.id in parts and parts.index(ns.id) != 0:
                                        bad = a
                                elif isinstance(v, ast.Call) and isinstance(v.func, ast.Name) and v.func.id == "dict":
                                    if any(kw.arg is None and ast.unparse(kw.value) == ns.id for kw in v.keywords):
                                        bad = a
                            if isinstance(a, ast.Expr) and isinstance(a.value, ast.Call) and isinstance(a.value.func, ast.Attribute):
                                c2 = a.value
                                if c2.func.attr == "setdefault" and ast.unparse(c2.func.value) == ns.id:
                                    bad = a
                                if c2.func.attr == "update" and ast.unparse(c2.func.value) != ns.id and any(ast.unparse(x) == ns.id for x in c2.args):
                                    bad = a
                            r4.ob(bad is None) if bad is not None else None
                            if bad is not None:
                                rep.finding("R17.4", uc, bad, f"`{norm(bad)[:80]}` lets the pre-loaded namespace `{ns.id}` (math.*, numpy, module globals) "
                                            f"override what the record provides: a field named like a pre-loaded name (e, pi, gamma, ...) evaluates to "
                                            f"the constant/function instead of the record's value, so the string quantity differs from the equivalent "
                                            f"Python function on dict records", stmt=f"namespace precedence: {norm(bad)[:50]}")
    # every field of the record is a variable of the expression: the namespace is updated with the record's own mapping, never with
    # a filtered copy of it (a field called `_pt` is as good a variable as `pt`)
    for inner in ast.walk(uc.node):
        if not (isinstance(inner, ast.FunctionDef) and inner is not uc.node):
            continue
        dparam = inner.args.args[0].arg if inner.args.args else None
        for cl in ast.walk(inner):
            if isinstance(cl, ast.Call) and isinstance(cl.func, ast.Attribute) and cl.func.attr == "update" and cl.args:
                a0 = cl.args[0]
                if isinstance(a0, (ast.DictComp, ast.GeneratorExp, ast.ListComp)) and dparam and any(
                        isinstance(x, ast.Name) and x.id == dparam for g0 in a0.generators for x in ast.walk(g0.iter)):
                    filt = [c0 for g0 in a0.generators for c0 in g0.ifs]
                    r4.ob(not filt, f"namespace update from the record `{ast.unparse(a0)[:50]}` is unfiltered")
                    if filt:
                        rep.finding("R17.4", uc, cl, f"`{ast.unparse(cl)[:90]}` copies only the fields that satisfy `{ast.unparse(filt[0])[:40]}` into the "
                                    f"evaluation namespace: a string expression that refers to one of the other fields raises NameError (or sees a "
                                    f"pre-loaded name) where the equivalent Python function reads the field", stmt="record fields filtered before evaluation")
    # the pre-loaded names are complete: all public names of math (functions AND constants: pi, e, tau, inf, nan) reach the namespace;
    # the only filter that keeps them all is a leading-underscore test on the key
    for inner in ast.walk(uc.node):
        if not (isinstance(inner, ast.FunctionDef) and inner is not uc.node):
            continue
        dparam = inner.args.args[0].arg if inner.args.args else None
        scopes = [inner]
        for cl in ast.walk(inner):
            if isinstance(cl, ast.Call):
                fn0 = cl.func
                tgt0 = None
                if isinstance(fn0, ast.Attribute) and isinstance(fn0.value, ast.Name):
                    k0 = um.classes.get(fn0.value.id) or (ufc if fn0.value.id in ("self", "cls") else None)
                    tgt0 = k0.methods.get(fn0.attr) if k0 is not None else None
                elif isinstance(fn0, ast.Name):
                    tgt0 = um.functions.get(fn0.id)
                if tgt0 is not None and tgt0.node is not uc.node:
                    scopes.append(tgt0.node)
        if any(isinstance(cl, ast.Call) and isinstance(cl.func, ast.Name) and cl.func.id == "eval" for cl in ast.walk(inner)):
            loads = any((isinstance(x, ast.Attribute) and x.attr == "__dict__" and ast.unparse(x.value) == "math") or (
                isinstance(x, ast.Call) and isinstance(x.func, ast.Name) and x.func.id in ("vars", "dir") and x.args and ast.unparse(x.args[0]) == "math")
                for sc0 in scopes for x in ast.walk(sc0))
            r4.ob(loads, "the evaluation namespace is pre-loaded with the names of math")
            if not loads:
                rep.finding("R17.4", uc, inner, "the evaluating function no longer pre-loads the names of `math` into the namespace: `sqrt(x)`, `pi` ... in a "
                            "string expression raise NameError where the equivalent Python function evaluates", stmt="math names not pre-loaded")
        for comp in [x for sc0 in scopes for x in ast.walk(sc0)]:
            if not isinstance(comp, (ast.DictComp, ast.GeneratorExp, ast.ListComp)):
                continue
            srcs = [g0 for g0 in comp.generators if any(isinstance(x, ast.Attribute) and x.attr == "__dict__" and ast.unparse(x.value) in ("math", "np", "numpy")
                                                         for x in ast.walk(g0.iter)) or any(
                isinstance(x, ast.Call) and isinstance(x.func, ast.Name) and x.func.id in ("vars", "dir") and x.args and ast.unparse(x.args[0]) == "math" for x in ast.walk(g0.iter))]
            for g0 in srcs:
                keyname = None
                t = g0.target
                if isinstance(t, ast.Tuple) and t.elts and isinstance(t.elts[0], ast.Name):
                    keyname = t.elts[0].id
                elif isinstance(t, ast.Name):
                    keyname = t.id
                for c0 in g0.ifs:
                    tst = c0
                    neg = False
                    if isinstance(tst, ast.UnaryOp) and isinstance(tst.op, ast.Not):
                        tst, neg = tst.operand, True
                    harmless = (neg and isinstance(tst, ast.Call) and isinstance(tst.func, ast.Attribute) and tst.func.attr == "startswith"
                                and isinstance(tst.func.value, ast.Name) and tst.func.value.id == keyname and len(tst.args) == 1
                                and isinstance(tst.args[0], ast.Constant) and isinstance(tst.args[0].value, str) and tst.args[0].value
                                and set(tst.args[0].value) == {"_"})
                    r4.ob(harmless, f"pre-loaded names `{ast.unparse(g0.iter)[:40]}` filtered only by a leading-underscore test")
                    if not harmless:
                        rep.finding("R17.4", uc, c0, f"the names pre-loaded from `{ast.unparse(g0.iter)[:40]}` are filtered by `{ast.unparse(c0)[:50]}`: public names "
                                    f"that fail the test (the constants pi, e, tau, inf, nan are not callable, for one) are missing from the evaluation "
                                    f"namespace, so a string expression using them raises NameError (or takes the name for the datum variable) where the "
                                    f"equivalent Python function evaluates", stmt="pre-loaded names filtered")
    # the single free variable of a string expression on a bare datum: every name of the code object that the namespace does not
    # provide - nothing else may be taken out (a datum variable called like a builtin, `sum`, `int`, ..., is still the variable)
    for inner in ast.walk(uc.node):
        if not (isinstance(inner, ast.FunctionDef) and inner is not uc.node):
            continue
        evals = [cl for cl in ast.walk(inner) if isinstance(cl, ast.Call) and isinstance(cl.func, ast.Name) and cl.func.id == "eval" and len(cl.args) >= 2]
        if not evals or not isinstance(evals[0].args[1], ast.Name):
            continue
        nsname = evals[0].args[1].id
        for st in ast.walk(inner):
            if isinstance(st, ast.Assign) and any("co_names" in ast.unparse(x) for x in ast.walk(st.value) if isinstance(x, ast.Attribute)):
                try:
                    got, atoms = free_variable_set(st.value, nsname)
                except _NoSetAlgebra:
                    continue
                want = frozenset(r for r in got[1] if r[0] and not r[1])
                ok = got[0] == want
                r4.ob(ok, f"free variable discovery `{ast.unparse(st.value)[:60]}` == co_names - namespace")
                if not ok:
                    extra = [a for a in atoms[2:]]
                    rep.finding("R17.4", uc, st, f"the free variable of a string expression is discovered as `{ast.unparse(st.value)[:90]}`, which is not "
                                f"`names of the code object minus names the namespace provides`" + (f" (it also involves {extra})" if extra else "") +
                                ": a datum variable whose name is in the additional set is never bound to the datum, so the expression evaluates "
                                "with another object (or raises) where the equivalent Python function works", stmt="free variable discovery")
    rets = [n for n in walk_local_stmt(uc.node) if isinstance(n, ast.Return) and n.value is not None and isinstance(n.value, ast.Call)
            and ast.unparse(n.value.func) == f"{sn}.fcn"]
    a = uc.node.args
    ok = bool(rets) and all([ast.unparse(x) for x in r.value.args] == [f"*{a.vararg.arg}"] and
                            [(k.arg, ast.unparse(k.value)) for k in r.value.keywords] == [(None, a.kwarg.arg)] for r in rets)
    r4.ob(ok, "UserFcn.__call__ returns self.fcn(*args, **kwds)")
    if not ok:
        rep.finding("R17.4", uc, uc.node, "UserFcn.__call__ does not return `self.fcn(*args, **kwds)`", stmt="pass-through call")


class _NoSetAlgebra(Exception):
    pass


def free_variable_set(e, nsname):
    """Evaluate a set expression over the atoms N (co_names of the code object), K (keys of the eval namespace) and any other
    set-valued sub-expression: ((regions of the result, all regions), atom texts).  Regions are membership tuples."""
    atoms = ["N", "K"]

    def atom_of(x):
        t = ast.unparse(x)
        if "co_names" in t:
            return 0
        if t in (nsname, f"{nsname}.keys()"):
            return 1
        if t not in atoms:
            atoms.append(t)
        return atoms.index(t)

    # first pass: collect atoms
    def collect(x):
        if isinstance(x, ast.Call) and isinstance(x.func, ast.Name) and x.func.id in ("set", "frozenset", "list", "sorted", "tuple") and len(x.args) == 1:
            return collect(x.args[0])
        if isinstance(x, ast.BinOp) and isinstance(x.op, (ast.Sub, ast.BitOr, ast.BitAnd)):
            collect(x.left)
            collect(x.right)
            return
        if isinstance(x, (ast.ListComp, ast.SetComp, ast.GeneratorExp)) and len(x.generators) == 1 and isinstance(x.generators[0].target, ast.Name) \
                and isinstance(x.elt, ast.Name) and x.elt.id == x.generators[0].target.id:
            collect(x.generators[0].iter)
            for c0 in x.generators[0].ifs:
                if isinstance(c0, ast.Compare) and len(c0.ops) == 1 and isinstance(c0.ops[0], (ast.In, ast.NotIn)):
                    collect(c0.comparators[0])
                else:
                    raise _NoSetAlgebra()
            return
        if isinstance(x, (ast.Name, ast.Attribute, ast.Call)):
            atom_of(x)
            return
        raise _NoSetAlgebra()
    collect(e)
    import itertools
    regions = frozenset(itertools.product((0, 1), repeat=len(atoms)))

    def ev(x):
        if isinstance(x, ast.Call) and isinstance(x.func, ast.Name) and x.func.id in ("set", "frozenset", "list", "sorted", "tuple") and len(x.args) == 1:
            return ev(x.args[0])
        if isinstance(x, ast.BinOp):
            l, r = ev(x.left), ev(x.right)
            return l - r if isinstance(x.op, ast.Sub) else (l | r if isinstance(x.op, ast.BitOr) else l & r)
        if isinstance(x, (ast.ListComp, ast.SetComp, ast.GeneratorExp)):
            cur = ev(x.generators[0].iter)
            for c0 in x.generators[0].ifs:
                other = ev(c0.comparators[0])
                cur = cur & other if isinstance(c0.ops[0], ast.In) else cur - other
            return cur
        i = atom_of(x)
        return frozenset(r for r in regions if r[i])
    return (ev(e), regions), atoms


def returns_fresh_dict(repo, um, cls, call):
    """a helper (static method of the class, or a module-level function) every return of which is a dict created in that call"""
    fn = call.func
    target = None
    if isinstance(fn, ast.Attribute) and isinstance(fn.value, ast.Name):
        k = um.classes.get(fn.value.id) or (cls if fn.value.id in ("self", "cls") else None)
        if k is not None:
            target = k.methods.get(fn.attr)
    elif isinstance(fn, ast.Name):
        target = um.functions.get(fn.id)
    if target is None:
        return False
    fresh_locals = set()
    for st in walk_local_stmt(target.node):
        if isinstance(st, ast.Assign) and len(st.targets) == 1 and isinstance(st.targets[0], ast.Name):
            v = st.value
            if (isinstance(v, ast.Call) and ((isinstance(v.func, ast.Name) and v.func.id == "dict") or (isinstance(v.func, ast.Attribute) and v.func.attr == "copy"))) \
                    or isinstance(v, (ast.Dict, ast.DictComp)):
                fresh_locals.add(st.targets[0].id)
            else:
                fresh_locals.discard(st.targets[0].id)
    rets = [st.value for st in walk_local_stmt(target.node) if isinstance(st, ast.Return)]
    return bool(rets) and all(r is not None and ((isinstance(r, ast.Name) and r.id in fresh_locals) or isinstance(r, (ast.Dict, ast.DictComp)) or (
        isinstance(r, ast.Call) and isinstance(r.func, ast.Name) and r.func.id == "dict")) for r in rets)


KINDS = ("CachedFcn", "UserFcn", "bare")       # a CachedFcn instance, a plain UserFcn instance, anything else


class _Unsupported(Exception):
    pass


def wrapper_outcomes(fnode, param, kind, subclass_of):
    """All outcomes of a wrapper function for an argument of the given kind: [(what, value, trace)] with what in
    {"return", "raise"}, value the returned expression with locals and kind-decided conditionals resolved, trace the list of
    (test node, branch) of the undecided tests passed.  isinstance(param, C) is decided by the kind; any other test forks."""

    def truth(e):
        if isinstance(e, ast.UnaryOp) and isinstance(e.op, ast.Not):
            t = truth(e.operand)
            return None if t is None else not t
        if isinstance(e, ast.BoolOp):
            vals = [truth(v) for v in e.values]
            if isinstance(e.op, ast.And):
                if any(v is False for v in vals):
                    return False
                return True if all(v is True for v in vals) else None
            if any(v is True for v in vals):
                return True
            return False if all(v is False for v in vals) else None
        if isinstance(e, ast.Call) and call_name(e) == "isinstance" and len(e.args) == 2 and isinstance(e.args[0], ast.Name) and e.args[0].id == param:
            classes = e.args[1].elts if isinstance(e.args[1], ast.Tuple) else [e.args[1]]
            names = [ast.unparse(c) for c in classes]
            if all(n in subclass_of for n in names):
                return any(kind in subclass_of[n] for n in names)
        return None

    def resolve(e, env):
        if isinstance(e, ast.Name) and e.id in env:
            return env[e.id]
        if isinstance(e, ast.IfExp):
            t = truth(resolve(e.test, env))
            if t is not None:
                return resolve(e.body if t else e.orelse, env)

        class R(ast.NodeTransformer):
            def visit_Name(self, n):
                return env.get(n.id, n) if isinstance(n.ctx, ast.Load) else n

            def visit_IfExp(self, n):
                t = truth(n.test)
                if t is not None:
                    return self.visit(n.body if t else n.orelse)
                return self.generic_visit(n)
        import copy
        return R().visit(copy.deepcopy(e))

    def bind(target, value, env):
        if isinstance(target, ast.Name):
            env[target.id] = value
        elif isinstance(target, (ast.Tuple, ast.List)) and isinstance(value, (ast.Tuple, ast.List)) and len(target.elts) == len(value.elts):
            for t, v in zip(target.elts, value.elts):
                bind(t, v, env)
        elif isinstance(target, ast.Attribute) and isinstance(target.value, ast.Name) and target.value.id == param:
            mutations.append(target)       # the wrapper writes into the object it was given
        else:
            raise _Unsupported(f"assignment to {ast.unparse(target)}")

    out = []
    mutations = []

    def block(stmts, env, trace):
        """returns list of (env, trace) that fall through"""
        live = [(env, trace)]
        for st in stmts:
            nxt = []
            for env, trace in live:
                if isinstance(st, ast.Expr):
                    nxt.append((env, trace))
                elif isinstance(st, ast.Return):
                    out.append(("return", resolve(st.value, env) if st.value is not None else ast.Constant(value=None), trace))
                elif isinstance(st, ast.Raise):
                    out.append(("raise", st, trace))
                elif isinstance(st, ast.Assign):
                    env = dict(env)
                    v = resolve(st.value, env)
                    for t in st.targets:
                        bind(t, v, env)
                    nxt.append((env, trace))
                elif isinstance(st, ast.If):
                    test = resolve(st.test, env)
                    t = truth(test)
                    for br, body in ((True, st.body), (False, st.orelse)):
                        if t is None or t is br:
                            tr = trace + [(st, test, br)] if t is None else trace
                            nxt += block(body, dict(env), tr)
                elif isinstance(st, ast.Pass):
                    nxt.append((env, trace))
                else:
                    raise _Unsupported(f"statement {type(st).__name__}")
            live = nxt
        return live

    for env, trace in block([b for b in fnode.body], {}, []):
        out.append(("return", ast.Constant(value=None), trace))
    for t in mutations:
        out.append(("mutates", t, []))
    return out


def _ctor(v, init_params):
    """(class name, {param: argument text}) for a constructor call, positional and keyword arguments normalised"""
    if not (isinstance(v, ast.Call) and isinstance(v.func, ast.Name)):
        return None
    if any(isinstance(a, ast.Starred) for a in v.args) or any(k.arg is None for k in v.keywords):
        return None
    args = {}
    for pn, a in zip(init_params, v.args):
        args[pn] = ast.unparse(a)
    for k in v.keywords:
        args[k.arg] = ast.unparse(k.value)
    return v.func.id, args


def wrapper_rules(repo, rep, r3, um):
    ser, cac, nam = um.functions["serializable"], um.functions["cached"], um.functions["named"]
    for f in (ser, cac, nam):
        rep.analysed_functions.add(f.construct)
    ufc = um.classes.get("UserFcn")
    init = repo.own_method(ufc, "__init__") if ufc is not None else None
    if init is None:
        raise AnalysisError("UserFcn.__init__ not found")
    sn0 = init.params[0]
    ip = init.params[1:]                   # (expr, name)
    namep = ip[1] if len(ip) > 1 else "name"
    exprp = ip[0]
    cinit = um.classes["CachedFcn"].methods.get("__init__")
    if cinit is not None and cinit.params[1:] != ip:
        raise AnalysisError("CachedFcn.__init__ has its own signature: the wrapper table does not know how its arguments map")
    subclass_of = {"CachedFcn": {"CachedFcn"}, "UserFcn": {"CachedFcn", "UserFcn"}}     # kinds that are instances of the class

    def outcomes(f, param):
        res = {}
        for kind in KINDS:
            try:
                res[kind] = wrapper_outcomes(f.node, param, kind, subclass_of)
            except _Unsupported as e:
                raise AnalysisError(f"{f.qualname}: the wrapper table cannot follow this function ({e})")
        return res

    def returns(res, kind):
        return [(v, tr) for what, v, tr in res[kind] if what == "return"]

    def no_mutation(f, res, who):
        muts = sorted({ast.unparse(v) for kind in KINDS for what, v, _ in res[kind] if what == "mutates"})
        r3.ob(not muts, f"{who}() does not modify the object it is given")
        for m0 in muts:
            rep.finding("R17.3", f, f.node, f"{who}() assigns `{m0}` on the wrapper it was given instead of building a new one: the caller's own wrapper "
                        f"(and every aggregator that already uses it) is renamed behind its back, and a later first name on it raises",
                        stmt=f"{who} mutates its argument ({m0})")

    def is_ctor(v, cls, want):
        c = _ctor(v, ip)
        if c is None or c[0] != cls:
            return False
        got = dict(c[1])
        if got.get(namep) == "None" and namep not in want:
            got.pop(namep)
        return got == want

    # ---- serializable: an existing wrapper (of either kind) is returned as it is; anything else is wrapped once
    p = ser.params[0]
    res = outcomes(ser, p)
    no_mutation(ser, res, "serializable")
    for kind in ("CachedFcn", "UserFcn"):
        rs = returns(res, kind)
        ok = bool(rs) and all(isinstance(v, ast.Name) and v.id == p for v, _ in rs)
        r3.ob(ok, f"serializable({kind} instance) returns it unchanged")
        if not ok:
            rep.finding("R17.3", ser, ser.node, f"serializable() does not return an existing {kind} unchanged (double wrapping / name lost): "
                        f"it returns {[ast.unparse(v)[:50] for v, _ in rs]}", stmt=f"serializable idempotence [{kind}]")
    rs = returns(res, "bare")
    ok = bool(rs) and all(is_ctor(v, "UserFcn", {exprp: p}) for v, _ in rs)
    r3.ob(ok, "serializable(bare) wraps it as UserFcn(fcn)")
    if not ok:
        rep.finding("R17.3", ser, ser.node, f"serializable() does not wrap a bare function as UserFcn({p}): it returns "
                    f"{[ast.unparse(v)[:50] for v, _ in rs]}", stmt="serializable: wrap bare")
    # ---- cached
    p = cac.params[0]
    res = outcomes(cac, p)
    no_mutation(cac, res, "cached")
    rs = returns(res, "CachedFcn")
    ok = bool(rs) and all(isinstance(v, ast.Name) and v.id == p for v, _ in rs)
    r3.ob(ok, "cached(CachedFcn instance) returns it unchanged")
    if not ok:
        rep.finding("R17.3", cac, cac.node, f"cached() does not return an existing CachedFcn unchanged (it returns "
                    f"{[ast.unparse(v)[:50] for v, _ in rs]}): a cached function is wrapped twice / the subclass is tested after its base",
                    stmt="cached idempotence")
    rs = returns(res, "UserFcn")
    ok = bool(rs) and all(is_ctor(v, "CachedFcn", {exprp: f"{p}.{exprp}", namep: f"{p}.{namep}"}) for v, _ in rs)
    r3.ob(ok, "cached(UserFcn instance) re-wraps as CachedFcn(fcn.expr, fcn.name)")
    if not ok:
        rep.finding("R17.3", cac, cac.node, f"cached() does not re-wrap a UserFcn as CachedFcn({p}.expr, {p}.name) (it returns "
                    f"{[ast.unparse(v)[:50] for v, _ in rs]}): the name (or the function) is lost, so named and cached do not commute",
                    stmt="cached carries expr and name")
    rs = returns(res, "bare")
    ok = bool(rs) and all(is_ctor(v, "CachedFcn", {exprp: p}) for v, _ in rs)
    r3.ob(ok, "cached(bare) wraps it as CachedFcn(fcn)")
    if not ok:
        rep.finding("R17.3", cac, cac.node, f"cached() does not wrap a bare function as CachedFcn({p}) (it returns "
                    f"{[ast.unparse(v)[:50] for v, _ in rs]})", stmt="cached: wrap bare")
    # ---- named
    nm_p, fn_p = nam.params[0], nam.params[1]
    res = outcomes(nam, fn_p)
    no_mutation(nam, res, "named")
    guard = None
    for kind in ("CachedFcn", "UserFcn"):
        # a second name raises before anything is returned: one undecided test mentions `fcn.name is not None`, raises on one
        # side, and every return of this kind passed it on the other side
        raising = [(st, test, br) for what, v, tr in res[kind] if what == "raise" for st, test, br in tr
                   if f"{fn_p}.{namep}isnotNone" in ast.unparse(test).replace(" ", "") or f"{fn_p}.{namep}isNone" in ast.unparse(test).replace(" ", "")]
        rs = returns(res, kind)
        ok = False
        for st, test, br in raising:
            if all(any(s2 is st and b2 is (not br) for s2, _, b2 in tr) for _, tr in rs):
                ok = True
                guard = (st, test)
        r3.ob(ok, f"named(name, {kind} instance): a second name raises before anything is returned")
        if not ok:
            rep.finding("R17.3", nam, nam.node, f"named() does not raise when the {kind} already has a name (or a return is reachable without "
                        f"passing the test)", stmt=f"named: second name raises [{kind}]")
        want = {exprp: f"{fn_p}.{exprp}", namep: nm_p}
        ok = bool(rs) and all(is_ctor(v, kind, want) for v, _ in rs)
        r3.ob(ok, f"named: a {kind} is re-wrapped as {kind}(fcn.expr, name)")
        if not ok:
            rep.finding("R17.3", nam, nam.node, f"named() does not re-wrap a {kind} as {kind}({fn_p}.expr, {nm_p}) (it returns "
                        f"{[ast.unparse(v)[:50] for v, _ in rs]}): wrapper kind, expression or name is not preserved"
                        + ("; the subclass CachedFcn is tested after its base UserFcn, so naming a cached function drops the caching" if kind == "CachedFcn" and
                           any(is_ctor(v, "UserFcn", want) for v, _ in rs) else ""), stmt=f"named: rewrap {kind}")
    rs = returns(res, "bare")
    ok = bool(rs) and all(is_ctor(v, "UserFcn", {exprp: fn_p, namep: nm_p}) for v, _ in rs) and not any(w == "raise" for w, _, _ in res["bare"])
    r3.ob(ok, "named: a bare function becomes UserFcn(fcn, name)")
    if not ok:
        rep.finding("R17.3", nam, nam.node, f"named() does not wrap a bare function as UserFcn({fn_p}, {nm_p}) (outcomes "
                    f"{[(w, ast.unparse(v)[:40]) for w, v, _ in res['bare']]})", stmt="named: wrap bare")
    # commutation of named() with cached()/serializable(): the constructor derives a default name from the expression (its text,
    # the function's __name__) when none is given; cached(x) / serializable(x) therefore carry a non-None name for strings and
    # def-functions.  If named()'s "second name" guard only asks `name is not None`, a FIRST explicit name applied after
    # cached()/serializable() raises, although the same name applied before them is accepted: the wrappers do not commute.
    derived = [n for n in walk_local_stmt(init.node) if isinstance(n, ast.Assign) and any(
        isinstance(t, ast.Attribute) and t.attr == namep and isinstance(t.value, ast.Name) and t.value.id == sn0 for t in n.targets)
        and not (isinstance(n.value, ast.Name) and n.value.id == namep)]
    # an explicit name always wins: every store of a DERIVED name (anything but the parameter itself) is taken only when no name was given
    pm0 = {}
    for n in ast.walk(init.node):
        for ch in ast.iter_child_nodes(n):
            pm0[ch] = n

    def _is_none_test(t, positive=True):
        """conjuncts of `t` (taken as true when positive) that establish `name is None` / `self.name is None`"""
        if isinstance(t, ast.BoolOp) and isinstance(t.op, ast.And) and positive:
            return any(_is_none_test(v, True) for v in t.values)
        if isinstance(t, ast.BoolOp) and isinstance(t.op, ast.Or) and not positive:
            return any(_is_none_test(v, False) for v in t.values)
        if isinstance(t, ast.UnaryOp) and isinstance(t.op, ast.Not):
            return _is_none_test(t.operand, not positive)
        if isinstance(t, ast.Compare) and len(t.ops) == 1 and isinstance(t.comparators[0], ast.Constant) and t.comparators[0].value is None:
            subj = ast.unparse(t.left)
            if subj in (namep, f"{sn0}.{namep}"):
                return isinstance(t.ops[0], ast.Is if positive else ast.IsNot) or isinstance(t.ops[0], ast.Eq if positive else ast.NotEq)
        return False

    for d in derived:
        guarded = False
        cur = d
        while cur in pm0 and not guarded:
            par = pm0[cur]
            if isinstance(par, ast.If):
                if any(x is cur for x in par.body):
                    guarded = _is_none_test(par.test, True)
                elif any(x is cur for x in par.orelse):
                    guarded = _is_none_test(par.test, False)
            cur = par
        r3.ob(guarded, f"UserFcn.__init__: derived name `{norm(d)[:50]}` only without an explicit name")
        if not guarded:
            rep.finding("R17.3", init, d, f"`{norm(d)[:70]}` stores a name derived from the expression on a path where an explicit `{namep}` may have been given: "
                        f"named(n, f) of such an expression comes out under the derived name, so named wrappers with different names are equal and "
                        f"the order of named/cached/serializable matters", stmt=f"derived name overrides the explicit one: {norm(d)[:40]}")
    if guard is not None and derived:
        gst, gtest = guard
        txt = ast.unparse(gtest)
        distinguishes = any(isinstance(x, ast.Compare) and any(isinstance(o, (ast.Eq, ast.NotEq)) for o in x.ops) and f".{namep}" in ast.unparse(x)
                            for x in ast.walk(gtest)) or "default" in txt.lower()
        r3.ob(distinguishes, "named(): the second-name guard tells a derived default name from an explicit one")
        if not distinguishes:
            rep.finding("R17.3", nam, gst, f"UserFcn.__init__ derives a default name from the expression ({', '.join(norm(d)[:40] for d in derived[:2])}), and named() "
                        f"rejects every wrapper whose name is not None (`{txt[:60]}`): named(n, cached(s)) and named(n, serializable(s)) raise for a "
                        f"string expression or def-function s, although cached(named(n, s)) is accepted - the wrappers do not commute",
                        stmt="second-name guard fires on derived default names")
