"""C02 - fill computes the specified function of the weighted multiset of data."""

import ast
import copy

from ..astutil import walk_local_stmt
from ..formulas import LeafScenario, fill_state
from ..interp import NAN, Unsup
from ..loader import AnalysisError, norm, primitives
from ..model import build_models
from ..poly import Rat, Unsupported
from ..routing import CONTAINERS, LEAVES, WEIGHT_CLASSES_FILL, configs, run_fill, weight_kind

SIZES_QUICK = (1, 2, 3)
SIZES_THOROUGH = (0, 1, 2, 3, 4, 5)
SIZED = ("Bin", "CentrallyBin", "IrregularlyBin", "Stack", "Label", "UntypedLabel", "Index", "Branch")


def sizes_for(cname, tier):
    if cname not in SIZED:
        return (1,)
    return SIZES_THOROUGH if tier == "thorough" else SIZES_QUICK


def all_configs(repo, cname, tier):
    seen = set()
    for n in sizes_for(cname, tier):
        for cfg in configs(repo, cname, n):
            if cfg.desc in seen:
                continue
            seen.add(cfg.desc)
            yield cfg


def mirror_source(src):
    """Minimize <-> Maximize mirror: swap identifiers/strings and strict comparison directions."""
    tree = ast.parse(src)

    class T(ast.NodeTransformer):
        def swap(self, s):
            table = [("Minimize", "\0A"), ("Maximize", "Minimize"), ("\0A", "Maximize")]
            for a, b in table:
                s = s.replace(a, b)
            out = []
            i = 0
            while i < len(s):
                if s.startswith("min", i):
                    out.append("max")
                    i += 3
                elif s.startswith("max", i):
                    out.append("min")
                    i += 3
                else:
                    out.append(s[i])
                    i += 1
            return "".join(out)

        def visit_Name(self, n):
            n.id = self.swap(n.id)
            return n

        def visit_Attribute(self, n):
            self.generic_visit(n)
            n.attr = self.swap(n.attr)
            return n

        def visit_arg(self, n):
            n.arg = self.swap(n.arg)
            return n

        def visit_FunctionDef(self, n):
            self.generic_visit(n)
            n.name = self.swap(n.name)
            return n

        def visit_ClassDef(self, n):
            self.generic_visit(n)
            n.name = self.swap(n.name)
            return n

        def visit_Constant(self, n):
            if isinstance(n.value, str):
                n.value = self.swap(n.value)
            return n

        def visit_Compare(self, n):
            # only comparisons about the extremum flip: an operand mentions .min/.max, or two bare names are compared
            about = any(isinstance(x, ast.Attribute) and x.attr in ("min", "max") for x in ast.walk(n)) or (
                isinstance(n.left, ast.Name) and all(isinstance(c, ast.Name) for c in n.comparators))
            self.generic_visit(n)
            if about:
                m = {ast.Lt: ast.Gt, ast.Gt: ast.Lt, ast.LtE: ast.GtE, ast.GtE: ast.LtE}
                n.ops = [m[type(o)]() if type(o) in m else o for o in n.ops]
            return n

        def visit_keyword(self, n):
            self.generic_visit(n)
            if n.arg:
                n.arg = self.swap(n.arg)
            return n

    return T().visit(tree)


def strip_docstrings(node):
    for n in ast.walk(node):
        if isinstance(n, (ast.FunctionDef, ast.ClassDef)) and n.body and isinstance(n.body[0], ast.Expr) and isinstance(
                n.body[0].value, ast.Constant) and isinstance(n.body[0].value.value, str):
            n.body = n.body[1:] or [ast.Pass()]
    return node


def run(repo, rep, tier):
    rep.extra["explanation"] = (
        "Abstract interpretation of every fill() over a finite, exhaustively enumerated domain: the datum's quantity ranges "
        "over the order-type regions of the node's parameters (NaN, -inf, every critical point, every open interval, +inf) "
        "and the weight over {NaN, <0, 0, >0}. (R2.1) for a non-positive/NaN weight no state changes and no child is filled; "
        "(R2.2) the routing table region -> {(child slot, weight)} of every container equals the table the property "
        "statement specifies (half-open intervals, NaN -> nanflow, +-inf to the outermost bins, nearest centre with ties up, "
        "cumulative thresholds, q*weight > 0 for Fraction/Select, None/NaN -> 'NaN'); (R2.3) the generic-case accumulator "
        "updates normalise to the specified functions (weighted sum, weighted mean, parallel-variance increment) and "
        "the Minimize/Maximize decision tables equal min/max ignoring NaN; (R2.4) a float-class interpretation of Average.fill "
        "and Deviate.fill over (empty | finite | +inf | -inf | NaN state) x (finite | +inf | -inf | NaN datum) gives the class the "
        "weighted mean/variance of those data has (opposite infinities -> NaN, any non-finite -> NaN variance). The in-range index arithmetic is opaque: that floor(...) picks the numerically right "
        "bucket for every float is NOT decided, nor is what user quantity functions return."
    )
    rep.extra["explanation"] += " " + (
        'Later additions: (R2.4) float-class interpretation of Average/Deviate.fill over all (state class x datum class) pairs; (R2.5) numeric Bag keys are NaN-normalised; Stack is also explored with descending thresholds.'
    )
    rep.not_decided += [
        "that the in-range index arithmetic selects the right bucket for every float", "order-independence of floating-point sums",
        "what user quantity functions return",
    ]
    rep.assumptions += [
        "comparison-only code cannot distinguish two data in the same order-type region (exactness of the abstraction)",
        "int(floor(arithmetic on q)) is an in-range bucket exactly for regions in [low, high) (index exactness not decided)",
    ]
    prims, _ = primitives(repo)
    models = build_models(repo)
    r1 = rep.rule("R2.1", "weight gate: no effect for NaN / non-positive weights (all 19 fill)", floor=19 * 3)
    r2 = rep.rule("R2.2", "routing table per region equals the specified table", floor=80)
    r3 = rep.rule("R2.3", "accumulator updates normalise to the specified functions; min/max mirror", floor=8)
    rep.borrow(repo, "C03", {"R3.8": ("R2.8", "the scalar bin index is the floating-point expression the vectorised reference path computes (a datum exactly on an edge is assigned to the same bin by both)", 2)})
    r4 = rep.rule("R2.4", "Average/Deviate: IEEE class of mean/variance after a fill, all (state class x datum class) pairs", floor=80)
    nregions = 0
    from ..interp import Machine
    Machine.COVERED.clear()
    for c in prims:
        fill = repo.own_method(c, "fill")
        rep.analysed_functions.add(fill.construct)
        for cfg in all_configs(repo, c.name, tier):
            for label, q in cfg.regions:
                for wc in WEIGHT_CLASSES_FILL:
                    try:
                        paths = run_fill(repo, cfg, label, q, wc)
                    except Unsup as e:
                        raise AnalysisError(f"{fill.construct}: unsupported construct while interpreting ({cfg.desc}, {label}, weight {wc}): {e}")
                    if wc != "pos":
                        bad = [p for p in paths if p.fills or p.accs or p.inserts or p.all_fill_slots]
                        r1.ob(not bad, f"{cfg.desc}: region {label}, weight class {wc}: no effect")
                        if bad:
                            p = bad[0]
                            what = (f"fills {sorted(p.all_fill_slots)}" if p.all_fill_slots else "") + (
                                f" updates {sorted({a[1] for a in p.accs})}" if p.accs else "")
                            rep.finding("R2.1", fill, fill.node, f"with a weight of class `{wc}` (datum region {label}) fill still {what.strip()}: "
                                        f"a fill with weight <= 0 or NaN must change nothing (the gate must be `weight > 0.0`)",
                                        stmt=f"weight class {wc} not gated")
                        continue
                    if c.name not in CONTAINERS:
                        continue
                    nregions += 1
                    exp = cfg.expected(label, q)
                    for p in paths:
                        if exp == "raise":
                            ok = p.outcome == "raise"
                        else:
                            ok = p.outcome != "raise" and p.fills == exp
                        r2.ob(ok, f"{cfg.desc}: {label} -> {sorted(p.fills) if p.outcome != 'raise' else 'raise'}")
                        if not ok:
                            got = "raises " + (p.raises[0] if p.raises else "") if p.outcome == "raise" else (sorted(p.fills) or "no child")
                            rep.finding(
                                "R2.2", fill, fill.node,
                                f"{cfg.desc}: a datum in region `{label}` (weight > 0) goes to {got}, the specification says "
                                f"{sorted(exp) if exp != 'raise' else 'TypeError'}",
                                stmt=f"{label.replace(' ', '')}: routed to {got if isinstance(got, str) else [g[0] for g in got]}",
                                path=f"{c.name}.fill, region {label}",
                            )
    rep.extra["regions_enumerated"] = nregions
    from .c03 import coverage_guard
    coverage_guard(repo, prims, names=("fill",), rep=rep)
    # ---------------- R2.3 formulas vs specification
    n, m_, s_, q, w = (Rat.sym(x) for x in ("N", "M", "S", "q", "weight"))
    spec = {
        "Count": {"entries": lambda st: st["entries"] + Rat.sym("t")},
        "Sum": {"entries": lambda st: st["entries"] + w, "sum": lambda st: st["sum"] + q * w},
        "Average": {"entries": lambda st: st["entries"] + w,
                    "mean": lambda st: (st["entries"] * st["mean"] + w * q) / (st["entries"] + w)},
        "Deviate": {"entries": lambda st: st["entries"] + w,
                    "mean": lambda st: (st["entries"] * st["mean"] + w * q) / (st["entries"] + w),
                    "varianceTimesEntries": lambda st: st["varianceTimesEntries"] + st["entries"] * w * (q - st["mean"]) * (q - st["mean"]) / (st["entries"] + w)},
    }
    for cname, table in spec.items():
        c = repo.cls(cname)
        fill = repo.own_method(c, "fill")
        fields = models[cname].acc
        try:
            got = fill_state(fill, fields, LeafScenario(self_empty=False, selfname=fill.params[0]))
        except Unsupported as e:
            raise AnalysisError(f"{fill.construct}: formula extraction failed: {e}")
        sn = fill.params[0]
        st = {f: Rat.sym(f"{sn}.{f}") for f in fields}
        for fld, fn in table.items():
            want = fn(st)
            ok = got[fld].equals(want)
            r3.ob(ok, f"{cname}.fill: {fld}' = {got[fld]!r}")
            if not ok:
                rep.finding("R2.3", fill, fill.node, f"after fill (finite datum, non-empty node) `{fld}` = {got[fld]!r}; the specification "
                            f"requires {want!r}", stmt=f"{fld} update formula")
    # Bag: values[q] += weight and entries += weight
    bag = repo.cls("Bag")
    upd = repo.own_method(bag, "_update")
    okb = False
    for nnode in walk_local_stmt(upd.node):
        if isinstance(nnode, ast.AugAssign) and isinstance(nnode.op, ast.Add) and ast.unparse(nnode.target).replace(" ", "") == f"{upd.params[0]}.values[{upd.params[1]}]" \
                and ast.unparse(nnode.value) == upd.params[2]:
            okb = True
    r3.ob(okb, "Bag._update: values[q] += weight")
    if not okb:
        rep.finding("R2.3", upd, upd.node, "Bag does not add `weight` to `values[q]`", stmt="Bag values update")
    # min/max: decision table of fill over (current extremum: NaN | number) x (region of q relative to it)
    from ..interp import Machine, Obj, Opaque, OrderLine, W, explore, Pos
    from ..routing import Config, _common, numeric_regions, PathResult
    for cname, fld, smaller in (("Minimize", "min", True), ("Maximize", "max", False)):
        c = repo.cls(cname)
        fill = repo.own_method(c, "fill")
        line = OrderLine(["cur"])
        for cur_label, cur in (("empty (NaN)", NAN), ("number", line.pos_of("cur"))):
            def fields(cur=cur):
                return _common({fld: cur})
            cfg = Config(c, line, fields, numeric_regions(line), lambda l, q: set(), {}, f"{cname} with {fld} {cur_label}")
            for label, q in cfg.regions:
                try:
                    paths = run_fill(repo, cfg, label, q, "pos")
                except Unsup as e:
                    raise AnalysisError(f"{fill.construct}: {e}")
                for p in paths:
                    stores = [a for a in p.accs if a[1] == fld]
                    newv = stores[-1][2] if stores else cur
                    # expected value class
                    if cur is NAN:
                        want = q            # the first datum becomes the extremum (NaN stays NaN)
                        ok = (newv is q) or (q is NAN and newv is NAN)
                    elif q is NAN:
                        want = cur
                        ok = newv is cur
                    else:
                        k, kc = q.k, cur.k
                        better = (k < kc) if smaller else (k > kc)
                        if k == kc:
                            ok = newv is cur or newv is q     # same value either way
                            want = cur
                        else:
                            want = q if better else cur
                            ok = newv is want
                    r3.ob(ok, f"{cname}.fill: {fld} is {cur_label}, datum {label} -> {fld} = {newv!r}")
                    if not ok:
                        rep.finding("R2.3", fill, fill.node, f"{cname}.fill with `{fld}` {cur_label} and a datum in region `{label}` (relative "
                                    f"to the current {fld}) leaves `{fld}` = {newv!r}; the {'minimum' if smaller else 'maximum'} ignoring "
                                    f"NaN is {want!r}", stmt=f"{fld}: {cur_label}, {label.replace(' ', '')}")
    # ---------------- R2.4: non-finite data - the IEEE class of mean (and variance) after one fill, over all class pairs
    from .. import fclass as fc
    classes = [("finite", fc.fin()), ("+inf", fc.PINF), ("-inf", fc.NINF), ("nan", fc.NAN)]

    def want_mean(state, q):
        """class of the weighted mean of (previous data summarised by the mean's class) + one more datum"""
        if state == "empty":
            return q
        if "nan" in (state, q):
            return "nan"
        if state == "finite":
            return q
        if q == "finite" or q == state:
            return state
        return "nan"            # +inf and -inf together

    for cname in ("Average", "Deviate"):
        c = repo.cls(cname)
        fill = repo.own_method(c, "fill")
        rep.analysed_functions.add(fill.construct)
        m = models[cname]
        sn = fill.params[0]
        tracked = ["entries", "mean"] + (["varianceTimesEntries"] if cname == "Deviate" else [])
        wname = fill.params[2] if len(fill.params) > 2 else "weight"
        reached = set()
        for state in ["empty"] + [l for l, _ in classes]:
            for qlabel, qv in classes:
                env = {wname: fc.fin(1), fill.params[1]: ("obj", "datum")}
                if state == "empty":
                    env[f"{sn}.entries"] = fc.fin(0)
                    env[f"{sn}.mean"] = fc.NAN           # the placeholders __init__ sets
                    env[f"{sn}.varianceTimesEntries"] = fc.NAN
                else:
                    env[f"{sn}.entries"] = fc.fin(1)
                    env[f"{sn}.mean"] = dict(classes)[state]
                    env[f"{sn}.varianceTimesEntries"] = fc.fin() if state == "finite" else fc.NAN
                it = fc.Interp(repo, c, tracked, calls={f"{sn}.quantity": qv})
                try:
                    paths = it.run(fill, env)
                except fc.Unsupported as e:
                    raise AnalysisError(f"{fill.construct}: float-class interpretation failed: {e}")
                reached |= it.visited
                wm = want_mean(state, qlabel)
                for pth in paths:
                    if pth.outcome == "raise":
                        r4.ob(False)
                        rep.finding("R2.4", fill, fill.node, f"{cname}.fill raises for a numeric datum ({qlabel}) with positive weight",
                                    stmt=f"raise: {state}/{qlabel}")
                        continue
                    got = pth.env[f"{sn}.mean"]
                    ok = got.label == wm
                    r4.ob(ok, f"{cname}.fill: mean {state}, datum {qlabel} -> mean {got.label}")
                    if not ok:
                        rep.finding("R2.4", fill, fill.node, f"{cname}.fill with a {'n empty node' if state == 'empty' else 'mean that is ' + state} and a datum "
                                    f"that is {qlabel} leaves `mean` {got.label} (branches taken at lines "
                                    f"{[ln for ln, b in pth.trail if b]}); the weighted mean of these data is {wm}"
                                    + (" (opposite infinities cancel to NaN)" if wm == "nan" and "nan" not in (state, qlabel) else ""),
                                    stmt=f"mean: {state}/{qlabel} -> {got.label}")
                    if cname == "Deviate":
                        gv = pth.env[f"{sn}.varianceTimesEntries"]
                        wv = "finite" if wm == "finite" else "nan"
                        okv = gv.label == wv
                        r4.ob(okv, f"Deviate.fill: mean {state}, datum {qlabel} -> varianceTimesEntries {gv.label}")
                        if not okv:
                            rep.finding("R2.4", fill, fill.node, f"Deviate.fill with a {'n empty node' if state == 'empty' else 'mean that is ' + state} and a datum "
                                        f"that is {qlabel} leaves `varianceTimesEntries` {gv.label}; the specification gives {wv} "
                                        "(any non-finite value makes the variance NaN)", stmt=f"variance: {state}/{qlabel} -> {gv.label}")
                    ge = pth.env[f"{sn}.entries"]
                    oke = ge.cls == "fin" and ge.sign == 1
                    r4.ob(oke, f"{cname}.fill: entries stay finite and positive")
                    if not oke:
                        rep.finding("R2.4", fill, fill.node, f"{cname}.fill: `entries` after a fill with positive weight is {ge!r}",
                                    stmt=f"entries: {state}/{qlabel}")

    # ---------------- R2.5 Bag: every numeric key (component) is NaN-normalised before it indexes the value-to-weight map
    datum_forwarding_rule(repo, rep, prims, "fill")
    index_inverts_edges_rule(repo, rep)
    r5 = rep.rule("R2.5", "Bag fill path: numeric key components pass through the NaN-normalising converter (NaN is not equal to itself as a dict key)", floor=2)
    bag_key_normalisation(repo, rep, r5, "R2.5")


def want_mean_class(state, q):
    """IEEE class of the weighted mean of data summarised by a mean of class `state` together with data of class `q`"""
    if "nan" in (state, q):
        return "nan"
    if state == "finite":
        return q
    if q == "finite" or q == state:
        return state
    return "nan"


def nan_normalisers(repo):
    um = repo.modules.get("histogrammar.util")
    out = set()
    for fn in (um.functions.values() if um else []):
        has_isnan = any(isinstance(x, ast.Call) and ast.unparse(x.func) in ("math.isnan", "np.isnan", "numpy.isnan") for x in ast.walk(fn.node))
        ret_nan = any(isinstance(x, ast.Return) and isinstance(x.value, ast.Constant) and x.value.value == "nan" for x in ast.walk(fn.node))
        if has_isnan and ret_nan:
            out.add(fn.name)
    if not out:
        raise AnalysisError("no NaN-normalising converter found in histogrammar.util (floatOrNan expected)")
    return out


def key_definitions(fn, slot="values"):
    """The expressions that (transitively, through plain copies) define the key used in `self.<slot>[key]` in fn:
    [(assign node, expression)] - decided by def-use, not by the names of the locals."""
    sn = fn.params[0]
    keys = set()
    for n in walk_local_stmt(fn.node):
        if isinstance(n, ast.Subscript) and isinstance(n.value, ast.Attribute) and n.value.attr == slot and isinstance(n.value.value, ast.Name) \
                and n.value.value.id == sn and isinstance(n.slice, ast.Name):
            keys.add(n.slice.id)
    defs = []
    seen = set()
    work = list(keys)
    while work:
        k = work.pop()
        if k in seen:
            continue
        seen.add(k)
        for n in walk_local_stmt(fn.node):
            if isinstance(n, ast.Assign) and any(isinstance(t, ast.Name) and t.id == k for t in n.targets):
                defs.append((n, n.value))
                for x in ast.walk(n.value):
                    if isinstance(x, ast.Name) and x.id not in seen:
                        work.append(x.id)
    return keys, defs


def bag_key_normalisation(repo, rep, r5, rule):
    bag = repo.cls("Bag")
    normalisers = nan_normalisers(repo)
    fn = None
    for cand in ("fill", "_update"):
        f = repo.lookup(bag, cand)
        if f is not None and key_definitions(f)[0]:
            fn = f
            break
    if fn is None:
        raise AnalysisError("Bag: no function that stores into self.values[key] found on the fill path")
    rep.analysed_functions.add(fn.construct)
    keys, defs = key_definitions(fn)
    nconv = 0
    for n, v in defs:
        convs = [x for x in ast.walk(v) if isinstance(x, ast.Call) and isinstance(x.func, ast.Name) and x.func.id in normalisers | {"float", "int"}]
        uses_norm_name = any(isinstance(x, ast.Name) and x.id in normalisers for x in ast.walk(v))
        if not convs and not uses_norm_name:
            continue
        nconv += 1
        raw = []

        def scan(e, inside_norm):
            if isinstance(e, ast.Call) and isinstance(e.func, ast.Name):
                if e.func.id in normalisers:
                    inside_norm = True
                elif e.func.id in ("float", "int") and not inside_norm:
                    raw.append(e)
            for ch in ast.iter_child_nodes(e):
                scan(ch, inside_norm)
        scan(v, False)
        ok = not raw
        r5.ob(ok, f"{fn.qualname}: `{norm(n)[:70]}`")
        if not ok:
            rep.finding(rule, fn, n, f"`{norm(n)[:80]}` builds the key of the value-to-weight map without {sorted(normalisers)}: a NaN (component) "
                        f"becomes a float NaN key, which is not equal to itself - every fill of the same NaN-containing value creates a new "
                        f"entry instead of adding its weight to the existing one (and the JSON round trip drops duplicates)",
                        stmt=f"bag key without NaN normalisation: {norm(n)[:50]}")
    if nconv == 0:
        raise AnalysisError(f"{fn.qualname}: no numeric conversion of the Bag key found (floatOrNan expected)")


def datum_forwarding_rule(repo, rep, prims, method="fill"):
    """R2.6 / R3.11: a sub-aggregator computes its own quantity from the record: every child fill must be handed the caller's
    datum itself (fill) / the caller's data (`_numpy`; or `None` for a pre-summed Count, or a row-selection `data[mask]`), never a
    value derived from it such as the parent's quantity."""
    rid = "R2.6" if method == "fill" else "R3.11"
    r = rep.rule(rid, f"every child {method} is handed the caller's {'datum' if method == 'fill' else 'data'} itself, not a value derived from it", floor=15)
    from ..astutil import walk_local_stmt as _walk
    for c in prims:
        f = repo.own_method(c, method)
        if len(f.params) < 2:
            continue
        dparam = f.params[1]
        sn = f.params[0]
        # plain aliases of the record (`record = datum`)
        aliases = {dparam}
        for st in _walk(f.node):
            if isinstance(st, ast.Assign) and len(st.targets) == 1 and isinstance(st.targets[0], ast.Name) and isinstance(st.value, ast.Name) and st.value.id in aliases:
                aliases.add(st.targets[0].id)
        for n in _walk(f.node):
            if not (isinstance(n, ast.Call) and isinstance(n.func, ast.Attribute) and n.func.attr == method and n.args):
                continue
            recv = n.func.value
            if isinstance(recv, ast.Name) and recv.id == sn:
                continue            # self.fill(...) is not a child
            if isinstance(recv, ast.Call) and isinstance(recv.func, ast.Name) and recv.func.id == "super":
                continue
            a0 = n.args[0]
            ok = isinstance(a0, ast.Name) and a0.id in aliases
            if not ok and isinstance(a0, ast.Constant) and a0.value is None:
                ok = True           # a pre-summed amount for a Count (which ignores its first argument)
            if not ok and method == "_numpy" and isinstance(a0, ast.Subscript) and isinstance(a0.value, ast.Name) and a0.value.id in aliases:
                ok = True           # the rows of the batch selected by a mask
            r.ob(ok, f"{f.qualname}: `{ast.unparse(n)[:60]}`")
            if not ok:
                rep.finding(rid, f, n, f"`{ast.unparse(n)[:80]}` hands the sub-aggregator `{ast.unparse(a0)[:40]}` instead of the record `{dparam}`: the "
                            f"child's own quantity is then evaluated on a derived value (the parent's quantity), so whatever it accumulates is a "
                            f"function of the wrong input (or raises) whenever its quantity differs from the identity", stmt=f"child {method}({ast.unparse(a0)[:30]}, ...)")


def index_inverts_edges_rule(repo, rep):
    """R2.7: the real-valued index that `bin(x)` takes the floor of is the inverse of the class's own edge function: at the lower
    edge of bin K (first element of `range(K)`) it evaluates to K, as an identity of rational functions in the parameters.  With
    that, floor(index(x)) is the bin whose documented interval [range(K)) contains x."""
    from ..poly import formula
    from ..loader import FuncInfo
    from .c03 import _expand_properties, scalar_floor_exprs
    r = rep.rule("R2.7", "the index formula of bin() inverts the edge function of range(): index(lowEdge(K)) == K", floor=2)

    def opaque(e, env):
        if isinstance(e.func, ast.Name) and e.func.id == "len" and len(e.args) == 1:
            return Rat.sym("len(" + ast.unparse(e.args[0]).replace(" ", "") + ")")
        raise Unsupported(f"call {ast.unparse(e)}")

    for cname in ("Bin", "SparselyBin"):
        c = repo.cls(cname)
        b, rg = repo.lookup(c, "bin"), repo.lookup(c, "range")
        if not (isinstance(b, FuncInfo) and isinstance(rg, FuncInfo)):
            raise AnalysisError(f"{cname}.bin / {cname}.range not found")
        fl = scalar_floor_exprs(b)
        if not fl:
            continue
        # range(): first element of the returned tuple, locals expanded
        defs = {}
        for st in walk_local_stmt(rg.node):
            if isinstance(st, ast.Assign) and len(st.targets) == 1 and isinstance(st.targets[0], ast.Name):
                defs.setdefault(st.targets[0].id, []).append(st.value)

        def expand(e, depth=0):
            class X(ast.NodeTransformer):
                def visit_Name(self, n):
                    if isinstance(n.ctx, ast.Load) and n.id not in rg.params and len(defs.get(n.id, [])) == 1 and depth < 4:
                        return expand(defs[n.id][0], depth + 1)
                    return n
            return X().visit(copy.deepcopy(e))
        rets = [n.value for n in walk_local_stmt(rg.node) if isinstance(n, ast.Return) and n.value is not None]
        lows = []
        for v in rets:
            v = expand(v)
            if isinstance(v, ast.Tuple) and len(v.elts) == 2:
                lows.append(v.elts[0])
        if not lows:
            raise AnalysisError(f"{cname}.range does not return a (low edge, high edge) tuple")
        kparam = rg.params[1]
        sn_r, sn_b = rg.params[0], b.params[0]
        for node, e in fl:
            try:
                idx = formula(_expand_properties(repo, c, e, {sn_b}), {}, opaque)
                ok_any = False
                for low in lows:
                    lo = formula(_expand_properties(repo, c, low, {sn_r}), {}, opaque)
                    if sn_r != sn_b:
                        lo = lo.rename({s0: s0.replace(sn_r + ".", sn_b + ".", 1) for s0 in lo.symbols() if s0.startswith(sn_r + ".")})
                    got = idx.subst({"X": lo})
                    if got.equals(Rat.sym(kparam)):
                        ok_any = True
            except Unsupported as ex:
                raise AnalysisError(f"{cname}.bin/range: {ex}")
            r.ob(ok_any, f"{cname}: index(lowEdge({kparam})) == {kparam}")
            if not ok_any:
                rep.finding("R2.7", b, node, f"{cname}.bin takes the floor of `{ast.unparse(e)[:70]}`, which at the lower edge of bin {kparam} given by "
                            f"{cname}.range() does not evaluate to {kparam}: data are stored under indexes that disagree with the documented "
                            f"intervals (range/low/high) of the bins", stmt=f"{cname}: index formula does not invert range()")
