"""C03 - vectorised (numpy) fill is observationally equal to per-row fill."""

import ast

from ..astutil import walk_local_stmt
from ..formulas import LeafScenario, add_state, opaque_user, run_body
from ..interp import NAN, Arith, Arr, Machine, Num, Obj, Opaque, OrderLine, Pos, Scaled, Unsup, W, explore, is_nan
from ..loader import AnalysisError, FuncInfo, Module, norm, primitives
from ..model import build_models
from ..poly import Rat, Unsupported
from ..routing import CONTAINERS, LEAVES, WEIGHT_CLASSES_NUMPY, Config, configs, run_fill, run_numpy, weight_kind
from .c02 import all_configs
from .c05 import entries_kinds, numpy_variants

# statements of fill/_numpy that the scenarios need not reach, keyed by normalised text (one reason each)
UNCOVERED_OK = {
    "q = np.array(q)": "input normalisation for a list/tuple column (the quantity returns an ndarray in every scenario)",
    "q = numpy.array(q)": "input normalisation for a list/tuple column",
}


def is_input_normalisation(n):
    """`x = np.array(x)`: a list/tuple column is turned into an array (the quantity returns an ndarray in every scenario)"""
    return (isinstance(n, ast.Assign) and len(n.targets) == 1 and isinstance(n.targets[0], ast.Name) and isinstance(n.value, ast.Call)
            and ast.unparse(n.value.func) in ("np.array", "numpy.array", "np.asarray", "numpy.asarray") and len(n.value.args) == 1
            and isinstance(n.value.args[0], ast.Name) and n.value.args[0].id == n.targets[0].id)


def content_effect_fill(paths, content_fields):
    """Does one row influence the node's content fields in the scalar path?  {'none','value','poison'} over all paths."""
    out = set()
    for p in paths:
        if p.outcome == "raise":
            continue
        eff = "none"
        for a in p.accs:
            fld = a[1].split("[")[0]
            if fld == "entries" or fld not in content_fields:
                continue
            v = a[2]
            nanv = v is NAN or is_nan(v) or (isinstance(v, Scaled) and (v.q is NAN))
            if nanv:
                # storing NaN into a field that was just tested to be NaN changes nothing
                into_nan = any(c and f"isnan(self.{fld})" in why.replace(" ", "") for (c, why) in p.machine.choices)
                if not into_nan:
                    eff = "poison"
            elif eff != "poison":
                eff = "value"
        for ins in p.inserts:
            if ins[1] in content_fields:
                eff = "value" if eff == "none" else eff
        out.add(eff)
    return out


def content_effect_numpy(paths):
    out = set()
    for p in paths:
        if p.outcome == "raise":
            continue
        eff = "none"
        for e in p.effects:
            if e[0] == "reduce":
                _, kind, row, sel = e
                if isinstance(row, W) or (isinstance(row, Num)):
                    continue  # a reduction over the weights (entries)
                if sel is True:
                    nanv = row is NAN or is_nan(row) or (isinstance(row, Scaled) and row.q is NAN) or (isinstance(row, Arith) and row.base is NAN)
                    eff = "poison" if nanv else ("value" if eff != "poison" else eff)
        for a in p.accs:
            fld = a[1].split("[")[0]
            if fld == "values" and a[0] == "acc+":
                eff = "value" if eff == "none" else eff
            # (a NaN stored because the *state* is non-finite is not an influence of this row)
        for ins in p.inserts:
            if ins[1] == "values":
                eff = "value" if eff == "none" else eff
        out.add(eff)
    return out


def aggregated_delivery_needs_identity(repo, rep, prims):
    """R3.13: a fast path that hands a child the AGGREGATED weight of several rows - it adds a histogram count to `child.entries`, or
    calls `child._numpy(None, count, [None])` - is only the same as filling row by row when the child is a Count whose transform is the
    identity (transform(sum w) != sum transform(w) in general).  Every such site must be controlled by a test of `transform is identity`."""
    from .. import cfg as cfgmod

    r13 = rep.rule("R3.13", "fast paths that deliver an aggregated weight to Count children are guarded by `transform is identity`", floor=3)
    for c in prims:
        f = c.methods.get("_numpy")
        if f is None or c.name == "Count":
            continue
        sn = f.params[0]
        g = cfgmod.build(f.node)
        tcd = g.transitive_control_deps()
        for nd in g.nodes:
            if nd.kind != "stmt" or nd.ast is None:
                continue
            sites = []
            st = nd.ast
            if isinstance(st, (ast.AugAssign, ast.Assign)):
                for t in (st.targets if isinstance(st, ast.Assign) else [st.target]):
                    if isinstance(t, ast.Attribute) and t.attr == "entries" and not (isinstance(t.value, ast.Name) and t.value.id == sn):
                        sites.append((t, f"`{ast.unparse(t)[:40]}` is written directly"))
            for x in ast.walk(st):
                if isinstance(x, ast.Call) and isinstance(x.func, ast.Attribute) and x.func.attr in ("_numpy", "fill") and x.args and isinstance(x.args[0], ast.Constant) and x.args[0].value is None:
                    sites.append((x, f"`{ast.unparse(x)[:50]}` hands the child one aggregated weight"))
            for site, what in sites:
                ctl = [g.nodes[x[0]] for x in tcd.get(nd.id, set())]
                ok = any(t.ast is not None and any(isinstance(y, ast.Compare) and len(y.ops) == 1 and isinstance(y.ops[0], ast.Is) and isinstance(y.left, ast.Attribute)
                                                   and y.left.attr == "transform" and "identity" in ast.unparse(y.comparators[0]) for y in ast.walk(t.ast)) for t in ctl)
                rep.analysed_functions.add(f.construct)
                r13.ob(ok, f"{c.name}._numpy line {nd.lineno}: aggregated delivery under `transform is identity`")
                if not ok:
                    rep.finding("R3.13", f, site, f"{what} on a fast path that is not guarded by `<child>.transform is identity`: for a Count with another transform the "
                                f"child receives transform(sum of the weights) where filling row by row adds the sum of transform(weight) - the bin contents differ "
                                f"as soon as two rows of one batch share a bin", stmt=f"aggregated weight delivered without the identity guard: {ast.unparse(site)[:40]}")


def transformed_rows_masked(repo, rep):
    """R3.14: Count.fill applies the transform only to a weight > 0.  Every container masks the rows that are not for a bin by setting
    their weight to 0, so Count._numpy sees zeros for the rows of the other bins: a transform with transform(0) != 0 must not be
    summed over them.  Accepted idioms in the weight-array branch: the transform is applied to `w[w > 0]`, or its result is masked
    (`t[w > 0]`, `numpy.where(w > 0, t, 0)`) before it is summed."""
    r14 = rep.rule("R3.14", "Count._numpy applies a non-identity transform only to rows whose weight is > 0 (as fill does)", floor=1)
    c = repo.cls("Count")
    f = repo.own_method(c, "_numpy")
    sn = f.params[0]
    wp = f.params[2]

    def pos_mask(e):
        return isinstance(e, ast.Compare) and len(e.ops) == 1 and ((isinstance(e.ops[0], ast.Gt) and isinstance(e.left, ast.Name) and e.left.id == wp
                                                                     and isinstance(e.comparators[0], ast.Constant) and e.comparators[0].value == 0)
                                                                    or (isinstance(e.ops[0], ast.Lt) and isinstance(e.comparators[0], ast.Name) and e.comparators[0].id == wp
                                                                        and isinstance(e.left, ast.Constant) and e.left.value == 0))

    masked_names = set()
    for n in walk_local_stmt(f.node):
        if isinstance(n, ast.Assign) and len(n.targets) == 1 and isinstance(n.targets[0], ast.Name):
            v = n.value
            if isinstance(v, ast.Subscript) and isinstance(v.value, ast.Name) and v.value.id == wp and pos_mask(v.slice):
                masked_names.add(n.targets[0].id)
    for n in walk_local_stmt(f.node):
        if isinstance(n, ast.Call) and isinstance(n.func, ast.Attribute) and n.func.attr == "transform" and isinstance(n.func.value, ast.Name) and n.func.value.id == sn and n.args:
            a0 = n.args[0]
            if not (isinstance(a0, ast.Name) and a0.id == wp or (isinstance(a0, ast.Subscript) and isinstance(a0.value, ast.Name) and a0.value.id == wp) or (
                    isinstance(a0, ast.Name) and a0.id in masked_names)):
                continue            # a scalar weight wrapped in an array etc.: the scalar branches are R3.7's
            ok = (isinstance(a0, ast.Subscript) and pos_mask(a0.slice)) or (isinstance(a0, ast.Name) and a0.id in masked_names)
            if not ok and isinstance(a0, ast.Name) and a0.id == wp:
                # is this the weight-ARRAY branch?  (the scalar branches also call transform(weights))
                pm = {}
                for x in ast.walk(f.node):
                    for ch in ast.iter_child_nodes(x):
                        pm[ch] = x
                cur, in_array = n, False
                while cur in pm:
                    par = pm[cur]
                    if isinstance(par, ast.If) and "ndarray" in ast.unparse(par.test) and any(cur is y or any(cur is z for z in ast.walk(y)) for y in par.body):
                        in_array = True
                    cur = par
                if not in_array:
                    continue
                # result masked before summing?
                tgt = pm.get(n)
                res = tgt.targets[0].id if isinstance(tgt, ast.Assign) and len(tgt.targets) == 1 and isinstance(tgt.targets[0], ast.Name) else None
                if res:
                    for x in walk_local_stmt(f.node):
                        if isinstance(x, ast.Subscript) and isinstance(x.value, ast.Name) and x.value.id == res and pos_mask(x.slice):
                            ok = True
                        if isinstance(x, ast.Call) and isinstance(x.func, ast.Attribute) and x.func.attr == "where" and len(x.args) == 3 and pos_mask(x.args[0]) \
                                and isinstance(x.args[1], ast.Name) and x.args[1].id == res:
                            ok = True
            r14.ob(ok, f"Count._numpy: `{ast.unparse(n)[:50]}` sees only rows with weight > 0")
            if not ok:
                rep.finding("R3.14", f, n, f"`{ast.unparse(n)[:60]}` transforms every row of the weight array, the rows with weight 0 included: containers mask the rows of "
                            f"other bins by zeroing their weight, and fill() skips a weight that is not > 0, so for a transform with transform(0) != 0 each bin's "
                            f"Count grows by transform(0) for every row of the batch that is NOT in the bin", stmt="transform applied to zero-weight rows")


def run(repo, rep, tier):
    rep.extra["explanation"] = (
        "Row-wise abstract interpretation of all 19 _numpy bodies (one generic row: order-type region of q[i] x class of "
        "weights[i] in {0, 1, >0}; scalar and array weights; children Count or not; shape known or not; every data-dependent "
        "np.all(...) forks so both the fast and the slow path are explored) compared with the abstract interpretation of the "
        "scalar fill: (R3.1) same multiset {(child slot, weight)} up to zero weights for containers and same influence of "
        "the row on the accumulators for leaves (NaN rows included); (R3.2) entries grows by the sum of the unmasked caller "
        "weights; (R3.3) no value that may alias the caller's arrays (data, weights, the quantity's result, "
        "_makeNPWeights's result) is ever written; (R3.4) the slots visited by _numpy are those fill can fill; (R3.5) the "
        "batch-merge formulas of Average/Deviate._numpy are the rational functions of __add__. Every statement of every fill "
        "and _numpy must be reached by some scenario (else ANALYSIS-ERROR). Equality of floating-point reductions and "
        "np.unique key creation order are NOT decided."
    )
    rep.extra["explanation"] += " " + (
        'Later additions: (R3.6) a one-row batch changes a Minimize/Maximize exactly as fill does (all regions relative to the current extremum, weight 0 and >0); (R3.7) Count adds (per-row increment) x (number of rows) on every branch; Stack with descending thresholds; (+-inf) x (zero weight) is NaN.'
    )
    rep.not_decided += ["equality of floating-point reductions (np.average, summation order)", "data-dependent key creation order",
                        "negative weights (outside the property)",
                        "Categorize with a non-string, non-NaN numeric quantity: the scalar fill raises TypeError there, so the "
                        "comparison is outside the property"]
    rep.assumptions += [
        "np.histogram with a range keeps [low, high] and puts `high` in the last bin; with explicit edges bins are [e_i, e_{i+1}) and the last is closed",
        "np.unique partitions the selected rows by value; NaN/+-inf cast to int64 yields INT64_MIN",
        "every numpy operation used is elementwise or a reduction (closed vocabulary; anything else is ANALYSIS-ERROR)",
    ]
    prims, _ = primitives(repo)
    models = build_models(repo)
    r1 = rep.rule("R3.1", "per region and weight class, _numpy has the same effect as fill (all fast/slow paths)", floor=800)
    r2 = rep.rule("R3.2", "entries grows by the sum of the unmasked caller weights", floor=400)
    r3 = rep.rule("R3.3", "arrays that may alias the caller's inputs are never written", floor=400)
    r4 = rep.rule("R3.4", "_numpy visits the same child slots as fill", floor=12)
    r5 = rep.rule("R3.5", "Average/Deviate._numpy merge the batch with the rational functions of __add__", floor=3)
    Machine.COVERED.clear()
    for c in prims:
        fill = repo.own_method(c, "fill")
        npf = repo.own_method(c, "_numpy")
        rep.analysed_functions.add(npf.construct)
        m = models[c.name]
        content = set(m.acc) - {"entries"}
        slots_fill, slots_np = set(), set()
        for cfg in all_configs(repo, c.name, tier):
            for label, q in cfg.regions:
                try:
                    fpaths = run_fill(repo, cfg, label, q, "pos")
                    fzero = run_fill(repo, cfg, label, q, "zero")
                except Unsup as e:
                    raise AnalysisError(f"{fill.construct}: {e}")
                for p in fpaths:
                    slots_fill |= p.all_fill_slots
                scalar_raises = all(p.outcome == "raise" for p in fpaths)
                fill_sets = {frozenset(p.fills) for p in fpaths if p.outcome != "raise"}
                for wc in WEIGHT_CLASSES_NUMPY:
                    for wform in ("array", "scalar"):
                        for cc, sk in numpy_variants(c.name):
                            try:
                                npaths = run_numpy(repo, cfg, label, q, wc, wform, cc, sk)
                            except Unsup as e:
                                raise AnalysisError(f"{npf.construct}: unsupported construct ({cfg.desc}, {label}, {wform} weight {wc}): {e}")
                            how = f"{wform} weight {wc}, children {'Count' if cc else 'other'}" + (", shape known" if sk else "")
                            for p in npaths:
                                slots_np |= p.all_fill_slots
                                # ---------------- R3.3
                                wr = p.machine.writes_to_inputs
                                r3.ob(not wr, f"{cfg.desc} [{how}] {label}: no write into an input array")
                                for st, name in wr:
                                    rep.finding("R3.3", npf, st if st is not None else npf.node,
                                                f"the array `{name}` may be the caller's own array (the identity quantity returns its argument; "
                                                f"_makeNPWeights returns a weight array as is) and is written here: fill.numpy modifies its input",
                                                stmt=f"write into {name}: {norm(st)[:60] if st is not None else 'ufunc out='}")
                                if scalar_raises or p.outcome == "raise":
                                    continue
                                # ---------------- R3.1
                                if c.name in CONTAINERS:
                                    want = fill_sets if wc != "zero" else {frozenset()}
                                    ok = frozenset(p.fills) in want
                                    r1.ob(ok, f"{cfg.desc} [{how}] {label}: {sorted(p.fills)}")
                                    if not ok:
                                        rep.finding(
                                            "R3.1", npf, npf.node,
                                            f"{cfg.desc}, {how}: a row in region `{label}` is delivered to {sorted(p.fills) or 'no child'} by "
                                            f"fill.numpy but to {[sorted(x) for x in want]} by fill",
                                            stmt=f"{label.replace(' ', '')}: numpy {sorted(s for s, k in p.fills)} vs fill {sorted(sorted(s for s, k in x) for x in want)}",
                                            path=f"{c.name}._numpy, region {label}, {how}",
                                        )
                                elif c.name != "Count" and p is npaths[0]:
                                    # leaves: does the row influence the accumulated content at all?  Decided over all paths of the
                                    # scenario (paths forked on the unknown current state are not all feasible together)
                                    fe = content_effect_fill(fpaths if wc != "zero" else fzero, content)
                                    ne = content_effect_numpy([x for x in npaths if x.outcome != "raise"])
                                    infl_f = any(e != "none" for e in fe)
                                    infl_n = any(e != "none" for e in ne)
                                    ok = infl_n == infl_f
                                    r1.ob(ok, f"{cfg.desc} [{how}] {label}: row influence numpy={sorted(ne)} fill={sorted(fe)}")
                                    if not ok:
                                        rep.finding(
                                            "R3.1", npf, npf.node,
                                            f"{c.name}: a row in region `{label}` with positive weight " + ("influences" if infl_n else "does not influence") +
                                            f" the accumulated {sorted(content)} in fill.numpy, but " + ("does" if infl_f else "does not") +
                                            f" in fill (fill: {sorted(fe)}, numpy: {sorted(ne)})",
                                            stmt=f"{label.replace(' ', '')}: numpy {sorted(ne)} vs fill {sorted(fe)}",
                                        )
                                # ---------------- R3.2
                                if wc != "zero":
                                    ek = entries_kinds(p)
                                    ok = len(ek) == 1 and (ek[0] == "weight" or ek[0].startswith("opaque:weight[")) if c.name != "Count" else len(ek) == 1
                                    r2.ob(ok, f"{cfg.desc} [{how}] {label}: entries += {ek}")
                                    if not ok:
                                        rep.finding("R3.2", npf, npf.node, f"{cfg.desc}, {how}, region `{label}`: entries grows by {ek or 'nothing'} for "
                                                    f"this row; the scalar path counts every row with positive weight (NaN rows included), so it must "
                                                    f"be the unmasked caller weight", stmt=f"{label.replace(' ', '')}: entries += {ek}")
        if c.name in CONTAINERS:
            slots_np = {x for x in slots_np if not x.endswith("[another row's key]")}   # the same slot, another row's bin
            ok = slots_np == slots_fill
            r4.ob(ok, f"{c.name}: _numpy visits {sorted(slots_np)}, fill fills {sorted(slots_fill)}")
            if not ok:
                rep.finding("R3.4", npf, npf.node, f"_numpy hands batches to {sorted(slots_np)} but fill fills {sorted(slots_fill)}: a child that one "
                            f"path never visits keeps no record of the batch", stmt=f"slots {sorted(slots_np ^ slots_fill)}")
    extrema_tables(repo, rep)
    count_multiplicity(repo, rep)
    index_formula_rule(repo, rep)
    batch_average_rule(repo, rep, prims)
    count_sees_length_rule(repo, rep)
    saturation_rule(repo, rep)
    from .c02 import datum_forwarding_rule
    datum_forwarding_rule(repo, rep, prims, "_numpy")
    coverage_guard(repo, prims, rep=rep)
    positive_control(repo, rep, r3)
    merge_formulas(repo, rep, r5, models)


def count_multiplicity(repo, rep):
    """R3.7: Count._numpy adds, per batch, what fill adds per row times the number of rows: a weight array is summed; a scalar
    weight with a known batch length is multiplied by that length (on the identity AND on the transform path); only an
    isolated Count with a scalar weight and no length counts the weight once."""
    aggregated_delivery_needs_identity(repo, rep, primitives(repo)[0])
    transformed_rows_masked(repo, rep)
    r7 = rep.rule("R3.7", "Count._numpy: the batch increment is (per-row increment) x (number of rows) on every branch", floor=8)
    c = repo.cls("Count")
    npf = repo.own_method(c, "_numpy")
    for cfg in configs(repo, "Count", 1):
        for wform in ("array", "scalar"):
            for sk in (True, False):
                try:
                    paths = run_numpy(repo, cfg, "any", cfg.regions[0][1], "pos", wform, True, shape_known=sk)
                except Unsup as e:
                    raise AnalysisError(f"{npf.construct}: {e}")
                for p in paths:
                    if p.outcome == "raise":
                        continue
                    incs = p.entries
                    if wform == "array":
                        ok = len(incs) == 1 and isinstance(incs[0], tuple) and incs[0][0] == "rowsum"
                        want = "the sum over the rows"
                    elif sk:
                        ok = len(incs) == 1 and repr(incs[0]).endswith("*opaque:n")
                        want = "the per-row amount multiplied by the number of rows (shape[0])"
                    else:
                        ok = len(incs) == 1
                        want = "one increment"
                    r7.ob(ok, f"{cfg.desc}, {wform} weight, batch length {'known' if sk else 'unknown'}: entries += {incs}")
                    if not ok:
                        rep.finding("R3.7", npf, npf.node, f"{cfg.desc}, {wform} weight, batch length {'known' if sk else 'unknown'}: entries grows by "
                                    f"{[repr(x) for x in incs]}; it must grow by {want}: per-row fill adds the (transformed) weight once for every row, "
                                    f"so a batch of n rows must add n times as much", stmt=f"{cfg.desc.split('(')[1][:-1]}/{wform}/{'n' if sk else 'none'}: {[repr(x) for x in incs]}")


def extrema_tables(repo, rep):
    """R3.6: a batch of one row filled by _numpy into a Minimize/Maximize whose extremum is NaN or a number leaves the value
    the scalar fill leaves, for every region of the row relative to the current extremum and weight classes 0 / >0."""
    from ..routing import Config, _common, numeric_regions, run_fill
    r6 = rep.rule("R3.6", "Minimize/Maximize: a one-row batch changes the extremum exactly as fill does (all regions relative to the current value)", floor=40)
    for cname, fld in (("Minimize", "min"), ("Maximize", "max")):
        c = repo.cls(cname)
        npf = repo.own_method(c, "_numpy")
        line = OrderLine(["cur"])
        for cur_label, cur in (("nan", NAN), ("num", line.pos_of("cur"))):
            cfg = Config(c, line, (lambda cur=cur: _common({fld: cur})), numeric_regions(line), lambda l, q: set(), {}, f"{cname} ({fld} {cur_label})")
            for label, q in cfg.regions:
                for wc, wfill in (("pos", "pos"), ("zero", "zero")):
                    try:
                        pn = run_numpy(repo, cfg, label, q, wc, "array", True, single_row=True)
                        pf = run_fill(repo, cfg, label, q, wfill)
                    except Unsup as e:
                        raise AnalysisError(f"{npf.construct}: {e}")

                    def final(p):
                        st = [a for a in p.accs if a[1] == fld]
                        v = st[-1][2] if st else cur
                        if v is NAN:
                            return "nan"
                        if isinstance(v, Pos):
                            return ("pos", v.k)
                        return repr(v)
                    fn, ff = {final(p) for p in pn}, {final(p) for p in pf}
                    ok = fn == ff or (q is not NAN and cur is not NAN and q.k == cur.k and fn | ff <= {("pos", cur.k)})
                    r6.ob(ok, f"{cname}: {fld} {cur_label}, row {label}, weight {wc}: _numpy -> {sorted(map(str, fn))}, fill -> {sorted(map(str, ff))}")
                    if not ok:
                        def show(vals):
                            out = []
                            for v in sorted(vals, key=str):
                                out.append("NaN" if v == "nan" else (line.describe(v[1]) if isinstance(v, tuple) else str(v)))
                            return out
                        rep.finding("R3.6", npf, npf.node, f"{cname}._numpy with `{fld}` {('NaN (empty)' if cur is NAN else 'a number (cur)')}, a batch of one row in "
                                    f"region `{label}` and weight {wc} leaves `{fld}` in {show(fn)}, but fill leaves {show(ff)}: the vectorised "
                                    f"path merges a later batch into an already filled {cname} differently from per-row filling",
                                    stmt=f"{fld}: {cur_label}/{label.replace(' ', '')}/{wc}")


def coverage_guard(repo, prims, names=("fill", "_numpy"), rep=None):
    """Every statement of every fill/_numpy must be reached by some scenario.  With `rep` the failure is deferred to the end
    of the run: it ends the run as ANALYSIS-ERROR unless a reported violation already accounts for the changed code."""
    for c in prims:
        for name in names:
            f = repo.own_method(c, name)
            for n in walk_local_stmt(f.node):
                if not isinstance(n, ast.stmt) or n is f.node or isinstance(n, (ast.Raise, ast.Pass)):
                    continue
                if isinstance(n, ast.Expr) and isinstance(n.value, ast.Constant):
                    continue
                if (f.module.relpath, n.lineno) in Machine.COVERED:
                    continue
                # the body of a branch that only raises / statements after which only a raise follows are validation paths
                if is_input_normalisation(n):
                    continue
                msg = (f"{f.construct}: statement `{norm(n)[:70]}` (line {n.lineno}) is not reached by any scenario of the abstract "
                       f"interpreter: the comparison would be vacuous for it")
                if rep is None:
                    raise AnalysisError(msg)
                if not hasattr(rep, "deferred"):
                    rep.deferred = []
                rep.deferred.append(msg)


CONTROL_SRC = '''
class Probe:
    def _numpy(self, data, weights, shape):
        q = self.quantity(data)
        weights = self._makeNPWeights(weights, shape)
        import numpy as np
        selection = np.isnan(q)
        q[selection] = 0.0
        weights[selection] = 0.0
    def _makeNPWeights(self, weights, shape):
        import numpy
        if isinstance(weights, numpy.ndarray):
            return weights
        return weights * numpy.ones(shape, dtype=numpy.float64)
'''


def positive_control(repo, rep, r3):
    """A zero-expected rule must match its embedded positive example on every run."""
    from ..loader import ClassInfo

    mod = Module("hgsa_probe", "<probe>", "<probe>", CONTROL_SRC)
    repo._scan_module(mod)
    k = mod.classes["Probe"]
    f = k.methods["_numpy"]
    line = OrderLine([])
    hits = 0

    def make():
        obj = Obj(k, {"quantity": ("quantity", "quantity")})
        m = Machine(repo, k, line, obj, {})
        m.q_value = Arr(NAN, "input", "q")
        return m

    def entry(m):
        m.call_function(f, [Opaque("data"), Arr(W("one"), "input", "weights"), [None]], selfval=m.selfobj)

    for eff, ch, out, m in explore(make, entry):
        hits += len(m.writes_to_inputs)
    if hits < 2:
        raise AnalysisError("R3.3 positive control failed: writes into aliased input arrays are not detected")
    r3.ob(True, f"positive control: {hits} writes into aliased inputs detected in the embedded probe")


def merge_formulas(repo, rep, r5, models):
    for cname in ("Average", "Deviate"):
        c = repo.cls(cname)
        npf = repo.own_method(c, "_numpy")
        add = repo.own_method(c, "__add__")
        fields = models[cname].acc
        sn = npf.params[0]
        env = {f"{sn}.{f}": Rat.sym(f"{sn}.{f}") for f in fields}
        try:
            env, _ = run_body(npf, env, LeafScenario(self_empty=False, selfname=sn))
        except Unsupported as e:
            raise AnalysisError(f"{npf.construct}: formula extraction failed: {e}")
        W_, MB, AVG2 = Rat.sym("W"), Rat.sym("MB"), Rat.sym("AVG2")
        other = {"entries": W_, "mean": MB}
        if "varianceTimesEntries" in fields:
            other["varianceTimesEntries"] = W_ * AVG2
        asn, aon = add.params
        try:
            want = add_state(add, fields, LeafScenario(False, False, asn, aon), other_state=other)
        except Unsupported as e:
            raise AnalysisError(f"{add.construct}: {e}")
        for fld in fields:
            got = env[f"{sn}.{fld}"]
            w = want[fld].rename({f"{asn}.{x}": f"{sn}.{x}" for x in fields})
            ok = got.equals(w)
            r5.ob(ok, f"{cname}._numpy: {fld} = {got!r}")
            if not ok:
                rep.finding("R3.5", npf, npf.node, f"{cname}._numpy combines the old state with the batch as `{fld}` = {got!r}, but __add__ of the "
                            f"same state with the batch's (entries, mean, variance) gives {w!r}", stmt=f"{fld}: batch merge formula")


# ---------------------------------------------------------------------------------------------- R3.8 float-exact index formula
_NP_BIN = {"subtract": ast.Sub, "add": ast.Add, "multiply": ast.Mult, "divide": ast.Div, "true_divide": ast.Div}


def _canon_float(e):
    """text of a float expression tree up to the commutativity of + and * (exact in IEEE arithmetic); association and
    distribution are NOT normalised - they change the rounding"""
    if isinstance(e, ast.BinOp) and type(e.op) in (ast.Add, ast.Mult, ast.Sub, ast.Div):
        a, b = _canon_float(e.left), _canon_float(e.right)
        sym = {ast.Add: "+", ast.Mult: "*", ast.Sub: "-", ast.Div: "/"}[type(e.op)]
        if isinstance(e.op, (ast.Add, ast.Mult)):
            a, b = sorted([a, b])
        return f"({a} {sym} {b})"
    if isinstance(e, ast.Call) and isinstance(e.func, ast.Name) and e.func.id == "float" and len(e.args) == 1:
        return _canon_float(e.args[0])
    return ast.unparse(e).replace(" ", "")


def scalar_floor_exprs(f):
    """expressions under math.floor in a scalar index method, locals expanded, the datum parameter written X"""
    x = f.params[1] if len(f.params) > 1 else None
    defs = {}
    for st in walk_local_stmt(f.node):
        if isinstance(st, ast.Assign) and len(st.targets) == 1 and isinstance(st.targets[0], ast.Name):
            defs.setdefault(st.targets[0].id, []).append(st.value)

    def expand(e, depth=0):
        import copy

        class X(ast.NodeTransformer):
            def visit_Name(self, n):
                if n.id == x:
                    return ast.Name(id="X", ctx=ast.Load())
                if len(defs.get(n.id, [])) == 1 and depth < 4:
                    return expand(defs[n.id][0], depth + 1)
                return n
        return X().visit(copy.deepcopy(e))
    out = []
    for n in walk_local_stmt(f.node):
        if isinstance(n, ast.Call) and ast.unparse(n.func) in ("math.floor", "np.floor", "numpy.floor", "floor") and n.args:
            out.append((n, expand(n.args[0])))
    return out


def vector_floor_exprs(f):
    """expressions that reach np.floor in a vectorised body: the in-place ufunc sequence (np.subtract(q, a, q), ...) and
    plain assignments are replayed symbolically along the statements leading to the floor; the quantity array is written X"""
    import copy
    results = []

    def sym(e, env):
        class S(ast.NodeTransformer):
            def visit_Name(self, n):
                return copy.deepcopy(env[n.id]) if n.id in env else n
        return S().visit(copy.deepcopy(e))

    def is_np(call, names):
        fn = call.func
        return isinstance(fn, ast.Attribute) and isinstance(fn.value, ast.Name) and fn.value.id in ("np", "numpy") and fn.attr in names

    def step(st, env):
        if isinstance(st, ast.Expr) and isinstance(st.value, ast.Call):
            c = st.value
            if is_np(c, _NP_BIN) and len(c.args) == 3 and isinstance(c.args[2], ast.Name):
                env[c.args[2].id] = ast.BinOp(left=sym(c.args[0], env), op=_NP_BIN[c.func.attr](), right=sym(c.args[1], env))
            elif is_np(c, {"floor"}) and c.args:
                results.append((st, sym(c.args[0], env)))
        elif isinstance(st, ast.Assign) and len(st.targets) == 1 and isinstance(st.targets[0], ast.Name):
            v, t = st.value, st.targets[0].id
            if isinstance(v, ast.Call) and is_np(v, _NP_BIN) and len(v.args) == 2:
                env[t] = ast.BinOp(left=sym(v.args[0], env), op=_NP_BIN[v.func.attr](), right=sym(v.args[1], env))
            elif isinstance(v, ast.Call) and is_np(v, {"floor"}) and v.args:
                results.append((st, sym(v.args[0], env)))
                env.pop(t, None)
            elif isinstance(v, ast.Call) and (is_np(v, {"array", "asarray", "ascontiguousarray", "float64"}) and v.args):
                env[t] = sym(v.args[0], env)
            elif isinstance(v, ast.Call) and isinstance(v.func, ast.Attribute) and v.func.attr in ("astype", "copy") and isinstance(v.func.value, ast.Name):
                env[t] = sym(v.func.value, env)
            elif isinstance(v, ast.Call) and isinstance(v.func, ast.Attribute) and v.func.attr == "quantity":
                env[t] = ast.Name(id="X", ctx=ast.Load())
            elif isinstance(v, (ast.BinOp, ast.Name, ast.Attribute, ast.Constant)):
                env[t] = sym(v, env)
            else:
                env.pop(t, None)
        elif isinstance(st, ast.AugAssign) and isinstance(st.target, ast.Name) and type(st.op) in (ast.Add, ast.Sub, ast.Mult, ast.Div):
            t = st.target.id
            env[t] = ast.BinOp(left=sym(ast.Name(id=t, ctx=ast.Load()), env), op=type(st.op)(), right=sym(st.value, env))

    def block(stmts, env):
        for st in stmts:
            if isinstance(st, (ast.If, ast.For, ast.While, ast.With, ast.Try)):
                for fld in ("body", "orelse", "finalbody"):
                    b = getattr(st, fld, None)
                    if isinstance(b, list) and b and isinstance(b[0], ast.stmt):
                        block(b, dict(env))
                # names assigned inside are unknown afterwards
                for x in ast.walk(st):
                    if isinstance(x, ast.Name) and isinstance(x.ctx, ast.Store):
                        env.pop(x.id, None)
            else:
                step(st, env)
    block(f.node.body, {})
    return results


def _expand_properties(repo, c, e, selfnames):
    """`self.num` where num is a one-line property (`return len(self.values)`) stands for its body"""
    import copy

    class Prop(ast.NodeTransformer):
        def visit_Attribute(self, n):
            self.generic_visit(n)
            if isinstance(n.value, ast.Name) and n.value.id in selfnames and isinstance(n.ctx, ast.Load):
                m = repo.lookup(c, n.attr)
                if isinstance(m, FuncInfo) and m.is_property:
                    body = [x for x in m.node.body if not (isinstance(x, ast.Expr) and isinstance(x.value, ast.Constant))]
                    if len(body) == 1 and isinstance(body[0], ast.Return) and body[0].value is not None:
                        sub = copy.deepcopy(body[0].value)
                        msn = m.params[0]
                        for x in ast.walk(sub):
                            if isinstance(x, ast.Name) and x.id == msn:
                                x.id = n.value.id
                        return Prop().visit(sub)
            return n
    return Prop().visit(copy.deepcopy(e))


def index_formula_rule(repo, rep):
    r8 = rep.rule("R3.8", "the vectorised bin index applies the floating-point operations of the scalar index method in the same order "
                  "(equal up to commutativity of + and *)", floor=2)
    for cname in ("Bin", "SparselyBin"):
        c = repo.cls(cname)
        sc, ve = repo.lookup(c, "bin"), repo.own_method(c, "_numpy")
        if not isinstance(sc, FuncInfo):
            raise AnalysisError(f"{cname}.bin not found")
        s_exprs = scalar_floor_exprs(sc)
        v_exprs = vector_floor_exprs(ve)
        if not s_exprs or not v_exprs:
            continue       # no floor on one side: another index scheme; R3.1 compares the routing by regions
        s_txt = {_canon_float(_expand_properties(repo, c, e, {sc.params[0]})) for _, e in s_exprs}
        for st, e in v_exprs:
            t = _canon_float(_expand_properties(repo, c, e, {ve.params[0]}))
            ok = t in s_txt
            r8.ob(ok, f"{cname}._numpy: floor({t}) vs {cname}.bin: floor({sorted(s_txt)})")
            if not ok:
                rep.finding("R3.8", ve, st, f"{cname}._numpy takes the floor of `{t}` but the scalar index method {cname}.bin takes the floor of "
                            f"`{' / '.join(sorted(s_txt))}`: the two round differently, so a value within an ulp of a bin edge is put into one "
                            f"bin by fill and into the neighbouring bin by fill.numpy", stmt=f"{cname}: vector index formula {t}")


# ---------------------------------------------------------------------------------------------- R3.9 weighted averages of a batch
def batch_average_rule(repo, rep, prims):
    """numpy.average(x, weights=w) raises ZeroDivisionError when w sums to zero - a batch in which no row has positive weight
    (an empty array, or everything rejected by an enclosing Select).  The per-row fill of such rows does nothing, so the call
    must sit under a test that implies `w.sum() > 0`.  Decided with linear forms over the atoms A (the node's entries on entry)
    and B (the weight of the batch): a guard `L > R` counts when L - R is a positive multiple of B."""
    r9 = rep.rule("R3.9", "numpy.average over a batch is evaluated only under a guard that implies a positive batch weight", floor=2)
    for c in prims:
        f = repo.own_method(c, "_numpy")
        calls = [n for n in ast.walk(f.node) if isinstance(n, ast.Call) and ast.unparse(n.func) in ("numpy.average", "np.average")]
        if not calls:
            continue
        sn = f.params[0]
        version = {}

        def arr_atom(name):
            return f"B:{name}#{version.get(name, 0)}"

        def form(e, env):
            """linear form {atom: coef} (with '' for the constant) or None"""
            if isinstance(e, ast.Constant) and isinstance(e.value, (int, float)) and not isinstance(e.value, bool):
                return {"": float(e.value)}
            if isinstance(e, (ast.Name, ast.Attribute)):
                k = ast.unparse(e)
                if k in env:
                    return env[k]
                return {f"sym:{k}": 1.0}
            if isinstance(e, ast.Call):
                fn = ast.unparse(e.func)
                if fn == "float" and len(e.args) == 1:
                    return form(e.args[0], env)
                if isinstance(e.func, ast.Attribute) and e.func.attr == "sum" and isinstance(e.func.value, ast.Name) and not e.args:
                    return {arr_atom(e.func.value.id): 1.0}
                if fn in ("numpy.sum", "np.sum") and len(e.args) == 1 and isinstance(e.args[0], ast.Name):
                    return {arr_atom(e.args[0].id): 1.0}
                return None
            if isinstance(e, ast.BinOp) and isinstance(e.op, (ast.Add, ast.Sub)):
                a, b = form(e.left, env), form(e.right, env)
                if a is None or b is None:
                    return None
                out = dict(a)
                sg = 1.0 if isinstance(e.op, ast.Add) else -1.0
                for k, v in b.items():
                    out[k] = out.get(k, 0.0) + sg * v
                return {k: v for k, v in out.items() if v != 0.0}
            return None

        results = []

        def implies_positive(test, env, atom):
            conj = test.values if isinstance(test, ast.BoolOp) and isinstance(test.op, ast.And) else [test]
            for t in conj:
                if isinstance(t, ast.Compare) and len(t.ops) == 1 and isinstance(t.ops[0], (ast.Gt, ast.Lt, ast.NotEq)):
                    l, r = form(t.left, env), form(t.comparators[0], env)
                    if l is None or r is None:
                        continue
                    d = dict(l)
                    for k, v in r.items():
                        d[k] = d.get(k, 0.0) - v
                    d = {k: v for k, v in d.items() if v != 0.0}
                    if set(d) == {atom}:
                        coef = d[atom]
                        if (isinstance(t.ops[0], ast.Gt) and coef > 0) or (isinstance(t.ops[0], ast.Lt) and coef < 0) or isinstance(t.ops[0], ast.NotEq):
                            return True
                # len(w) > 0 / w.size > 0 for the selected weights (all positive): non-empty means positive total
                if isinstance(t, ast.Compare) and len(t.ops) == 1 and isinstance(t.ops[0], ast.Gt) and isinstance(t.comparators[0], ast.Constant) \
                        and t.comparators[0].value == 0:
                    txt = ast.unparse(t.left).replace(" ", "")
                    nm = atom.split(":")[1].split("#")[0]
                    if txt in (f"len({nm})", f"{nm}.size", f"{nm}.shape[0]"):
                        return True
            return False

        def block(stmts, env, guards):
            for st in stmts:
                for n in ast.walk(st) if not isinstance(st, (ast.If, ast.For, ast.While, ast.With, ast.Try)) else []:
                    if n in calls:
                        w = next((kw.value for kw in n.keywords if kw.arg == "weights"), n.args[1] if len(n.args) > 1 else None)
                        if isinstance(w, ast.Name):
                            atom = arr_atom(w.id)
                            ok = any(implies_positive(t, genv, atom) for t, genv in guards)
                        else:
                            ok = False
                        results.append((n, ok, [ast.unparse(t)[:50] for t, _ in guards]))
                if isinstance(st, ast.Assign) and len(st.targets) == 1:
                    t = st.targets[0]
                    if isinstance(t, (ast.Name, ast.Attribute)):
                        fm = form(st.value, env)
                        k = ast.unparse(t)
                        if isinstance(t, ast.Name):
                            version[t.id] = version.get(t.id, 0) + 1
                        if fm is not None:
                            env[k] = fm
                        else:
                            env.pop(k, None)
                    elif isinstance(t, (ast.Tuple, ast.List)) and isinstance(st.value, (ast.Tuple, ast.List)) and len(t.elts) == len(st.value.elts):
                        fms = [form(v, env) for v in st.value.elts]
                        for tt, fm in zip(t.elts, fms):
                            if isinstance(tt, (ast.Name, ast.Attribute)):
                                if isinstance(tt, ast.Name):
                                    version[tt.id] = version.get(tt.id, 0) + 1
                                if fm is not None:
                                    env[ast.unparse(tt)] = fm
                                else:
                                    env.pop(ast.unparse(tt), None)
                elif isinstance(st, ast.AugAssign) and isinstance(st.target, (ast.Name, ast.Attribute)) and isinstance(st.op, (ast.Add, ast.Sub)):
                    k = ast.unparse(st.target)
                    fm = form(ast.BinOp(left=st.target, op=st.op, right=st.value), env)
                    if fm is not None:
                        env[k] = fm
                    else:
                        env.pop(k, None)
                elif isinstance(st, ast.If):
                    # assignments inside a branch that is not taken on every path make the value unknown afterwards
                    before = dict(env)
                    e1 = dict(env)
                    block(st.body, e1, guards + [(st.test, dict(env))])
                    e2 = dict(env)
                    block(st.orelse, e2, guards)
                    for k in set(e1) | set(e2):
                        if e1.get(k) != e2.get(k):
                            # the generic path (non-empty state) keeps the value from before when only the empty-state branch resets it
                            if k in before and (e1.get(k) == before[k] or e2.get(k) == before[k]) and k != f"{sn}.entries":
                                env[k] = before[k]
                            else:
                                env.pop(k, None)
                        else:
                            env[k] = e1[k]
                elif isinstance(st, (ast.For, ast.While, ast.With, ast.Try)):
                    for x in ast.walk(st):
                        if isinstance(x, ast.Name) and isinstance(x.ctx, ast.Store):
                            env.pop(x.id, None)
        block(f.node.body, {f"{sn}.entries": {"A": 1.0}}, [])
        for n, ok, guards in results:
            r9.ob(ok, f"{f.qualname}: `{ast.unparse(n)[:50]}` under {guards}")
            if not ok:
                rep.finding("R3.9", f, n, f"`{ast.unparse(n)[:70]}` is reached whenever {guards or ['nothing']} holds, which does not imply that the "
                            f"batch has positive weight: for a batch in which no row has positive weight (an empty array, or every row rejected "
                            f"by an enclosing Select) on a non-empty node, numpy.average raises ZeroDivisionError('Weights sum to zero'), while "
                            f"the per-row fill of the same rows changes nothing", stmt=f"average without a positive-batch guard")


# ---------------------------------------------------------------------------------------------- R3.10 Counts and the batch length
def count_sees_length_rule(repo, rep):
    """A Count filled through _numpy with a scalar weight adds weight x shape[0]; when shape[0] is still None (no sub-aggregator
    has evaluated a quantity yet) it adds the weight ONCE - right only when the caller passes a pre-summed amount for one key
    (the sparse fast paths), wrong when the caller's own batch weight is handed on.  Decided on the abstract interpreter: every
    container's _numpy is run with a Count as first child, other aggregators as its siblings, a scalar weight and an unknown
    batch length; no path may hand the batch on to the Count while the shared shape cell is still None."""
    r10 = rep.rule("R3.10", "a Count child is handed the batch only once the batch length is known (scalar weight, Count first among its siblings)", floor=4)
    for cname in CONTAINERS:
        for cfg in configs(repo, cname, 2):
            label, q = cfg.regions[len(cfg.regions) // 2]
            try:
                paths = run_numpy(repo, cfg, label, q, "pos", "scalar", "mixed", shape_known=False)
            except Unsup as e:
                raise AnalysisError(f"{cname}._numpy (Count first, scalar weight, unknown length): {e}")
            npf = repo.own_method(cfg.cls, "_numpy")
            bad = [(p, e) for p in paths if p.outcome != "raise" for e in p.effects if e[0] == "count-length" and e[2] is False]
            r10.ob(not bad, f"{cfg.desc}: Count children see a known batch length")
            if bad:
                p, e = bad[0]
                rep.finding("R3.10", npf, npf.node, f"{cfg.desc}, scalar weight, Count as first child: the batch is handed to `{e[1]}` while shape[0] is still "
                            f"None (no sibling has evaluated its quantity yet), so that Count adds the weight once instead of once per row: "
                            f"{cname}(Count(), Sum(q)).fill.numpy(data) leaves the Count at 1.0 whatever the length of the batch, while the same "
                            f"tree with the children in the other order is right", stmt=f"{cname}: Count filled before the batch length is known")
            break


# ---------------------------------------------------------------------------------------------- R3.12 saturation of the sparse index
def saturation_rule(repo, rep):
    """SparselyBin.bin saturates the real-valued index at the ends of the int64 range (`softbin <= LONG_MINUSINF`, `softbin >=
    LONG_PLUSINF`) BEFORE it is converted to an integer.  The vectorised path must test the same range on the float index before
    its cast to int64: patching only the rows that are infinite leaves a finite datum whose index exceeds the range to the cast,
    which turns it into the NaN index - the row is counted in entries but lands in no bin."""
    r12 = rep.rule("R3.12", "every range test on the real-valued sparse index in bin() has a counterpart on the float index in _numpy (before the integer cast)", floor=2)
    c = repo.cls("SparselyBin")
    sc, ve = repo.lookup(c, "bin"), repo.own_method(c, "_numpy")
    if not isinstance(sc, FuncInfo):
        raise AnalysisError("SparselyBin.bin not found")
    consts = {k for k, v in sc.module.assigns.items() if k.isupper()} | {k for k in sc.module.imports if k.isupper()}

    def range_tests(f):
        out = set()
        for n in walk_local_stmt(f.node):
            if isinstance(n, ast.Compare) and len(n.ops) == 1 and isinstance(n.ops[0], (ast.Lt, ast.LtE, ast.Gt, ast.GtE)):
                l, r = n.left, n.comparators[0]
                if isinstance(r, ast.Name) and r.id in consts and not (isinstance(l, ast.Name) and l.id in consts):
                    out.add((r.id, "low" if isinstance(n.ops[0], (ast.Lt, ast.LtE)) else "high", n))
                elif isinstance(l, ast.Name) and l.id in consts and not (isinstance(r, ast.Name) and r.id in consts):
                    out.add((l.id, "high" if isinstance(n.ops[0], (ast.Lt, ast.LtE)) else "low", n))
        return out
    s_tests = range_tests(sc)
    v_tests = {(k, side) for k, side, _ in range_tests(ve)}
    for k, side, node in sorted(s_tests, key=lambda t: t[2].lineno):
        ok = (k, side) in v_tests
        r12.ob(ok, f"SparselyBin.bin: `{ast.unparse(node)}` has a vectorised counterpart")
        if not ok:
            rep.finding("R3.12", ve, ve.node, f"SparselyBin.bin saturates with `{ast.unparse(node)}` but SparselyBin._numpy has no test of the float index "
                        f"against {k}: it only patches infinite rows, so a finite datum whose index exceeds the int64 range (e.g. 1e300 with "
                        f"binWidth 0.5) is cast to the NaN index and skipped - counted in entries, present in no bin - while the per-row fill puts "
                        f"it into the saturated bin {k}", stmt=f"no vectorised range test against {k}")
