"""C07 - in-place merge (+=) agrees with pure merge (+)."""

import ast

from .. import cfg as cfgmod
from ..astutil import walk_local_stmt
from ..loader import AnalysisError, norm, primitives
from ..model import build_models
from ..taint import FieldTaint
from . import c06, c10


def delegation_var(f):
    sn, on = f.params
    for n in walk_local_stmt(f.node):
        if isinstance(n, ast.Assign) and len(n.targets) == 1 and isinstance(n.targets[0], ast.Name):
            v = n.value
            if isinstance(v, ast.BinOp) and isinstance(v.op, ast.Add) and isinstance(v.left, ast.Name) and isinstance(v.right, ast.Name):
                if v.left.id == sn and v.right.id == on:
                    return n.targets[0].id, n
                if v.left.id == on and v.right.id == sn:
                    return n.targets[0].id, n
    return None, None


def guard_signature(repo, c, m, f):
    g = cfgmod.build(f.node)
    sn, on = f.params
    dict_fields = [s for s, k in m.slot_kind.items() if k == "dict"]
    ft = FieldTaint(repo, c, f, [sn, on], dict_fields)
    sig = set()
    for (tn, la, lb, e) in c10.raising_comparisons(f, g, ft):
        for (x, y) in ((la, lb), (lb, la)):
            for (p, fl, fv, z) in x:
                if p != sn:
                    continue
                if any(p2 == on and fl2 == fl and fv2 == fv for (p2, fl2, fv2, z2) in y):
                    sig.add((fl, fv))
    return sig, ft, g


def nan_discipline_inplace(f, g, fld, repo=None):
    """Every store of a formula depending on other.<fld> into self.<fld> is guarded by self.entries != 0 and other.entries != 0."""
    sn, on = f.params
    tcd = g.transitive_control_deps()

    def guarded(node, who, edge):
        for (tid, lab) in tcd[node.id]:
            tn = g.nodes[tid]
            if tn.kind == "test":
                txt = ast.unparse(tn.ast).replace(" ", "")
                if txt in (f"{who}.entries==0.0", f"{who}.entries==0", f"0.0=={who}.entries") and lab == edge:
                    return True
                if txt in (f"{who}.entries!=0.0", f"{who}.entries>0.0", f"{who}.entries>0") and lab == {"T": "F", "F": "T"}[edge]:
                    return True
        return False

    stores = []
    for n in g.nodes:
        if n.kind == "stmt" and isinstance(n.ast, (ast.Assign, ast.AugAssign)):
            for t in (n.ast.targets if isinstance(n.ast, ast.Assign) else [n.ast.target]):
                if isinstance(t, ast.Attribute) and t.attr == fld and isinstance(t.value, ast.Name) and t.value.id == sn:
                    stores.append(n)
    if not stores:
        return False, "never stores it"
    problems = []
    for n in stores:
        v = n.ast.value
        # a local temporary (`lowest = minplus(self.min, other.min)` ... `self.min = lowest`) stands for its one definition
        hops = 0
        while isinstance(v, ast.Name) and hops < 3:
            defs = [x.ast.value for x in g.nodes if x.kind == "stmt" and isinstance(x.ast, ast.Assign) and any(
                isinstance(t, ast.Name) and t.id == v.id for t in x.ast.targets)]
            if len(defs) != 1:
                break
            v = defs[0]
            hops += 1
        # helper form: a NaN-as-missing combiner applied to the two fields (decision table checked like in __add__, C01/R1.3)
        if isinstance(v, ast.Call) and isinstance(v.func, ast.Name) and len(v.args) == 2 and \
                {ast.unparse(a) for a in v.args} == {f"{sn}.{fld}", f"{on}.{fld}"} and repo is not None:
            h = repo.resolve_name(f.module, v.func.id)
            if hasattr(h, "node"):
                from .c01 import helper_table, table_ok
                smaller = fld.lower().startswith("min")
                if (fld.lower().startswith("min") or fld.lower().startswith("max")) and not table_ok(helper_table(h), smaller):
                    continue
        txt = ast.unparse(v)
        reads_other = f"{on}.{fld}" in txt
        reads_self = f"{sn}.{fld}" in txt or isinstance(n.ast, ast.AugAssign)
        if txt == f"{on}.{fld}":
            if not guarded(n, sn, "T"):
                problems.append(f"takes `{on}.{fld}` without the guard `{sn}.entries == 0.0`")
        elif reads_other and reads_self:
            if not (guarded(n, sn, "F") and guarded(n, on, "F")):
                problems.append(f"runs the general formula (line {n.lineno}) without excluding an empty `{'self' if not guarded(n, sn, 'F') else 'other'}` side")
    return (not problems), ("; ".join(problems) if problems else "two-sided guard")


def keyed_merge_rule(rep, rule, c, f, fld, sn, on, rid="R7.1", what="`a += b`"):
    """Bag.values: per-key evaluation of the merge loop (hgsa/keyed.py)."""
    from ..keyed import WANT, KeyedMerge, Undecided, show

    def is_src(e):
        return isinstance(e, ast.Attribute) and e.attr == fld and isinstance(e.value, ast.Name) and e.value.id == on

    def is_dst(e):
        return isinstance(e, ast.Attribute) and e.attr == fld and isinstance(e.value, ast.Name) and e.value.id != on

    loops = [n for n in walk_local_stmt(f.node) if isinstance(n, ast.For) and any(is_src(x) for x in ast.walk(n.iter))]
    if not loops:
        rule.ob(True, f"{c.name}.{f.name}: no loop over `{on}.{fld}` (merged some other way; not decided by the keyed form)")
        return
    for loop in loops:
        try:
            got = KeyedMerge(loop, is_dst, is_src).outcomes()
        except Undecided as e:
            rule.ob(True, f"{c.name}.{f.name}: merge loop at line {loop.lineno} not in the keyed language ({e}); not decided")
            continue
        for label, want in WANT.items():
            ok = got[label] == want
            rule.ob(ok, f"{c.name}.{f.name}: key on {label}: new value {show(got[label])}")
            if not ok:
                rep.finding(rid, f, loop, f"merging `{on}.{fld}` key by key: for a key present on {'both sides' if label == 'both' else 'the right only'} "
                            f"the loop leaves {show(got[label])} at that key, the merge must leave {show(want)}: {what} miscounts those values",
                            stmt=f"{fld}: keyed merge, key on {label}")


def loop_invariant_accumulation(rep, rule, c, f, sn):
    for loop in walk_local_stmt(f.node):
        if not isinstance(loop, ast.For):
            continue
        bound = {n.id for n in ast.walk(loop.target) if isinstance(n, ast.Name)}
        changed = True
        body_stmts = [n for b in loop.body for n in ast.walk(b) if isinstance(n, (ast.Assign, ast.AugAssign, ast.For))]
        while changed:
            changed = False
            for n in body_stmts:
                if isinstance(n, ast.For):
                    tg, val = [n.target], n.iter
                elif isinstance(n, ast.Assign):
                    tg, val = n.targets, n.value
                else:
                    tg, val = [n.target], n.value
                if any(isinstance(x, ast.Name) and x.id in bound for x in ast.walk(val)) or isinstance(n, ast.For):
                    for t in tg:
                        for x in ast.walk(t):
                            if isinstance(x, ast.Name) and isinstance(x.ctx, ast.Store) and x.id not in bound:
                                bound.add(x.id)
                                changed = True
        for n in body_stmts:
            tgt = val = None
            if isinstance(n, ast.AugAssign):
                tgt, val = n.target, n.value
            elif isinstance(n, ast.Assign) and len(n.targets) == 1 and isinstance(n.value, ast.BinOp) and any(
                    ast.dump(x) == ast.dump(n.targets[0]).replace("Store()", "Load()") for x in (n.value.left, n.value.right)):
                tgt, val = n.targets[0], n.value
            if tgt is None:
                continue
            base = tgt
            while isinstance(base, (ast.Subscript, ast.Attribute)):
                base = base.value
            if not (isinstance(base, ast.Name) and base.id == sn and not isinstance(tgt, ast.Name)):
                continue
            dep = any(isinstance(x, ast.Name) and x.id in bound for x in list(ast.walk(tgt)) + list(ast.walk(val)))
            rule.ob(dep, f"{c.name}.{f.name}: `{norm(n)}` in the loop at line {loop.lineno} depends on the loop variables")
            if not dep:
                rep.finding("R7.5", f, n, f"`{norm(n)}` accumulates into own state inside the loop at line {loop.lineno} but mentions none of the loop's "
                            f"variables: it runs once per child (and not at all without children), so `a += b` adds this part of b several times "
                            f"while `a + b` adds it once", stmt=f"loop-invariant accumulation {norm(n)}")


def must_merge_on_all_paths(repo, rep, r1, c, m, f, dv):
    """Forward must-analysis over the CFG of __iadd__: the set of content fields already merged.  A loop that merges (or
    inserts) children of a slot counts as merging that slot (zero iterations = nothing to merge)."""
    from ..cfg import solve_forward

    sn, on = f.params
    dict_fields = [s for s, k in m.slot_kind.items() if k == "dict"] + (["values"] if m.name == "Bag" else [])
    ft = FieldTaint(repo, c, f, [sn, on], dict_fields)
    content = list(m.acc) + list(m.slots)
    g = cfgmod.build(f.node)

    def gens_of_stmt(n):
        out = set()
        tg, val, aug = [], None, False
        if isinstance(n, ast.AugAssign):
            tg, val, aug = [n.target], n.value, True
        elif isinstance(n, ast.Assign):
            tg, val = n.targets, n.value
        for t in tg:
            tl = ft.L(t, ft.env) if not isinstance(t, ast.Name) else ft.env.get(t.id, frozenset())
            vl = ft.L(val, ft.env)
            base = t
            while isinstance(base, ast.Subscript):
                base = base.value
            direct = base.attr if isinstance(base, ast.Attribute) and isinstance(base.value, ast.Name) and base.value.id == sn else None
            for fld in content:
                from_other = any(p == on and fl == fld for (p, fl, fv, z) in vl)
                from_both = dv is not None and isinstance(val, ast.Attribute) and isinstance(val.value, ast.Name) and val.value.id == dv and val.attr == fld
                into_self = direct == fld or any(p == sn and fl == fld for (p, fl, fv, z) in tl)
                if into_self and (from_other or from_both):
                    out.add(fld)
        return out

    loop_gens = {}
    for n in walk_local_stmt(f.node):
        if isinstance(n, (ast.For, ast.While)):
            acc = set()
            for b in ast.walk(n):
                if isinstance(b, (ast.Assign, ast.AugAssign)):
                    acc |= gens_of_stmt(b)
            loop_gens[id(n)] = acc

    def transfer(node, st):
        st = set(st)
        if node.kind == "stmt" and isinstance(node.ast, (ast.Assign, ast.AugAssign)):
            st |= gens_of_stmt(node.ast)
        if node.kind == "iter" and node.stmt is not None and id(node.stmt) in loop_gens:
            st |= loop_gens[id(node.stmt)]
        return frozenset(st)

    states = solve_forward(g, frozenset(), transfer, lambda a, b: a & b)
    for n in g.nodes:
        if n.kind == "stmt" and isinstance(n.ast, ast.Return) and n.id in states:
            have = states[n.id]
            missing = [x for x in content if x not in have]
            r1.ob(not missing, f"{c.name}.__iadd__: return at line {n.ast.lineno}: merged {sorted(have)}")
            if missing:
                rep.finding("R7.1", f, n.ast, f"the path returning at line {n.ast.lineno} has not merged {missing} of `{on}` into `{sn}`: on that path "
                            f"`a += b` silently drops part of b (entries, flows or bins), while `a + b` keeps it", stmt=f"return before merging {missing}")


def run(repo, rep, tier):
    rep.extra["explanation"] = (
        "Sibling agreement between __iadd__ and __add__ of each of the 19 primitives: either the delegation idiom "
        "(`both = self + other`, then every content field assigned from `both`), or the in-place idiom, in which the "
        "raising structural guards are the same set as __add__'s, every accumulator is augmented (not overwritten) by an "
        "expression depending on the same field of `other`, every child slot that __add__ merges is merged with `+=`, and "
        "keys present only on the right are inserted; every normal path returns `self`; `other` is never written and "
        "nothing borrowed from `other` is stored into `self` (ownership lattice of C06); fillsparksql merges with `+=`. "
        "Decides the shape of the in-place merge, not value-level equality under rounding."
    )
    rep.extra["explanation"] += " " + (
        'Later additions to R7.1: children of key-addressed slots are paired by key; NaN discipline of in-place merges; on EVERY returning path every content field has been merged (must-analysis over the CFG); for the scalar leaves merged in place the new state equals the state of self + other as rational functions.'
    )
    rep.not_decided += ["value-level equality of += and + under floating-point rounding"]
    prims, _ = primitives(repo)
    models = build_models(repo)
    ck = c06.Checker(repo, rep, models)
    r1 = rep.rule("R7.1", "__iadd__ merges every content field the way __add__ does (delegation or in-place idiom)", floor=50)
    r2 = rep.rule("R7.2", "every normal path of __iadd__ returns self", floor=19)
    r3 = rep.rule("R7.3", "`other` is never written; nothing borrowed from `other` is stored into `self`", floor=19)
    r5 = rep.rule("R7.5", "no loop-invariant accumulation of own state inside a merge loop (it would run once per child)", floor=1)
    r4 = rep.rule("R7.4", "fillsparksql merges the partial result with `self += delta`", floor=1)
    for c in prims:
        m = models[c.name]
        f = repo.own_method(c, "__iadd__")
        add = repo.own_method(c, "__add__")
        rep.analysed_functions.add(f.construct)
        if len(f.params) != 2:
            raise AnalysisError(f"{f.construct}: unexpected signature")
        sn, on = f.params
        dv, dnode = delegation_var(f)
        content = m.acc + m.slots
        if dv is not None:
            for fld in content:
                ok = False
                for n in walk_local_stmt(f.node):
                    if isinstance(n, ast.Assign):
                        for t in n.targets:
                            if isinstance(t, ast.Attribute) and isinstance(t.value, ast.Name) and t.value.id == sn and t.attr == fld:
                                v = n.value
                                if isinstance(v, ast.Attribute) and isinstance(v.value, ast.Name) and v.value.id == dv and v.attr == fld:
                                    ok = True
                r1.ob(ok, f"{c.name}.__iadd__ (delegation): {fld} taken from `{dv}`")
                if not ok:
                    rep.finding("R7.1", f, dnode, f"delegating `+=` computes `{dv} = {sn} + {on}` but never stores `{dv}.{fld}` "
                                f"into `{sn}.{fld}`: after `a += b` this field still has its old value",
                                stmt=f"{fld} not taken from {dv}")
        else:
            sig_i, ft, g = guard_signature(repo, c, m, f)
            sig_a, _, _ = guard_signature(repo, c, m, add)
            missing = sig_a - sig_i
            r1.ob(not missing, f"{c.name}.__iadd__: structural guards {sorted(sig_i)} vs __add__ {sorted(sig_a)}")
            for fl, fv in sorted(missing):
                rep.finding("R7.1", f, f.node, f"__add__ rejects operands that differ in `{fl}` ({fv}) but __iadd__ has no such "
                            f"raising guard: `+=` merges what `+` refuses", stmt=f"guard on {fl} missing in +=")
            stores = ft.field_stores
            for fld in m.acc:
                ok = False
                overwrite = None
                for (labs, node, kind) in stores.get((sn, fld), []):
                    dep_other = any(p == on and fl == fld and fv == "full" for (p, fl, fv, z) in labs)
                    dep_self = kind == "aug" or any(p == sn and fl == fld for (p, fl, fv, z) in labs)
                    if dep_other and dep_self:
                        ok = True
                    elif kind == "set":
                        overwrite = node
                # container accumulators (Bag.values): element-wise merge
                if not ok and m.name == "Bag" and fld == "values":
                    for (labs, node, kind) in stores.get((sn, fld), []):
                        if kind in ("elem", "aug") and any(p == on and fl == fld for (p, fl, fv, z) in labs):
                            ok = True
                r1.ob(ok, f"{c.name}.__iadd__: accumulator {fld} augmented from other.{fld}")
                if not ok:
                    rep.finding(
                        "R7.1", f, overwrite if overwrite is not None else f.node,
                        f"`{sn}.{fld}` is " + ("overwritten" if overwrite is not None else "not updated") +
                        f" instead of being combined with `{on}.{fld}`: after `a += b`, a does not have the content of a + b",
                        stmt=f"{fld} not merged",
                    )
            # NaN-initialised fields merged in place: same two-sided empty discipline as __add__ (R1.3): the general formula
            # may only run when BOTH sides are non-empty (an empty side carries NaN, and 0 * NaN is NaN)
            for fld in m.nan_fields:
                okn, why = nan_discipline_inplace(f, g, fld, repo)
                r1.ob(okn, f"{c.name}.__iadd__: NaN field {fld}: {why}")
                if not okn:
                    rep.finding("R7.1", f, f.node, f"`{fld}` is NaN in an empty aggregator but the in-place merge {why}: `a += empty` (or "
                                f"`empty += b`) poisons `{fld}` with NaN although `a + empty` keeps it", stmt=f"{fld}: NaN discipline in +=")
            for s in m.slots:
                merged = False
                positional = None
                for n in walk_local_stmt(f.node):
                    if isinstance(n, ast.AugAssign) and isinstance(n.op, ast.Add):
                        tl = ft.L(n.target, ft.env) if not isinstance(n.target, ast.Name) else ft.env.get(n.target.id, frozenset())
                        vl = ft.L(n.value, ft.env)
                        if any(p == sn and fl == s and fv == "full" for (p, fl, fv, z) in tl) and any(
                                p == on and fl == s and fv == "full" for (p, fl, fv, z) in vl):
                            merged = True
                            if m.slot_kind.get(s) == "dict" and any(p == sn and fl == s and z for (p, fl, fv, z) in tl) and any(
                                    p == on and fl == s and z for (p, fl, fv, z) in vl):
                                positional = n
                if m.slot_kind.get(s) == "dict":
                    r1.ob(positional is None, f"{c.name}.__iadd__: children of the key-addressed `{s}` are paired by key")
                    if positional is not None:
                        rep.finding("R7.1", f, positional, f"the children in the key-addressed `{s}` of the two operands are paired through zip(), "
                                    f"i.e. by position, while __add__ pairs them by key: with the same keys in a different order `a += b` "
                                    f"cross-merges the children", stmt=f"{s}: paired by position in +=")
                r1.ob(merged, f"{c.name}.__iadd__: child slot {s} merged with +=")
                if not merged:
                    rep.finding("R7.1", f, f.node, f"child slot `{s}` is merged by __add__ but never merged in place by __iadd__: "
                                f"after `a += b` the children in `{s}` lack b's content", stmt=f"slot {s} not merged")
                # data-keyed dict slots: keys only present on the right must be inserted
                fill = repo.own_method(c, "fill")
                from .c12 import own_store_targets
                data_keyed = any(t[0] == s for n in walk_local_stmt(fill.node) if isinstance(n, ast.stmt)
                                 for t in own_store_targets(n, fill.params[0]))
                if data_keyed:
                    ins = any(kind == "elem" and any(p == on and fl == s and fv == "full" for (p, fl, fv, z) in labs)
                              for (labs, node, kind) in stores.get((sn, s), []) if isinstance(node, ast.Assign))
                    r1.ob(ins, f"{c.name}.__iadd__: right-only keys of {s} inserted")
                    if not ins:
                        rep.finding("R7.1", f, f.node, f"bins of `{on}.{s}` whose key is absent from `{sn}.{s}` are never inserted: "
                                    f"`+=` drops the right operand's new bins", stmt=f"right-only keys of {s} dropped")
        # R7.1 (keyed form): a dictionary accumulator (Bag.values) merged key by key: the new value at a key on both sides is
        # self[k] + other[k], at a key only on the right it is other[k]
        if dv is None and m.name == "Bag":
            keyed_merge_rule(rep, r1, c, f, "values", sn, on)
        # R7.5: an accumulating store of own state inside a loop must depend on the loop (otherwise it runs once per iteration)
        if dv is None:
            loop_invariant_accumulation(rep, r5, c, f, sn)
        # R7.1 (formula form): for the scalar leaves merged in place, the new state equals the state of self + other as rational functions
        if dv is None and c.name in ("Count", "Sum", "Average", "Deviate"):
            from ..formulas import LeafScenario, add_state, run_body
            from ..poly import Rat, Unsupported
            try:
                env = {}
                for fld in m.acc:
                    env[f"{sn}.{fld}"] = Rat.sym(f"{sn}.{fld}")
                    env[f"{on}.{fld}"] = Rat.sym(f"{on}.{fld}")
                env2, _ = run_body(f, dict(env), LeafScenario(False, False, sn, on))
                want = add_state(add, m.acc, LeafScenario(False, False, add.params[0], add.params[1]))
                ren = {f"{add.params[0]}.{x}": f"{sn}.{x}" for x in m.acc}
                ren.update({f"{add.params[1]}.{x}": f"{on}.{x}" for x in m.acc})
                for fld in m.acc:
                    got = env2[f"{sn}.{fld}"]
                    w = want[fld].rename(ren)
                    okf = got.equals(w)
                    r1.ob(okf, f"{c.name}.__iadd__: {fld} after += is {got!r}")
                    if not okf:
                        rep.finding("R7.1", f, f.node, f"after `a += b` the field `{fld}` is {got!r}, but `a + b` gives {w!r}: the in-place merge does "
                                    f"not compute what the pure merge computes", stmt=f"{fld}: += formula differs from +")
            except Unsupported as e:
                raise AnalysisError(f"{f.construct}: formula extraction failed: {e}")
        # R7.1 (path form): on EVERY path that returns, every content field has been merged before the return
        must_merge_on_all_paths(repo, rep, r1, c, m, f, dv)
        # R7.2
        g = cfgmod.build(f.node)
        ok = True
        for lab, p in g.ret.pred:
            pn = g.nodes[p]
            if not (pn.kind == "stmt" and isinstance(pn.ast, ast.Return) and isinstance(pn.ast.value, ast.Name) and pn.ast.value.id == sn):
                ok = False
                rep.finding("R7.2", f, pn.stmt if pn.stmt is not None else f.node,
                            "a normal path of __iadd__ does not `return self`: `a += b` rebinds a to another object (or None), and "
                            "the parent's loop idiom `for x, y in zip(...): x += y` silently loses the merge",
                            stmt=f"return of {norm(pn.stmt) if pn.stmt is not None else 'fall-through'}")
        r2.ob(ok, f"{c.name}.__iadd__ returns self")
        # R7.3
        before = len(rep.findings)
        c06.self_slot_sinks(repo, rep, ck, models, c, "__iadd__", "R7.3", r3)
        eff = c06.direct_effects(repo, ck, c, f, {sn: "self", on: "other"})
        bad = [(n, d) for n, d in eff if "borrowed from other" in d]
        for n, d in bad:
            rep.finding("R7.3", f, n, f"`+=` must leave its right operand unchanged but performs a {d}")
        r3.ob(not bad and len(rep.findings) == before, f"{c.name}.__iadd__: other untouched, nothing borrowed retained")
    # R7.4
    cont = repo.cls("Container", "histogrammar.defs")
    f = repo.own_method(cont, "fillsparksql")
    sn = f.params[0]
    ok = False
    for n in walk_local_stmt(f.node):
        if isinstance(n, ast.AugAssign) and isinstance(n.op, ast.Add) and isinstance(n.target, ast.Name) and n.target.id == sn:
            ok = True
    r4.ob(ok, "Container.fillsparksql: self += delta")
    if not ok:
        rep.finding("R7.4", f, f.node, "fillsparksql does not merge the JVM result with `self += delta`", stmt="self += delta")
