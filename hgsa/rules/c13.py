"""C13 - derived views agree with fill (narrow structural part)."""

import ast

from ..astutil import call_name, chain, walk_local_stmt
from ..loader import demangle, AnalysisError, FuncInfo, norm, primitives
from ..poly import Rat, Unsupported, formula
from ..resolve import unresolved_self_loads

ACCESSORS = ("num_bins", "bin_entries", "bin_edges", "bin_centers")
CONFIRMED_ROUTING = {"Bin": {"bin"}, "SparselyBin": {"bin"}, "CentrallyBin": {"index"}}
BINNED = ("Bin", "SparselyBin", "CentrallyBin", "IrregularlyBin")


def self_callees(repo, c, f, depth=4, _seen=None):
    """Names of methods of the class reachable through self.m(...) calls from f."""
    _seen = _seen if _seen is not None else set()
    if depth == 0 or not f.params:
        return _seen
    sn = f.params[0]
    for n in walk_local_stmt(f.node):
        if isinstance(n, ast.Call):
            ch = chain(n.func)
            if ch and ch[0] == sn and len(ch) == 2 and ch[1] not in _seen:
                t = repo.lookup(c, ch[1])
                if isinstance(t, FuncInfo):
                    _seen.add(ch[1])
                    self_callees(repo, c, t, depth - 1, _seen)
    return _seen


class Counter:
    """Element-count expression (polynomial over value-numbered locals) of the array an accessor returns.

    Locals are value-numbered by the text of the definitions that *reach* the return under consideration (reaching
    definitions on the CFG), so two accessors that compute the same thing agree regardless of local names.
    """

    def __init__(self, repo, c, f, slots):
        from .. import cfg as cfgmod
        from ..dataflow import reaching_defs

        self.repo, self.c, self.f = repo, c, f
        self.sn = f.params[0]
        self.slots = slots
        self.g = cfgmod.build(f.node)
        self.rd = reaching_defs(self.g)
        self.node_of = {}
        for n in self.g.nodes:
            if n.kind == "stmt":
                self.node_of[id(n.ast)] = n
        self.at = None
        self.calls = {}   # symbol text -> (accessor name, args text) for calls of other accessors

    def def_text(self, name, nid):
        node = self.g.nodes[nid]
        a = node.ast
        if node.kind == "stmt" and isinstance(a, ast.Assign):
            t = a.targets[0]
            if isinstance(t, ast.Tuple):
                idx = [i for i, e in enumerate(t.elts) if isinstance(e, ast.Name) and e.id == name]
                v = a.value
                if isinstance(v, ast.Call) and isinstance(v.func, ast.Attribute) and ast.unparse(v.func.value) == self.sn:
                    return f"{v.func.attr}({','.join(ast.unparse(x) for x in v.args)})#{idx[0] if idx else 0}"
                return f"{ast.unparse(v)}#{idx[0] if idx else 0}"
            return ast.unparse(a.value)
        if node.kind == "stmt" and isinstance(a, ast.AugAssign):
            return f"aug{type(a.op).__name__}:{ast.unparse(a.value)}"
        if node.kind == "entry":
            return f"param:{name}"
        return f"def@{node.kind}"

    def sym(self, name):
        if self.at is None:
            return Rat.sym(name)
        defs = self.rd.get(self.at.id, {}).get(name)
        if not defs:
            return Rat.sym(name)
        parts = sorted(self.def_text(name, d) if d >= 0 else "undef" for d in defs)
        if len(parts) == 1 and parts[0].startswith("param:"):
            return Rat.sym(name)
        # a single plain definition by an integer expression is expanded (value numbering)
        if len(defs) == 1:
            d = list(defs)[0]
            node = self.g.nodes[d] if d >= 0 else None
            if node is not None and node.kind == "stmt" and isinstance(node.ast, ast.Assign) and isinstance(node.ast.targets[0], ast.Name):
                v = node.ast.value
                if isinstance(v, ast.BinOp) and isinstance(v.op, (ast.Add, ast.Sub)):
                    saved = self.at
                    self.at = node
                    try:
                        return self.num(v)
                    finally:
                        self.at = saved
                if isinstance(v, ast.Call):
                    ch = chain(v.func)
                    if ch and ch[0] == self.sn and len(ch) == 2 and ch[1] in ACCESSORS:
                        return self.accessor_call(v)
        return Rat.sym("|".join(parts).replace(" ", ""))

    def accessor_call(self, v):
        ch = chain(v.func)
        txt = f"call:{ch[1]}({','.join(ast.unparse(a) for a in v.args)})".replace(" ", "")
        self.calls[txt] = (ch[1], [ast.unparse(a).replace(" ", "") for a in v.args])
        return Rat.sym(txt)

    def num(self, e):
        if isinstance(e, ast.Name):
            return self.sym(e.id)
        if isinstance(e, ast.Constant) and isinstance(e.value, int):
            return Rat.const(e.value)
        if isinstance(e, ast.BinOp) and isinstance(e.op, (ast.Add, ast.Sub)):
            a, b = self.num(e.left), self.num(e.right)
            return a + b if isinstance(e.op, ast.Add) else a - b
        if isinstance(e, ast.Call) and call_name(e) == "len" and len(e.args) == 1:
            return Rat.sym("len(" + ast.unparse(e.args[0]).replace(" ", "") + ")")
        if isinstance(e, ast.Call):
            ch = chain(e.func)
            if ch and ch[0] == self.sn and len(ch) == 2 and ch[1] in ACCESSORS:
                return self.accessor_call(e)
        return Rat.sym(ast.unparse(e).replace(" ", ""))

    def count(self, e):
        if isinstance(e, ast.Name):
            defs = self.rd.get(self.at.id, {}).get(e.id) if self.at is not None else None
            if defs and len(defs) == 1:
                d = list(defs)[0]
                node = self.g.nodes[d] if d >= 0 else None
                if node is not None and node.kind == "stmt" and isinstance(node.ast, ast.Assign) and isinstance(node.ast.targets[0], ast.Name):
                    saved = self.at
                    self.at = node
                    try:
                        return self.count(node.ast.value)
                    finally:
                        self.at = saved
            return None
        if isinstance(e, ast.Call):
            cn = call_name(e) or ""
            last = cn.split(".")[-1]
            if last == "array" and e.args:
                return self.count(e.args[0])
            if last == "linspace" and len(e.args) >= 3:
                return self.num(e.args[2])
            if last == "concatenate" and e.args and isinstance(e.args[0], (ast.List, ast.Tuple)):
                tot = Rat.const(0)
                for part in e.args[0].elts:
                    if isinstance(part, (ast.List, ast.Tuple)):
                        tot = tot + Rat.const(len(part.elts))
                    else:
                        c = self.count(part)
                        if c is None:
                            return None
                        tot = tot + c
                return tot
            if last in ("range", "xrange"):
                if len(e.args) == 1:
                    return self.num(e.args[0])
                if len(e.args) == 2:
                    return self.num(e.args[1]) - self.num(e.args[0])
            if last == "list" and e.args:
                return self.count(e.args[0])
            ch = chain(e.func)
            if ch and ch[0] == self.sn and len(ch) == 2 and ch[1] in ACCESSORS:
                txt = f"count:{ch[1]}({','.join(ast.unparse(a) for a in e.args)})".replace(" ", "")
                self.calls[txt] = (ch[1], [ast.unparse(a).replace(" ", "") for a in e.args])
                return Rat.sym(txt)
            return None
        if isinstance(e, (ast.ListComp, ast.GeneratorExp)) and len(e.generators) == 1 and not e.generators[0].ifs:
            return self.count(e.generators[0].iter)
        if isinstance(e, ast.Subscript) and isinstance(e.slice, ast.Slice):
            sl = e.slice
            if sl.lower is not None and sl.upper is not None and sl.step is None:
                return self.num(sl.upper) - self.num(sl.lower)
            base = self.count(e.value)
            if base is None:
                return None
            if sl.lower is None and isinstance(sl.upper, ast.UnaryOp) and isinstance(sl.upper.op, ast.USub):
                return base - self.num(sl.upper.operand)
            if sl.upper is None and sl.lower is not None:
                return base - self.num(sl.lower)
            return None
        if isinstance(e, ast.Attribute) and isinstance(e.value, ast.Name) and e.value.id == self.sn:
            if e.attr in self.slots:
                return Rat.sym(f"len({self.sn}.{e.attr})")
            return None
        if isinstance(e, ast.BinOp):
            l, r = self.count(e.left), self.count(e.right)
            return l if l is not None else r
        return None

    def returns(self):
        out = []
        for n in sorted((x for x in walk_local_stmt(self.f.node) if isinstance(x, ast.Return) and x.value is not None),
                        key=lambda x: x.lineno):
            par = getattr(n, "_parent", None)
            guard = ast.unparse(par.test).replace(" ", "") if isinstance(par, ast.If) and n in par.body else ""
            out.append((guard, n))
        return out


def entries_depths(f, root):
    """[(depth, ast.Attribute)] for every load of `<x>.entries` in f whose receiver is reached from `root` through bin slots
    (`.values` / `.bins`): depth 1 = a sub-histogram of the root (an x-slice), depth 2 = an inner-most bin."""
    env = {root: 0}
    out = []

    def d(e):
        if isinstance(e, ast.Name):
            return env.get(e.id)
        if isinstance(e, ast.Attribute):
            b = d(e.value)
            if e.attr in ("values", "bins") and isinstance(b, int):
                return ("slot", b)
            return None
        if isinstance(e, ast.Call):
            if isinstance(e.func, ast.Name) and e.func.id in ("enumerate", "list", "dict", "sorted", "reversed", "tuple") and e.args:
                return d(e.args[0])
            if isinstance(e.func, ast.Attribute) and e.func.attr in ("items", "values", "keys") and not e.args:
                return d(e.func.value)
            return None
        if isinstance(e, ast.Subscript):
            b = d(e.value)
            if isinstance(b, tuple):
                return b[1] + 1
            if isinstance(b, int) and isinstance(e.slice, ast.Constant):
                return b      # second element of a (threshold, aggregator) pair
            return None
        return None

    def bind(t, it):
        b = d(it)
        if not isinstance(b, tuple):
            return
        el = b[1] + 1
        if isinstance(t, ast.Name):
            env[t.id] = el
        elif isinstance(t, ast.Tuple) and t.elts and isinstance(t.elts[-1], ast.Name):
            env[t.elts[-1].id] = el

    for _ in range(4):
        for n in ast.walk(f.node):
            if isinstance(n, ast.For):
                bind(n.target, n.iter)
            elif isinstance(n, (ast.ListComp, ast.GeneratorExp, ast.SetComp, ast.DictComp)):
                for g in n.generators:
                    bind(g.target, g.iter)
            elif isinstance(n, ast.Assign) and len(n.targets) == 1 and isinstance(n.targets[0], ast.Name):
                b = d(n.value)
                if b is not None:
                    env[n.targets[0].id] = b
    for n in ast.walk(f.node):
        if isinstance(n, ast.Attribute) and n.attr == "entries" and isinstance(n.ctx, ast.Load):
            b = d(n.value)
            if isinstance(b, int):
                out.append((b, n))
    return out


def helper_positions(repo, c, hname, slots):
    """For a helper returning a tuple: position -> Rat over the symbols '#j' of the positions that are plain locals."""
    h = repo.lookup(c, hname)
    if not isinstance(h, FuncInfo):
        return None
    k = Counter(repo, c, h, slots)
    rets = [r for g, r in k.returns() if isinstance(r.value, ast.Tuple)]
    if not rets:
        return None
    r = rets[-1]
    k.at = k.node_of.get(id(r))
    names = [e.id if isinstance(e, ast.Name) else None for e in r.value.elts]
    out = {}
    base = {}
    arith = {}
    for i, nm in enumerate(names):
        if nm is None:
            continue
        defs = k.rd.get(k.at.id, {}).get(nm, ())
        d = list(defs)[0] if len(defs) == 1 else None
        node = k.g.nodes[d] if d is not None and d >= 0 else None
        if node is not None and node.kind == "stmt" and isinstance(node.ast, ast.Assign) and isinstance(node.ast.value, ast.BinOp) and \
                isinstance(node.ast.value.op, (ast.Add, ast.Sub)) and all(
                    isinstance(x, (ast.Name, ast.Constant, ast.BinOp, ast.operator, ast.expr_context)) for x in ast.walk(node.ast.value)):
            arith[i] = node
        else:
            base[nm] = i
    for i, node in arith.items():
        def conv(e):
            if isinstance(e, ast.Name):
                return Rat.sym(f"#{base[e.id]}") if e.id in base else None
            if isinstance(e, ast.Constant) and isinstance(e.value, int):
                return Rat.const(e.value)
            if isinstance(e, ast.BinOp) and isinstance(e.op, (ast.Add, ast.Sub)):
                a, b = conv(e.left), conv(e.right)
                if a is None or b is None:
                    return None
                return a + b if isinstance(e.op, ast.Add) else a - b
            return None
        v = conv(node.ast.value)
        if v is not None:
            out[i] = v
    return out


def sentinel_indexes_guarded(repo, rep, prims, models):
    """R13.15: an index method that answers "no such bin" with a negative sentinel (`return -1`) must never be used unguarded as a
    position in a list of children: Python wraps a negative position around to the last bin.  Accepted guards around the
    subscript (same call text, or the local holding the result): `i in self.indexes/range(...)`, `i >= 0`, `i > -1`, `i != -1`,
    `0 <= i ...`, or the else side of `i < 0` / `i == -1` / `i not in ...`."""
    r15 = rep.rule("R13.15", "a bin index that may be the negative 'no bin' sentinel is range-checked before it addresses a list of children", floor=1)
    for c in prims:
        if c.name not in BINNED:
            continue
        m = models[c.name]
        list_slots = {s0 for s0, k in m.slot_kind.items() if k != "dict"}
        sentinels = set()
        for f in c.methods.values():
            for n in walk_local_stmt(f.node):
                if isinstance(n, ast.Return) and isinstance(n.value, ast.UnaryOp) and isinstance(n.value.op, ast.USub) and isinstance(n.value.operand, ast.Constant):
                    sentinels.add(f.name)
        if not sentinels or not list_slots:
            continue
        for f in c.methods.values():
            if f.name in ("fill", "_numpy") or not f.params:
                continue
            sn = f.params[0]

            def is_sentinel_call(e):
                return isinstance(e, ast.Call) and isinstance(e.func, ast.Attribute) and isinstance(e.func.value, ast.Name) and e.func.value.id == sn and e.func.attr in sentinels

            # locals holding (lists of) sentinel results
            holders, list_holders = set(), set()
            changed = True
            while changed:
                changed = False
                for n in ast.walk(f.node):
                    tg = val = None
                    if isinstance(n, ast.Assign) and len(n.targets) == 1 and isinstance(n.targets[0], ast.Name):
                        tg, val = n.targets[0].id, n.value
                        if is_sentinel_call(val) or (isinstance(val, ast.Name) and val.id in holders):
                            if tg not in holders:
                                holders.add(tg)
                                changed = True
                        if isinstance(val, (ast.ListComp, ast.GeneratorExp)) and (is_sentinel_call(val.elt) or (isinstance(val.elt, ast.Name) and val.elt.id in holders)):
                            if tg not in list_holders:
                                list_holders.add(tg)
                                changed = True
                        if isinstance(val, ast.Call) and isinstance(val.func, ast.Name) and val.func.id in ("map", "list") and any(
                                (isinstance(x, ast.Attribute) and isinstance(x.value, ast.Name) and x.value.id == sn and x.attr in sentinels) or (isinstance(x, ast.Name) and x.id in list_holders)
                                for a0 in val.args for x in ast.walk(a0)):
                            if tg not in list_holders:
                                list_holders.add(tg)
                                changed = True
                    if isinstance(n, (ast.For, ast.comprehension)) and isinstance(n.target, ast.Name) and isinstance(n.iter, ast.Name) and n.iter.id in list_holders:
                        if n.target.id not in holders:
                            holders.add(n.target.id)
                            changed = True
            pm = {}
            for n in ast.walk(f.node):
                for ch in ast.iter_child_nodes(n):
                    pm[ch] = n

            def excludes(test, key, positive):
                if isinstance(test, ast.BoolOp):
                    if isinstance(test.op, ast.And) and positive:
                        return any(excludes(v, key, True) for v in test.values)
                    if isinstance(test.op, ast.Or) and not positive:
                        return any(excludes(v, key, False) for v in test.values)
                    return False
                if isinstance(test, ast.UnaryOp) and isinstance(test.op, ast.Not):
                    return excludes(test.operand, key, not positive)
                if not isinstance(test, ast.Compare):
                    return False
                items = [test.left] + list(test.comparators)
                for i, op in enumerate(test.ops):
                    l, r = items[i], items[i + 1]
                    lt, rt = ast.unparse(l), ast.unparse(r)

                    def const(e):
                        try:
                            v = ast.literal_eval(e)
                            return v if isinstance(v, (int, float)) and not isinstance(v, bool) else None
                        except Exception:
                            return None
                    if lt == key:
                        cv = const(r)
                        if positive:
                            if isinstance(op, ast.In):
                                return True
                            if cv is not None and ((isinstance(op, ast.GtE) and cv >= 0) or (isinstance(op, ast.Gt) and cv >= -1) or (isinstance(op, ast.NotEq) and cv == -1)):
                                return True
                        else:
                            if isinstance(op, ast.NotIn):
                                return True
                            if cv is not None and ((isinstance(op, ast.Lt) and cv >= 0) or (isinstance(op, ast.LtE) and cv >= -1) or (isinstance(op, ast.Eq) and cv == -1)) and len(test.ops) == 1:
                                return True
                    if rt == key:
                        cv = const(l)
                        if positive and cv is not None and ((isinstance(op, ast.LtE) and cv >= 0) or (isinstance(op, ast.Lt) and cv >= -1) or (isinstance(op, ast.NotEq) and cv == -1)):
                            return True
                        if not positive and cv is not None and len(test.ops) == 1 and ((isinstance(op, ast.Gt) and cv >= 0) or (isinstance(op, ast.GtE) and cv >= -1) or (isinstance(op, ast.Eq) and cv == -1)):
                            return True
                return False

            def guarded(node, key):
                cur = node
                while cur in pm:
                    par = pm[cur]
                    if isinstance(par, ast.IfExp) and cur is not par.test and excludes(par.test, key, cur is par.body):
                        return True
                    if isinstance(par, ast.If) and cur is not par.test and excludes(par.test, key, any(x is cur for x in par.body)):
                        return True
                    if isinstance(par, ast.BoolOp) and cur in par.values:
                        for prev in par.values[:par.values.index(cur)]:
                            if excludes(prev, key, isinstance(par.op, ast.And)):
                                return True
                    if isinstance(par, (ast.ListComp, ast.GeneratorExp, ast.SetComp, ast.DictComp)) and any(cur is x for x in ([par.elt] if not isinstance(par, ast.DictComp) else [par.key, par.value])):
                        if any(excludes(t, key, True) for g0 in par.generators for t in g0.ifs):
                            return True
                    # early exits before the statement: `if i < 0: return/continue/raise`
                    if isinstance(par, (ast.FunctionDef, ast.For, ast.While, ast.If, ast.With, ast.Try)):
                        for fld in ("body", "orelse", "finalbody"):
                            blk = getattr(par, fld, None)
                            if isinstance(blk, list) and any(x is cur for x in blk):
                                for prev in blk[:[i for i, x in enumerate(blk) if x is cur][0]]:
                                    if isinstance(prev, ast.If) and not prev.orelse and prev.body and isinstance(prev.body[-1], (ast.Return, ast.Continue, ast.Raise, ast.Break)) \
                                            and excludes(prev.test, key, False):
                                        return True
                    cur = par
                return False

            for n in ast.walk(f.node):
                if not (isinstance(n, ast.Subscript) and isinstance(n.ctx, ast.Load) and not isinstance(n.slice, ast.Slice)):
                    continue
                b = n.value
                if not (isinstance(b, ast.Attribute) and isinstance(b.value, ast.Name) and b.value.id == sn and b.attr in list_slots):
                    continue
                idx = n.slice
                if isinstance(idx, ast.Name):
                    # a comprehension variable is scoped to its comprehension: decide by the generator that binds it
                    cur, gen = n, None
                    while cur in pm and gen is None:
                        cur = pm[cur]
                        if isinstance(cur, (ast.ListComp, ast.GeneratorExp, ast.SetComp, ast.DictComp)):
                            gen = next((g0 for g0 in cur.generators if any(isinstance(x, ast.Name) and x.id == idx.id for x in ast.walk(g0.target))), None)
                    if gen is not None:
                        is_holder = (isinstance(gen.iter, ast.Name) and gen.iter.id in list_holders) or (
                            isinstance(gen.iter, (ast.ListComp, ast.GeneratorExp)) and is_sentinel_call(gen.iter.elt))
                        if not is_holder:
                            continue
                if not (is_sentinel_call(idx) or (isinstance(idx, ast.Name) and idx.id in holders)):
                    continue
                rep.analysed_functions.add(f.construct)
                key = ast.unparse(idx)
                ok = guarded(n, key)
                r15.ob(ok, f"{f.qualname}: `{ast.unparse(n)[:50]}` behind a range check of `{key}`")
                if not ok:
                    which = idx.func.attr if isinstance(idx, ast.Call) else "/".join(sorted(sentinels))
                    rep.finding("R13.15", f, n, f"`{ast.unparse(n)[:60]}`: `{key}` comes from {c.name}.{which}(), which answers -1 for a value in no regular bin, "
                                f"and no enclosing test excludes the negative value (`{key} in self.indexes`, `{key} >= 0`, ...): position -1 is the LAST bin, "
                                f"so a query outside [low, high) - or NaN - is reported with the last bin's content instead of none",
                                stmt=f"sentinel index {key} addresses {b.attr} unguarded")


def adjacent_edges_identical(repo, rep, prims):
    """R13.16: range(index) returns (E(index), E(index + 1)) for ONE floating-point expression E: the upper edge of a bin and the lower
    edge of its right neighbour are then the same double.  Mathematically equal but differently associated expressions (low + width)
    differ by an ulp, and the 2-D grids deduplicate edges with np.unique: every non-shared edge becomes an extra grid line."""
    from .c03 import _canon_float
    r16 = rep.rule("R13.16", "range(i) = (E(i), E(i+1)) for one float expression E (adjacent bins share their edge exactly)", floor=1)

    class Sub(ast.NodeTransformer):
        def __init__(self, env):
            self.env = env

        def visit_Name(self, n):
            if isinstance(n.ctx, ast.Load) and n.id in self.env:
                import copy
                return copy.deepcopy(self.env[n.id])
            return n

    import copy
    for c in prims:
        if c.name not in BINNED:
            continue
        f = c.methods.get("range")
        if f is None or len(f.params) != 2:
            continue
        ip = f.params[1]
        env = {}
        straight = True
        rets = []
        for st in f.node.body:
            if isinstance(st, ast.Expr) and isinstance(st.value, ast.Constant):
                continue
            if isinstance(st, ast.Assign) and len(st.targets) == 1 and isinstance(st.targets[0], ast.Name):
                env[st.targets[0].id] = Sub(env).visit(copy.deepcopy(st.value))
            elif isinstance(st, ast.Return) and isinstance(st.value, ast.Tuple) and len(st.value.elts) == 2:
                rets.append((st, [Sub(env).visit(copy.deepcopy(e)) for e in st.value.elts]))
            else:
                straight = False
        if not straight or not rets or ip in env:
            continue        # not the affine straight-line form (CentrallyBin: midpoints of neighbouring centres)
        rep.analysed_functions.add(f.construct)
        for st, (lo, hi) in rets:
            nxt = Sub({ip: ast.BinOp(left=ast.Name(id=ip, ctx=ast.Load()), op=ast.Add(), right=ast.Constant(value=1))}).visit(copy.deepcopy(lo))
            ok = _canon_float(nxt) == _canon_float(hi)
            r16.ob(ok, f"{c.name}.range: upper edge {ast.unparse(hi)[:60]} is the lower edge at {ip}+1")
            if not ok:
                rep.finding("R13.16", f, st, f"{c.name}.range({ip}) returns the upper edge `{ast.unparse(hi)[:70]}`, which is not the lower-edge expression "
                            f"`{ast.unparse(lo)[:60]}` taken at {ip}+1: the two are rounded differently, so the upper edge of bin i and the lower edge of bin i+1 "
                            f"differ in the last bit for non-dyadic widths - xy_ranges_grid (np.unique over these edges) then reports more edges than bins + 1",
                            stmt=f"{c.name}.range: adjacent edges not the same expression")


def run(repo, rep, tier):
    # these rules reason with helper calls as atoms (the same call = the same value; "reaches the routing function"), so they read the
    # sources WITHOUT helper inlining; the shared rules of C06 run on the inlined view
    inlined_repo = repo
    repo = repo.plain()
    rep.extra["explanation"] = (
        "Narrow structural part of the accessor contract: (R13.1) every `self.x` read in the primitives, their specialised "
        "subclasses and the plotting mixins resolves in each composed class; (R13.2) num_bins/bin_entries/bin_edges/"
        "bin_centers of Bin, SparselyBin and CentrallyBin reach, through self-calls, the same routing function that fill "
        "uses (so 'the bin reported for x' and 'the bin filled for x' cannot drift apart), and no accessor re-implements the "
        "index arithmetic; (R13.3) shape obligations as identities between element-count expressions: one more edge than "
        "entries, one centre and one num_bins per entry, on the full-range branch and on the general branch of every "
        "class; Categorize labels and entries iterate the same dict. Numerical correctness of sub-range arithmetic "
        "(isclose corrections, rounding), 2-D grids, projections and mpv are run-time questions and are not decided."
    )
    rep.extra["explanation"] += " " + (
        "Later additions: (R13.4) 2-D grids/projections read inner-most bins only; (R13.5) every edge expression is the class's one edge function; (R13.6) children are looked up by an index from the class's own index methods; (R13.7/R13.8) shared rules of C06 restricted to views; (R13.9) None-or-number attributes are never used as truth values."
    )
    rep.not_decided += ["sub-range arithmetic (isclose corrections, np.round, arange lengths)", "2-D grids and projections", "mpv"]
    prims, _ = primitives(repo)
    r1 = rep.rule("R13.1", "every self.x read in primitives, specialised classes and plot mixins resolves", floor=1200)
    r2 = rep.rule("R13.2", "accessors reach the routing function fill uses; no re-implemented index arithmetic", floor=10)
    r3 = rep.rule("R13.3", "element counts agree: edges = entries + 1, centres = entries = num_bins", floor=12)
    # ---------------- R13.1
    names = set()
    for cs in repo.classes.values():
        for c in cs:
            if c.name in ("UserFcn", "CachedFcn"):
                continue
            names.add(c.name)
    bad, checked = unresolved_self_loads(repo, classes=names)
    for _ in range(checked - len(bad)):
        r1.ob(True)
    seen = set()
    for f, n, where in bad:
        r1.ob(False, f"{f.qualname}: self.{n.attr}")
        if (f.qualname, n.attr) in seen:
            continue
        seen.add((f.qualname, n.attr))
        rep.finding("R13.1", f, n, f"`self.{n.attr}` is read but none of the composed classes {where[:4]} defines or assigns `{n.attr}`: "
                    f"AttributeError when this accessor path runs", stmt=f"self.{n.attr} unresolved")
    # ---------------- R13.2
    for c in prims:
        if c.name not in BINNED:
            continue
        fill = repo.own_method(c, "fill")
        routing = self_callees(repo, c, fill) - {"_checkForCrossReferences", "quantity", "transform"}
        # only functions that compute an INDEX/KEY for fill count as routing functions shared with the accessors: their result is used
        # (directly or through a local) as the subscript of a child slot.  A helper that hands back the sub-aggregator itself
        # (e.g. an extracted interval search) is fill's private business.
        sn_f = fill.params[0]
        idx_locals = {}
        for n in walk_local_stmt(fill.node):
            if isinstance(n, ast.Assign) and len(n.targets) == 1 and isinstance(n.targets[0], ast.Name):
                ch = chain(n.value.func) if isinstance(n.value, ast.Call) else None
                if ch and ch[0] == sn_f and len(ch) == 2:
                    idx_locals[n.targets[0].id] = ch[1]
        index_fns = set()
        for n in walk_local_stmt(fill.node):
            if isinstance(n, ast.Subscript):
                for x in ast.walk(n.slice):
                    if isinstance(x, ast.Call):
                        ch = chain(x.func)
                        if ch and ch[0] == sn_f and len(ch) == 2:
                            index_fns.add(ch[1])
                    if isinstance(x, ast.Name) and x.id in idx_locals:
                        index_fns.add(idx_locals[x.id])
        predicates = {r for r in routing if r in ("under", "over", "nan")}
        routing = {r for r in routing if r in index_fns or r in predicates}
        # the obligation exists only where sharing was confirmed on the pinned tree (Bin.bin, SparselyBin.bin, CentrallyBin.index): a class
        # whose fill routes with code of its own (IrregularlyBin, also after an index helper has been extracted from fill) has no routing
        # function that the accessors could be expected to share
        routing &= CONFIRMED_ROUTING.get(c.name, set()) | predicates if CONFIRMED_ROUTING.get(c.name) else set()
        for an in ACCESSORS:
            a = repo.lookup(c, an)
            if not isinstance(a, FuncInfo):
                raise AnalysisError(f"{c.name}.{an} not found")
            rep.analysed_functions.add(a.construct)
            takes_x = any(p in ("low", "high", "xvalues") for p in a.params)
            if not takes_x:
                continue
            callees = self_callees(repo, c, a)
            own_arith = [n for n in walk_local_stmt(a.node) if isinstance(n, ast.Call) and (call_name(n) or "").split(".")[-1] in
                         ("floor", "bisect", "bisect_left", "bisect_right", "searchsorted", "digitize")]
            if not routing:
                r2.ob(True, f"{c.name}.{an}: fill routes inline (no shared routing function to compare with)")
                continue
            ok = bool(callees & routing) and not own_arith
            r2.ob(ok, f"{c.name}.{an}: reaches {sorted(callees & routing)} (fill uses {sorted(routing)})")
            if not ok:
                what = "re-implements the index arithmetic itself" if own_arith else f"never reaches fill's routing function(s) {sorted(routing)}"
                rep.finding("R13.2", a, (own_arith[0] if own_arith else a.node), f"{c.name}.{an} {what}: the bin it reports for x can "
                            f"differ from the bin fill puts x into", stmt=f"{an}: routing not shared")
    # ---------------- R13.6: an index computed from the query goes through one of the class's own index methods
    # views are read accessors: they neither modify the histogram nor hand out objects that share its counters
    rep.borrow(inlined_repo, "C06", {"R6.1": ("R13.7", "derived views (accessors, grids, projections) have no store effect on the histogram", 250),
                             "R6.2": ("R13.8", "projections are built from fresh counters", 40)},
               keep=lambda f: f.file.startswith("histogrammar/plot/") or any(x in f.construct for x in (".bin_", ".num_bins", ".mpv", ".range", ".project", ".xy_", ".x_lim", ".y_lim")))
    r6 = rep.rule("R13.6", "children are looked up by an index obtained from the class's own index methods, never from inline arithmetic on the query", floor=6)
    from ..model import build_models as _bm
    _models = _bm(inlined_repo)
    for c in prims:
        if c.name not in BINNED:
            continue
        slots = set(_models[c.name].slots)
        for an in ACCESSORS:
            a = repo.lookup(c, an)
            if not isinstance(a, FuncInfo):
                continue
            sn = a.params[0]
            tainted = set(a.params[1:])

            def routed(e):
                """True if every occurrence of a tainted name in e is inside the arguments of a self-method call"""
                if isinstance(e, ast.Call):
                    ch = chain(e.func)
                    if ch and ch[0] == sn and len(ch) == 2 and isinstance(repo.lookup(c, ch[1]), FuncInfo):
                        return True
                    # map(self.bin, xs): every element is the result of the index method
                    if isinstance(e.func, ast.Name) and e.func.id == "map" and len(e.args) >= 2 and not e.keywords:
                        ch = chain(e.args[0])
                        if ch and ch[0] == sn and len(ch) == 2 and isinstance(repo.lookup(c, ch[1]), FuncInfo):
                            return True
                if isinstance(e, (ast.ListComp, ast.GeneratorExp, ast.SetComp)):
                    # [self.bin(x) for x in xs]: the elements are what counts; the loop variable of a query-derived iterable is query-derived
                    extra = set()
                    for gen in e.generators:
                        if not routed(gen.iter):
                            extra |= {x.id for x in ast.walk(gen.target) if isinstance(x, ast.Name)} - tainted
                    tainted.update(extra)
                    try:
                        return routed(e.elt)
                    finally:
                        tainted.difference_update(extra)
                if isinstance(e, ast.Name):
                    return e.id not in tainted
                if isinstance(e, ast.IfExp):
                    return routed(e.body) and routed(e.orelse)     # the test selects, it does not compute the index
                return all(routed(x) for x in ast.iter_child_nodes(e) if isinstance(x, ast.expr))

            changed = True
            while changed:
                changed = False
                for n in walk_local_stmt(a.node):
                    tg = []
                    val = None
                    if isinstance(n, ast.Assign):
                        tg, val = n.targets, n.value
                    elif isinstance(n, ast.AugAssign):
                        tg, val = [n.target], n.value
                    elif isinstance(n, ast.For):
                        tg, val = [n.target], n.iter
                    elif isinstance(n, ast.comprehension):
                        tg, val = [n.target], n.iter
                    if val is None or routed(val):
                        continue
                    for t in tg:
                        for x in ast.walk(t):
                            if isinstance(x, ast.Name) and x.id not in tainted:
                                tainted.add(x.id)
                                changed = True
            for n in walk_local_stmt(a.node):
                if isinstance(n, ast.Subscript) and isinstance(n.ctx, ast.Load):
                    b = n.value
                    if isinstance(b, ast.Attribute) and isinstance(b.value, ast.Name) and b.value.id == sn and b.attr in slots:
                        idx = n.slice
                        parts = [idx.lower, idx.upper] if isinstance(idx, ast.Slice) else [idx]
                        parts = [x for x in parts if x is not None]
                        if all(isinstance(x, ast.Constant) for x in parts):
                            continue
                        ok = all(routed(x) for x in parts)
                        r6.ob(ok, f"{c.name}.{an}: `{ast.unparse(n)[:60]}`")
                        if not ok:
                            rep.finding("R13.6", a, n, f"`{ast.unparse(n)[:80]}` looks a child up by an index computed inline from the query "
                                        f"({sorted(x.id for p2 in parts for x in ast.walk(p2) if isinstance(x, ast.Name) and x.id in tainted)}), not "
                                        f"by one of {c.name}'s own index methods: ties, NaN and +-inf are then resolved differently from fill, "
                                        f"so the reported bin is not the bin the datum was filled into", stmt=f"{an}: inline index {ast.unparse(idx)[:40]}")
    # ---------------- R13.15
    sentinel_indexes_guarded(repo, rep, prims, _models)
    # ---------------- R13.16
    adjacent_edges_identical(repo, rep, prims)
    # ---------------- R13.3
    for c in prims:
        if c.name not in BINNED:
            continue
        from ..model import build_models
        slots = set(build_models(inlined_repo)[c.name].slots)
        cnt = {}
        counters = {}
        for an in ACCESSORS:
            a = repo.lookup(c, an)
            k = Counter(repo, c, a, slots)
            counters[an] = k
            rets = k.returns()
            if not rets:
                raise AnalysisError(f"{c.name}.{an}: no return")
            full = [r for g, r in rets if "lowisNone" in g and "highisNone" in g]
            gen = rets[-1][1]
            cnt[an] = {}
            for label, r in (("full", full[0] if full else None), ("general", gen)):
                if r is None:
                    continue
                k.at = k.node_of.get(id(r))
                if an == "num_bins":
                    v = r.value
                    if isinstance(v, ast.Call) and call_name(v) == "int":
                        cnt[an][label] = None  # rounded quotient: numeric, not decided
                    else:
                        cnt[an][label] = k.num(v)
                else:
                    cnt[an][label] = k.count(r.value)
        # helpers returning tuples (SparselyBin._bin_range): positions defined arithmetically from other positions
        for an in ACCESSORS:
            for label in list(cnt[an]):
                v = cnt[an][label]
                if v is None:
                    continue
                sub = {}
                for sname in v.symbols():
                    if "#" in sname and "(" in sname:
                        hname = sname.split("(")[0]
                        prefix, pos = sname.rsplit("#", 1)
                        rel = helper_positions(repo, c, hname, slots)
                        if rel and int(pos) in rel:
                            sub[sname] = rel[int(pos)].rename({f"#{j}": f"{prefix}#{j}" for j in range(12)})
                if sub:
                    cnt[an][label] = v.subst(sub)
        # resolve calls of sibling accessors with the caller's own (low, high): same query, same branch
        for an in ACCESSORS:
            k = counters[an]
            a = repo.lookup(c, an)
            own = [p for p in a.params[1:3]]
            for label in list(cnt[an]):
                v = cnt[an][label]
                if v is None:
                    continue
                sub = {}
                unknown = False
                for sname in v.symbols():
                    if sname in k.calls:
                        callee, args = k.calls[sname]
                        if args == own and cnt.get(callee, {}).get(label) is not None:
                            tgt = cnt[callee][label]
                            sub[sname] = tgt
                        else:
                            unknown = True
                if unknown:
                    cnt[an][label] = None
                elif sub:
                    cnt[an][label] = v.subst(sub)

        def agree(a1, a2, label, delta, what):
            x, y = cnt.get(a1, {}).get(label), cnt.get(a2, {}).get(label)
            if x is None or y is None:
                return
            ok = x.equals(y + Rat.const(delta))
            r3.ob(ok, f"{c.name} [{label}]: count({a1}) = {x!r} ; count({a2}) = {y!r} ; expected difference {delta}")
            if not ok:
                f = repo.lookup(c, a1)
                rep.finding("R13.3", f, f.node, f"{c.name} ({label} branch): {a1} has {x!r} elements but {a2} has {y!r}; expected {what}",
                            stmt=f"{a1} vs {a2} [{label}]")

        for label in ("full", "general"):
            agree("bin_edges", "bin_entries", label, 1, "one more edge than bins")
            agree("bin_centers", "bin_entries", label, 0, "one centre per bin")
            agree("bin_entries", "num_bins", label, 0, "num_bins entries")
        # centres written as midpoints of the edges
        bc = repo.lookup(c, "bin_centers")
        for n in walk_local_stmt(bc.node):
            if isinstance(n, ast.Return) and isinstance(n.value, ast.BinOp) and isinstance(n.value.op, ast.Div):
                t = ast.unparse(n.value).replace(" ", "")
                if "[:-1]" in t or "[1:]" in t:
                    # (E[:-1] + E[1:]) / 2 for one and the same edge array E (whatever the local is called)
                    v = n.value
                    ok = False
                    if isinstance(v.right, ast.Constant) and v.right.value in (2, 2.0) and isinstance(v.left, ast.BinOp) and isinstance(v.left.op, ast.Add):
                        parts = [v.left.left, v.left.right]
                        if all(isinstance(x, ast.Subscript) and isinstance(x.slice, ast.Slice) for x in parts) and \
                                ast.unparse(parts[0].value) == ast.unparse(parts[1].value):
                            sl = sorted(ast.unparse(x.slice).replace(" ", "") for x in parts)
                            ok = sl == sorted([":-1", "1:"])
                    r3.ob(ok, f"{c.name}.bin_centers: midpoints of consecutive edges")
                    if not ok:
                        rep.finding("R13.3", bc, n, "bin_centers is not the midpoint `(bin_edges[:-1] + bin_edges[1:]) / 2` of consecutive "
                                    "edges", stmt="centre formula")
    # ---------------- R13.4: 2-D grids and projections read inner-most bins only (exactly the in-range weights)
    r4 = rep.rule("R13.4", "2-D grids/projections sum entries of inner-most bins only (never a slice total or a flow)", floor=10)
    two_d = []
    for mname in ("histogrammar.plot.matplotlib",):
        mod = inlined_repo.modules.get(mname)              # helpers of the grid functions are followed (inlined view)
        if mod is None:
            raise AnalysisError(f"{mname} not found")
        for k in mod.classes.values():
            if "TwoDimensionally" in k.name:
                for fn in ("xy_ranges_grid", "project_on_x", "project_on_y"):
                    if fn in k.methods:
                        two_d.append((k.methods[fn], k.methods[fn].params[0]))
    hn = inlined_repo.modules.get("histogrammar.plot.hist_numpy")
    if hn is None:
        raise AnalysisError("histogrammar.plot.hist_numpy not found")
    for fn in ("set_2dgrid", "set2Dsparse"):
        if fn in hn.functions:
            two_d.append((hn.functions[fn], hn.functions[fn].params[0]))
    for f, root in two_d:
        rep.analysed_functions.add(f.construct)
        for depth, node in entries_depths(f, root):
            ok = depth == 2
            r4.ob(ok, f"{f.qualname}: `{ast.unparse(node)}` reads an inner-most bin" if ok else f"{f.qualname}: `{ast.unparse(node)}` depth {depth}")
            if not ok:
                rep.finding("R13.4", f, node, f"`{ast.unparse(node)}` is the total of a whole {'x-slice' if depth == 1 else 'histogram'} (it includes the "
                            f"slice's underflow/overflow/nanflow weight), not an inner-most bin: the 2-D grid/projection no longer "
                            f"contains exactly the in-range weights", stmt=f"entries at depth {depth}: {ast.unparse(node)}")
    # ---------------- R13.10: the end-of-range corrections (`maxBin -= 1` when `high` sits on an edge) use one predicate in all accessors
    r10 = rep.rule("R13.10", "num_bins / bin_entries / bin_edges / bin_centers decide the end-of-range correction with the same predicate", floor=4)
    for c in prims:
        if c.name not in BINNED:
            continue
        guards = {}      # adjusted variable -> {canonical guard: [accessor]}
        ic = inlined_repo.cls(c.name)
        for an in ACCESSORS:
            a = inlined_repo.lookup(ic, an)          # helpers shared by the accessors (e.g. a common _bin_range) are followed
            if not isinstance(a, FuncInfo):
                continue
            for st in walk_local_stmt(a.node):
                if not isinstance(st, ast.If):
                    continue
                for b in st.body:
                    step = None
                    if isinstance(b, ast.AugAssign) and isinstance(b.target, ast.Name) and isinstance(b.value, ast.Constant) and b.value.value == 1 \
                            and isinstance(b.op, (ast.Add, ast.Sub)):
                        step = (b.target.id, type(b.op).__name__)
                    elif isinstance(b, ast.Assign) and len(b.targets) == 1 and isinstance(b.targets[0], ast.Name) and isinstance(b.value, ast.BinOp) \
                            and isinstance(b.value.op, (ast.Add, ast.Sub)) and isinstance(b.value.left, ast.Name) and b.value.left.id == b.targets[0].id \
                            and isinstance(b.value.right, ast.Constant) and b.value.right.value == 1:
                        step = (b.targets[0].id, type(b.value.op).__name__)          # x = x - 1
                    if step is not None:
                        t = demangle(ast.unparse(st.test)).replace(" ", "")
                        guards.setdefault((demangle(step[0]), step[1]), {}).setdefault(t, []).append((an, a, st))
        for (var, op), forms in guards.items():
            n_sites = sum(len(v) for v in forms.values())
            ok = len(forms) == 1
            for _ in range(n_sites):
                r10.ob(ok, f"{c.name}: correction of `{var}` guarded by {sorted(forms)}")
            if not ok:
                major = max(forms, key=lambda k: len(forms[k]))
                for t, sites in forms.items():
                    if t == major:
                        continue
                    for an, a, st in sites:
                        rep.finding("R13.10", a, st, f"{c.name}.{an} decides the correction of `{var}` with `{t[:80]}` while "
                                    f"{sorted({x[0] for x in forms[major]})} use `{major[:80]}`: for a boundary within rounding of an edge the "
                                    f"accessors disagree on the number of bins (edges, centres and entries no longer line up)",
                                    stmt=f"{an}: correction predicate differs")
    grid_fns_all = [f for f, _ in two_d]
    for fnm in ("prepare2Dsparse", "prepare_2dgrid"):
        if fnm in hn.functions:
            grid_fns_all.append(hn.functions[fnm])
    for m0 in (inlined_repo.modules.get("histogrammar.plot.matplotlib"),):
        for k0 in m0.classes.values():
            if "TwoDimensionally" in k0.name:
                for fnm in ("x_lim", "y_lim"):
                    if fnm in k0.methods and k0.methods[fnm] not in grid_fns_all:
                        grid_fns_all.append(k0.methods[fnm])
    # ---------------- R13.13: the four accessors agree on when a query lies outside the binned domain (empty result)
    r13 = rep.rule("R13.13", "num_bins / bin_entries / bin_edges / bin_centers return an empty result for the same out-of-domain queries", floor=3)
    for c in prims:
        if c.name not in BINNED:
            continue
        ic = inlined_repo.cls(c.name)
        empties = {}     # accessor -> frozenset of guard texts that lead to an empty result
        fns = {}
        for an in ACCESSORS:
            a = inlined_repo.lookup(ic, an)
            if not isinstance(a, FuncInfo):
                continue
            fns[an] = a
            guards = set()
            for st in walk_local_stmt(a.node):
                if isinstance(st, ast.If):
                    for b in st.body:
                        if isinstance(b, ast.Return) and b.value is not None:
                            v = b.value
                            empty = (isinstance(v, ast.Constant) and v.value == 0) or (isinstance(v, ast.Call) and v.args and isinstance(v.args[0], (ast.List, ast.Tuple))
                                                                                        and not v.args[0].elts and ast.unparse(v.func).endswith("array"))
                            if empty:
                                guards.add(demangle(ast.unparse(st.test)).replace(" ", ""))
            if guards:
                empties[an] = frozenset(guards)
        if len(empties) >= 2:
            major = max(set(empties.values()), key=lambda gset: sum(1 for v in empties.values() if v == gset))
            for an, gset in empties.items():
                ok = gset == major
                r13.ob(ok, f"{c.name}.{an}: empty-result guards {sorted(gset)}")
                if not ok:
                    diff = sorted(gset ^ major)
                    rep.finding("R13.13", fns[an], fns[an].node, f"{c.name}.{an} returns an empty result under {sorted(gset - major) or sorted(gset)} while its sibling "
                                f"accessors do so under {sorted(major - gset) or sorted(major)}: for a query that overlaps the binned domain on one side "
                                f"this view is empty while the others report bins, so edges, centres and entries no longer line up",
                                stmt=f"{an}: out-of-domain guard differs ({diff[0][:50]})")
    # ---------------- R13.14: an edge `index * width + origin` takes width and origin from the same axis
    r14 = rep.rule("R13.14", "affine edge expressions of the 2-D views combine the bin width and the origin of one and the same histogram", floor=4)
    for f in grid_fns_all:
        defs = {}
        for st in walk_local_stmt(f.node):
            if isinstance(st, ast.Assign) and len(st.targets) == 1 and isinstance(st.targets[0], ast.Name):
                defs.setdefault(st.targets[0].id, []).append(st.value)
        for n in walk_local_stmt(f.node):
            if isinstance(n, ast.BinOp) and isinstance(n.op, (ast.Add, ast.Sub)) and not isinstance(getattr(n, "_parent", None), ast.BinOp):
                owners_w, owners_o = set(), set()
                for x in ast.walk(n):
                    if isinstance(x, ast.Attribute) and x.attr in ("binWidth", "origin"):
                        (owners_w if x.attr == "binWidth" else owners_o).add(ast.unparse(x.value))
                    if isinstance(x, ast.Name) and len(defs.get(x.id, [])) == 1:
                        for y in ast.walk(defs[x.id][0]):
                            if isinstance(y, ast.Attribute) and y.attr in ("binWidth", "origin"):
                                (owners_w if y.attr == "binWidth" else owners_o).add(ast.unparse(y.value))
                if owners_w and owners_o:
                    ok = owners_w == owners_o
                    r14.ob(ok, f"{f.qualname}: `{ast.unparse(n)[:60]}`")
                    if not ok:
                        rep.finding("R13.14", f, n, f"`{ast.unparse(n)[:80]}` combines the bin width of `{sorted(owners_w)[0]}` with the origin of "
                                    f"`{sorted(owners_o)[0]}`: the edges of one axis are shifted by the other axis' origin, so the reported ranges no "
                                    f"longer contain the data filled into the corresponding cells (whenever the two origins differ)",
                                    stmt=f"edge mixes width and origin of different axes")
    # ---------------- R13.11: cells of a 2-D grid are addressed by dense positions
    r11 = rep.rule("R13.11", "grid cells are addressed by positions of a dense index range (or by lookup in the axis' key list), never by the rank among filled bins", floor=8)
    grid_fns = [f for f, _ in two_d]
    for f in grid_fns:
        binders = {}
        once = {}
        for n in walk_local_stmt(f.node):
            if isinstance(n, ast.Assign) and len(n.targets) == 1 and isinstance(n.targets[0], ast.Name):
                once.setdefault(n.targets[0].id, []).append(n.value)

        def through_local(e):
            """a local bound once to `range(...)` stands for that range"""
            if isinstance(e, ast.Name) and len(once.get(e.id, [])) == 1 and e.id not in f.params:
                v = once[e.id][0]
                if isinstance(v, ast.Call) and isinstance(v.func, ast.Name) and v.func.id == "range":
                    return v
            return e

        for n in walk_local_stmt(f.node):
            if isinstance(n, ast.For):
                it = through_local(n.iter)
                if isinstance(it, ast.Call) and isinstance(it.func, ast.Name) and it.func.id == "enumerate" and it.args:
                    import copy as _copy
                    it = _copy.copy(it)
                    it.args = [through_local(it.args[0])] + list(it.args[1:])
                tnames = [x.id for x in ast.walk(n.target) if isinstance(x, ast.Name)]
                kind = None
                if isinstance(it, ast.Call) and isinstance(it.func, ast.Name) and it.func.id == "range":
                    kind = "range"
                elif isinstance(it, ast.Call) and isinstance(it.func, ast.Name) and it.func.id == "enumerate" and it.args:
                    inner = it.args[0]
                    if isinstance(inner, ast.Call) and isinstance(inner.func, ast.Name) and inner.func.id == "range":
                        kind = "range"
                    elif isinstance(inner, ast.Attribute) and inner.attr == "values":
                        kind = "dense list"
                    elif isinstance(inner, ast.Name) or (isinstance(inner, ast.Attribute)):
                        kind = "dense list" if "keys" in ast.unparse(inner) else f"enumerate({ast.unparse(inner)[:40]})"
                    else:
                        kind = f"enumerate({ast.unparse(inner)[:40]})"
                    # only the position (first target) is constrained
                    if isinstance(n.target, ast.Tuple) and n.target.elts and isinstance(n.target.elts[0], ast.Name):
                        tnames = [n.target.elts[0].id]
                else:
                    kind = f"iteration over {ast.unparse(it)[:40]}"
                for t in tnames:
                    binders.setdefault(t, set()).add(kind)
            elif isinstance(n, ast.Assign) and len(n.targets) == 1 and isinstance(n.targets[0], ast.Name):
                v = n.value
                if isinstance(v, ast.Call) and isinstance(v.func, ast.Attribute) and v.func.attr == "index":
                    binders.setdefault(n.targets[0].id, set()).add("lookup")
                else:
                    used = {x.id for x in ast.walk(v) if isinstance(x, ast.Name)}
                    binders.setdefault(n.targets[0].id, set()).add(("derived", tuple(sorted(used))))
        params = set(f.params)

        def dense(name, seen=()):
            if name in params:
                return True            # a position handed in by the caller (checked where it is computed)
            kinds = binders.get(name)
            if not kinds or name in seen:
                return False
            for k in kinds:
                if k in ("range", "dense list", "lookup"):
                    continue
                if isinstance(k, tuple) and k[0] == "derived":
                    if all(dense(u, seen + (name,)) or u not in binders and u not in params for u in k[1] if u in binders or u in params):
                        continue
                    return False
                return False
            return True
        for n in walk_local_stmt(f.node):
            # a store into a two-dimensional cell `G[a, b] = ...` of a local/parameter array
            if isinstance(n, ast.Subscript) and isinstance(n.ctx, ast.Store) and isinstance(n.value, ast.Name) and isinstance(n.slice, ast.Tuple) \
                    and len(n.slice.elts) == 2:
                idx = n.slice.elts
                for ix in idx:
                    names = [x.id for x in ast.walk(ix) if isinstance(x, ast.Name)]
                    bad = [nm for nm in names if not dense(nm)]
                    r11.ob(not bad, f"{f.qualname}: grid position `{ast.unparse(ix)}`")
                    if bad:
                        rep.finding("R13.11", f, n, f"the grid cell `{ast.unparse(n)}` is addressed by `{bad[0]}`, bound by {sorted(map(str, binders.get(bad[0], ['?'])))}: "
                                    f"the position is the rank among the bins that happen to be filled, not the offset in the axis' dense index "
                                    f"range, so a gap between filled bins shifts every later row/column against the axis ranges",
                                    stmt=f"grid position {ast.unparse(ix)} from a sparse enumeration")
    # ---------------- R13.17: a loop index runs over the bins of the histogram it indexes (outer axis vs the nested, inner axis)
    r17 = rep.rule("R13.17", "in the 2-D views a loop variable that indexes the bins of the outer/inner histogram is bounded by that same histogram's bin count", floor=2)
    import copy as _cp
    for f in grid_fns:
        once2 = {}
        for n in walk_local_stmt(f.node):
            if isinstance(n, ast.Assign) and len(n.targets) == 1 and isinstance(n.targets[0], ast.Name):
                once2.setdefault(n.targets[0].id, []).append(n.value)

        class _Res(ast.NodeTransformer):
            def __init__(self, depth=0):
                self.depth = depth

            def visit_Name(self, n):
                if isinstance(n.ctx, ast.Load) and len(once2.get(n.id, [])) == 1 and n.id not in f.params and self.depth < 3:
                    return _Res(self.depth + 1).visit(_cp.deepcopy(once2[n.id][0]))
                return n

        def nesting(e):
            """how many `.bins[...]` / `.values[...]` levels deep the histogram is that e talks about"""
            e = _Res().visit(_cp.deepcopy(e))
            return sum(1 for x in ast.walk(e) if isinstance(x, ast.Subscript) and isinstance(x.value, ast.Attribute) and x.value.attr in ("bins", "values"))

        for n in walk_local_stmt(f.node):
            if not (isinstance(n, ast.For) and isinstance(n.target, ast.Name) and isinstance(n.iter, ast.Call) and isinstance(n.iter.func, ast.Name)
                    and n.iter.func.id == "range" and n.iter.args):
                continue
            bound = n.iter.args[-1] if len(n.iter.args) <= 2 else n.iter.args[1]
            if not any(isinstance(x, ast.Attribute) for x in ast.walk(_Res().visit(_cp.deepcopy(bound)))):
                continue                 # a bound that is not taken from a histogram
            db = nesting(bound)
            var = n.target.id
            for sub in ast.walk(n):
                if isinstance(sub, ast.Subscript) and isinstance(sub.value, ast.Attribute) and sub.value.attr in ("bins", "values") \
                        and any(isinstance(x, ast.Name) and x.id == var for x in ast.walk(sub.slice)):
                    du = nesting(sub.value.value) if not isinstance(sub.value.value, ast.Name) else nesting(sub.value.value)
                    ok = du == db
                    r17.ob(ok, f"{f.qualname}: `{ast.unparse(sub)[:50]}` indexed by `{var}` bounded by `{ast.unparse(bound)[:30]}`")
                    if not ok:
                        rep.finding("R13.17", f, n, f"`{var}` runs up to `{ast.unparse(bound)[:40]}`, a bin count of the {'outer' if db == 0 else 'nested'} histogram, but indexes "
                                    f"`{ast.unparse(sub)[:60]}`, the bins of the {'outer' if du == 0 else 'nested'} one: with different numbers of x and y bins part of the "
                                    f"grid is never filled in (or the loop runs past the last bin)", stmt=f"loop over {var}: bound and indexed bins from different axes")
    # ---------------- R13.12: the length of a view is never left to the rounding of np.arange
    # np.arange(start, stop, step) has ceil((stop - start) / step) elements, computed in floating point.  With float arguments
    # whose exact quotient is an integer n (edges low..high in steps of the bin width) the result has n or n + 1 elements
    # depending on the rounding of the quotient - numpy's documentation says to use linspace (or an integer arange) instead.
    r12 = rep.rule("R13.12", "accessors, grids and projections never take the length of an array from np.arange over float arguments", floor=1)
    float_fields = set()
    for c in prims:
        if c.name in BINNED:
            float_fields |= {f0 for f0 in _models[c.name].structural if f0 in ("low", "high", "binWidth", "origin")}
    view_fns = []
    for c in prims:
        if c.name in BINNED:
            for an in ACCESSORS + ("bin_width",):
                a = repo.lookup(c, an)
                if isinstance(a, FuncInfo) and a not in view_fns:
                    view_fns.append(a)
    view_fns += [f for f in grid_fns if f not in view_fns]

    def floaty(e, defs, depth=0):
        for x in ast.walk(e):
            if isinstance(x, ast.Constant) and isinstance(x.value, float):
                return True
            if isinstance(x, ast.BinOp) and isinstance(x.op, ast.Div):
                return True
            if isinstance(x, ast.Attribute) and x.attr in float_fields:
                return True
            if isinstance(x, ast.Call) and isinstance(x.func, ast.Attribute) and x.func.attr == "bin_width":
                return True
            if isinstance(x, ast.Name) and depth < 4 and len(defs.get(x.id, [])) >= 1 and any(floaty(d0, defs, depth + 1) for d0 in defs[x.id]):
                return True
        return False
    for f in view_fns:
        defs = {}
        for st in walk_local_stmt(f.node):
            if isinstance(st, ast.Assign) and len(st.targets) == 1 and isinstance(st.targets[0], ast.Name):
                defs.setdefault(st.targets[0].id, []).append(st.value)
            elif isinstance(st, ast.Assign) and len(st.targets) == 1 and isinstance(st.targets[0], ast.Tuple) and isinstance(st.value, ast.Call):
                pass
        # tuple results of helper calls (ylow, yhigh from prepare2Dsparse): followed through the helper's returned tuple
        for st in walk_local_stmt(f.node):
            if isinstance(st, ast.Assign) and len(st.targets) == 1 and isinstance(st.targets[0], ast.Tuple) and isinstance(st.value, ast.Call) \
                    and isinstance(st.value.func, ast.Name):
                h = repo.resolve_name(f.module, st.value.func.id)
                if isinstance(h, FuncInfo):
                    hdefs = {}
                    for hs in walk_local_stmt(h.node):
                        if isinstance(hs, ast.Assign) and len(hs.targets) == 1 and isinstance(hs.targets[0], ast.Name):
                            hdefs.setdefault(hs.targets[0].id, []).append(hs.value)
                    for hr in walk_local_stmt(h.node):
                        if isinstance(hr, ast.Return) and isinstance(hr.value, ast.Tuple) and len(hr.value.elts) == len(st.targets[0].elts):
                            for tg, rv in zip(st.targets[0].elts, hr.value.elts):
                                if isinstance(tg, ast.Name) and floaty(rv, hdefs):
                                    defs.setdefault(tg.id, []).append(ast.Constant(value=0.5))
        for n in walk_local_stmt(f.node):
            if isinstance(n, ast.Call) and isinstance(n.func, ast.Attribute) and n.func.attr == "arange" and isinstance(n.func.value, ast.Name) \
                    and n.func.value.id in ("np", "numpy"):
                bad = [a for a in n.args if floaty(a, defs)]
                r12.ob(not bad, f"{f.qualname}: `{ast.unparse(n)[:60]}`")
                if bad:
                    rep.finding("R13.12", f, n, f"`{ast.unparse(n)[:90]}` takes float arguments (`{ast.unparse(bad[0])[:40]}`): its length is "
                                f"ceil((stop - start) / step) in floating point, which for an exact quotient n comes out as n or n + 1 depending "
                                f"on rounding - the view then has one element more than num_bins / the grid has columns (e.g. Bin(231, -0.555, "
                                f"7.345).bin_centers() has 232 centres for 231 bins)", stmt=f"arange over floats: {ast.unparse(n)[:50]}")
    if not any(True for _ in r12.samples) and r12.obligations == 0:
        r12.ob(True, "no np.arange in the views")
    # ---------------- R13.5: the edge formula is written several times (range(), isclose corrections, edges): one affine function
    r5 = rep.rule("R13.5", "every edge expression of Bin/SparselyBin is the class's own edge function of its index", floor=6)
    for cname in ("Bin", "SparselyBin"):
        c = repo.cls(cname)
        rng = repo.lookup(c, "range")
        if not isinstance(rng, FuncInfo):
            raise AnalysisError(f"{cname}.range not found")
        sn = rng.params[0]

        def resolver(e, env, c=c):
            """inline zero-argument helper methods / properties whose body is a single return"""
            if isinstance(e, ast.Call) and isinstance(e.func, ast.Attribute) and isinstance(e.func.value, ast.Name) and not e.args:
                m = repo.lookup(c, e.func.attr)
                if isinstance(m, FuncInfo):
                    # a straight-line helper: locals assigned once each, then one return
                    body = [x for x in m.node.body if not (isinstance(x, ast.Expr) and isinstance(x.value, ast.Constant))]
                    lenv = {}
                    for x in body:
                        if isinstance(x, ast.Assign) and len(x.targets) == 1 and isinstance(x.targets[0], ast.Name):
                            lenv[x.targets[0].id] = formula(x.value, lenv, resolver)
                        elif isinstance(x, ast.Return) and x is body[-1] and x.value is not None:
                            return formula(x.value, lenv, resolver)
                        else:
                            break
            if isinstance(e, ast.Call) and isinstance(e.func, ast.Name) and e.func.id == "len":
                return Rat.sym("len(" + ast.unparse(e.args[0]).replace(" ", "") + ")")
            raise Unsupported(f"call {ast.unparse(e)}")

        def expand_locals(fn, expr, keep=()):
            """locals of fn with exactly one definition stand for it (`span = self.high - self.low` ... `span * index / num`)"""
            import copy as _copy
            defs = {}
            for st in walk_local_stmt(fn.node):
                if isinstance(st, ast.Assign) and len(st.targets) == 1 and isinstance(st.targets[0], ast.Name):
                    defs.setdefault(st.targets[0].id, []).append(st.value)
                elif isinstance(st, (ast.AugAssign, ast.For)):
                    for x in ast.walk(st.target):
                        if isinstance(x, ast.Name):
                            defs.setdefault(x.id, []).extend([None, None])

            def ex(e, depth):
                class X(ast.NodeTransformer):
                    def visit_Name(self, n):
                        if isinstance(n.ctx, ast.Load) and n.id not in keep and n.id not in fn.params and len(defs.get(n.id, [])) == 1 and depth < 4 \
                                and not isinstance(defs[n.id][0], ast.Call):
                            return ex(defs[n.id][0], depth + 1)
                        if isinstance(n.ctx, ast.Load) and n.id not in keep and n.id not in fn.params and len(defs.get(n.id, [])) == 1 and depth < 4 \
                                and isinstance(defs[n.id][0], ast.Call) and isinstance(defs[n.id][0].func, ast.Name) and defs[n.id][0].func.id == "len":
                            return ex(defs[n.id][0], depth + 1)
                        return n
                return X().visit(_copy.deepcopy(e))
            return ex(expr, 0)

        def edge_formula(expr, c=c, fn=None, keep=()):
            if fn is not None:
                expr = expand_locals(fn, expr, keep)
            # properties read as attributes (self.num) are expanded as well
            class Prop(ast.NodeTransformer):
                def visit_Attribute(self, n):
                    self.generic_visit(n)
                    if isinstance(n.value, ast.Name):
                        m = repo.lookup(c, n.attr)
                        if isinstance(m, FuncInfo) and m.is_property:
                            body = [x for x in m.node.body if not (isinstance(x, ast.Expr) and isinstance(x.value, ast.Constant))]
                            if len(body) == 1 and isinstance(body[0], ast.Return):
                                return Prop().visit(copy.deepcopy(body[0].value))
                    return n
            import copy
            return formula(Prop().visit(copy.deepcopy(expr)), {}, resolver)

        rets = [n.value for n in walk_local_stmt(rng.node) if isinstance(n, ast.Return) and isinstance(n.value, ast.Tuple)]
        if not rets:
            raise AnalysisError(f"{cname}.range does not return a tuple")
        try:
            canon = edge_formula(rets[0].elts[0], fn=rng).rename({rng.params[1]: "K"})
            canon_hi = edge_formula(rets[0].elts[1], fn=rng).rename({rng.params[1]: "K"})
        except Unsupported as e:
            raise AnalysisError(f"{cname}.range: {e}")
        ok = canon_hi.equals(canon.subst({"K": Rat.sym("K") + Rat.const(1)}))
        r5.ob(ok, f"{cname}.range: upper edge of bin K == lower edge of bin K+1")
        if not ok:
            rep.finding("R13.5", rng, rng.node, f"{cname}.range(index): the upper edge {canon_hi!r} is not the lower edge of the next bin",
                        stmt="range edges")
        for f in c.methods.values():
            for n in walk_local_stmt(f.node):
                if isinstance(n, ast.Call) and (call_name(n) or "").split(".")[-1] == "isclose" and len(n.args) >= 2:
                    e = n.args[1]
                    idx = [x.id for x in ast.walk(e) if isinstance(x, ast.Name) and x.id not in (f.params[0],)]
                    if len(set(idx)) != 1:
                        continue
                    try:
                        got = edge_formula(e).rename({idx[0]: "K"})
                    except Unsupported as ex:
                        raise AnalysisError(f"{f.construct}: {ex}")
                    ok = got.equals(canon)
                    r5.ob(ok, f"{f.qualname}: isclose(..., {ast.unparse(e)}) is the lower edge of bin {idx[0]}")
                    if not ok:
                        rep.finding("R13.5", f, n, f"`{ast.unparse(e)}` is compared with a query bound as if it were the lower edge of bin "
                                    f"`{idx[0]}`, but the class's edge function (from range()) is {canon!r}: the on-edge correction fires for "
                                    f"the wrong values, so sub-range views disagree with the bins fill uses", stmt=f"edge expression {ast.unparse(e)}")
    # ---------------- R13.9 optional numbers (None = "nothing filled") are tested with `is None`, never by truthiness: 0 is a valid bin index
    r9 = rep.rule("R13.9", "attributes that are None-or-a-number (minBin, maxBin, low, high ...) are never used as a truth value", floor=3)
    optional = set()
    for c in prims:
        for fn in c.methods.values():
            if not fn.is_property:
                continue
            rets = [x for x in walk_local_stmt(fn.node) if isinstance(x, ast.Return) and x.value is not None]
            vals = []
            for x in rets:
                v = x.value
                vals += [v.body, v.orelse] if isinstance(v, ast.IfExp) else [v]
            from ..canon import always_exits
            has_none = any(isinstance(v, ast.Constant) and v.value is None for v in vals) or not always_exits(fn.node.body)
            has_num = any(isinstance(v, ast.Call) and isinstance(v.func, ast.Name) and v.func.id in ("min", "max", "int", "float", "len") or
                          isinstance(v, (ast.BinOp,)) for v in vals)
            if has_none and has_num:
                optional.add(fn.name)
    if not optional:
        raise AnalysisError("R13.9: no None-or-number property found (SparselyBin.minBin/maxBin expected)")
    nuses = 0
    for fobj in repo.all_functions():
        for n in walk_local_stmt(fobj.node):
            tests = []
            if isinstance(n, (ast.If, ast.While, ast.IfExp)):
                tests.append(n.test)
            if isinstance(n, ast.comprehension):
                tests += n.ifs
            if isinstance(n, ast.Assert):
                tests.append(n.test)
            for t in tests:
                stack = [t]
                while stack:
                    e = stack.pop()
                    if isinstance(e, ast.BoolOp):
                        stack += e.values
                    elif isinstance(e, ast.UnaryOp) and isinstance(e.op, ast.Not):
                        stack.append(e.operand)
                    elif isinstance(e, ast.Attribute) and e.attr in optional:
                        nuses += 1
                        r9.ob(False, f"{fobj.qualname}: `{ast.unparse(e)}` as a truth value")
                        rep.finding("R13.9", fobj, e, f"`{ast.unparse(e)}` is None when nothing is filled and otherwise a bin index, and it is used "
                                    f"as a truth value: the valid index 0 is treated like 'nothing filled', so the slice whose lowest/highest "
                                    f"filled bin is bin 0 is dropped from the derived range and the grid loses its weights",
                                    stmt=f"truthiness of {ast.unparse(e)}")
            if isinstance(n, ast.Compare) and len(n.ops) == 1 and isinstance(n.ops[0], (ast.Is, ast.IsNot)) and isinstance(n.left, ast.Attribute) \
                    and n.left.attr in optional:
                nuses += 1
                r9.ob(True, f"{fobj.qualname}: `{ast.unparse(n)}`")
    cat = [c for c in prims if c.name == "Categorize"][0]
    srcs = {}
    for an in ("bin_entries", "bin_labels"):
        a = repo.lookup(cat, an)
        sn = a.params[0]
        its = set()
        for n in walk_local_stmt(a.node):
            if isinstance(n, (ast.ListComp, ast.For)):
                it = n.generators[0].iter if isinstance(n, ast.ListComp) else n.iter
                for x in ast.walk(it):
                    if isinstance(x, ast.Attribute) and isinstance(x.value, ast.Name) and x.value.id == sn:
                        its.add(x.attr)
            if isinstance(n, ast.Call) and call_name(n) == "list":
                for x in ast.walk(n):
                    if isinstance(x, ast.Attribute) and isinstance(x.value, ast.Name) and x.value.id == sn:
                        its.add(x.attr)
        srcs[an] = its
    ok = bool(srcs["bin_entries"] & srcs["bin_labels"])
    r3.ob(ok, f"Categorize: bin_entries iterates {sorted(srcs['bin_entries'])}, bin_labels {sorted(srcs['bin_labels'])}")
    if not ok:
        a = repo.lookup(cat, "bin_labels")
        rep.finding("R13.3", a, a.node, "Categorize.bin_entries and bin_labels do not iterate the same dict: labels and entries are "
                    "not aligned", stmt="labels vs entries")
