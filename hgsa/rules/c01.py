"""C01 - merge is a commutative monoid homomorphism (structure of __add__, zero, fill vs add)."""

import ast

from .. import cfg as cfgmod
from ..astutil import call_name, walk_local_stmt
from ..builder import ResultFields, bind_call_args
from ..formulas import LeafScenario, add_state, fill_state
from ..loader import AnalysisError, ClassInfo, FuncInfo, norm, primitives
from ..model import USERFCN_FIELDS, build_models
from ..poly import Rat, Unsupported
from ..taint import FieldTaint

FORMULA_LEAVES = ("Count", "Sum", "Average", "Deviate")


def helper_table(f):
    """Decision table of a two-argument NaN-aware combiner: (class x, class y, order) -> 'x' | 'y' | 'nan'."""
    x, y = f.params[0], f.params[1]
    g = cfgmod.build(f.node)
    table = {}
    for cx in ("nan", "num"):
        for cy in ("nan", "num"):
            orders = ("lt", "eq", "gt") if (cx, cy) == ("num", "num") else ("na",)
            for o in orders:
                local_defs = {}

                def ev(e):
                    if isinstance(e, ast.Name) and e.id in local_defs:
                        return ev(local_defs[e.id])              # a flag such as `xmissing = math.isnan(x)`
                    if isinstance(e, ast.Call) and isinstance(e.func, ast.Name) and e.func.id == "bool" and len(e.args) == 1:
                        return ev(e.args[0])
                    if isinstance(e, ast.BoolOp):
                        vals = [ev(v) for v in e.values]
                        if isinstance(e.op, ast.And):
                            return all(vals) if None not in vals or False in vals and not all(v is not False for v in vals) else (False if False in vals else None)
                        return True if True in vals else (None if None in vals else False)
                    if isinstance(e, ast.UnaryOp) and isinstance(e.op, ast.Not):
                        v = ev(e.operand)
                        return None if v is None else not v
                    if isinstance(e, ast.Call) and call_name(e) in ("math.isnan", "np.isnan", "numpy.isnan") and len(e.args) == 1 and isinstance(e.args[0], ast.Name):
                        return (cx if e.args[0].id == x else cy) == "nan" if e.args[0].id in (x, y) else None
                    if isinstance(e, ast.Compare) and len(e.ops) == 1 and isinstance(e.left, ast.Name) and isinstance(e.comparators[0], ast.Name):
                        a, b = e.left.id, e.comparators[0].id
                        if {a, b} != {x, y}:
                            return None
                        if "nan" in (cx, cy):
                            return isinstance(e.ops[0], ast.NotEq)
                        rel = o if a == x else {"lt": "gt", "gt": "lt", "eq": "eq"}[o]
                        return {ast.Lt: rel == "lt", ast.LtE: rel in ("lt", "eq"), ast.Gt: rel == "gt", ast.GtE: rel in ("gt", "eq"),
                                ast.Eq: rel == "eq", ast.NotEq: rel != "eq"}.get(type(e.ops[0]))
                    return None

                nid = g.entry.id
                res = None
                steps = 0
                while steps < 200:
                    steps += 1
                    node = g.nodes[nid]
                    if node.kind == "stmt" and isinstance(node.ast, ast.Assign) and len(node.ast.targets) == 1 and isinstance(node.ast.targets[0], ast.Name) \
                            and node.ast.targets[0].id not in (x, y):
                        local_defs[node.ast.targets[0].id] = node.ast.value
                    if node.kind == "stmt" and isinstance(node.ast, ast.Return):
                        v = node.ast.value
                        hops = 0
                        while isinstance(v, ast.IfExp) and hops < 5:
                            t = ev(v.test)
                            if t is None:
                                break
                            v = v.body if t else v.orelse
                            hops += 1
                        if isinstance(v, ast.Name) and v.id in local_defs and isinstance(local_defs[v.id], ast.Call) and call_name(local_defs[v.id]) == "float":
                            v = local_defs[v.id]
                        if isinstance(v, ast.Name) and v.id in (x, y):
                            res = "x" if v.id == x else "y"
                        elif isinstance(v, ast.Call) and call_name(v) == "float":
                            res = "nan"
                        else:
                            res = "?"
                        break
                    if node.kind == "test":
                        t = ev(node.ast)
                        if t is None:
                            res = "?"
                            break
                        nxt = [s for lab, s in node.succ if lab == ("T" if t else "F")]
                    else:
                        nxt = [s for lab, s in node.succ if lab != "exc"]
                    if not nxt:
                        break
                    nid = nxt[0]
                table[(cx, cy, o)] = res
    return table


def table_ok(table, smaller_wins):
    want = {("nan", "nan", "na"): {"nan", "x", "y"}, ("nan", "num", "na"): {"y"}, ("num", "nan", "na"): {"x"},
            ("num", "num", "eq"): {"x", "y"},
            ("num", "num", "lt"): {"x"} if smaller_wins else {"y"},
            ("num", "num", "gt"): {"y"} if smaller_wins else {"x"}}
    bad = [(k, table.get(k)) for k in want if table.get(k) not in want[k]]
    return bad


def run(repo, rep, tier):
    rep.extra["explanation"] = (
        "Structure of the 19 __add__ and zero() and of the helpers: (R1.1) def-use: the value stored into every content "
        "field of the result depends on that field of BOTH operands (through constructor summaries, comprehensions, key "
        "unions); (R1.2) the combining expression of every scalar accumulator is invariant under swapping self and other "
        "(normal forms of rational functions; guarded empty-side branches compared pairwise); (R1.3) NaN-initialised "
        "fields are combined under a two-sided `entries == 0` guard or through a NaN-as-missing helper whose decision "
        "table over {NaN, number} x order is checked; (R1.4) zero() constructs the same class, passes every structural "
        "argument from the receiver's own corresponding field, reaches child slots only through zero()/templates and "
        "reads no content; (R1.5) the update fill performs (finite datum) equals __add__ with the singleton produced by "
        "filling an empty node, as an identity of rational functions - for the non-empty and the empty node; (R1.6) "
        "defs.combine/increment; (R1.7) the leaf formulas composed with themselves are associative. Decides the algebraic shape of merge over the reals; rounding is not decided."
    )
    rep.extra["explanation"] += " " + (
        'Later additions: (R1.1c) children of key-addressed slots are paired by key; (R1.1d) structural parameters of a+b and zero() come from the operands (per return); (R1.7) the leaf formulas composed with themselves are associative; (R1.8/R1.9/R1.10) shared rules of C07/C06: += keeps and updates the receiver on every path, a+b shares no child with its operands.'
    )
    rep.not_decided += [
        "associativity of container merges beyond the leaves' formulas (follows from per-key/per-slot recursion, R1.1/R1.1b)",
        "the homomorphism for data-dependent key sets and floating-point rounding",
        "reachable NaN/inf values beyond the NaN-as-empty discipline",
    ]
    rep.assumptions += ["real arithmetic (+, *) is commutative/associative; rational-function identities are over the reals"]
    prims, _ = primitives(repo)
    models = build_models(repo)
    r1 = rep.rule("R1.1", "every content field of a + b depends on that field of both operands", floor=40)
    r2 = rep.rule("R1.2", "scalar combining expressions are symmetric under self <-> other", floor=25)
    r3 = rep.rule("R1.3", "NaN-initialised fields: two-sided empty guard or NaN-as-missing helper", floor=5)
    r4 = rep.rule("R1.4", "zero() is parameter-preserving and content-free", floor=40)
    r5 = rep.rule("R1.5", "fill == __add__ with a singleton, as rational functions (non-empty and empty node)", floor=10)
    r7 = rep.rule("R1.7", "leaf merge formulas are associative (composition of the extracted rational functions)", floor=6)
    r6 = rep.rule("R1.6", "defs.combine returns a + b; defs.increment fills and returns its argument", floor=2)
    # partial results are also combined in place (`acc += part`, the Spark path, the containers' own `child += other_child` loops):
    # a += that does not update and return the receiver loses the chunk, so chunked aggregation differs from one pass
    # a partial result that is merged must stay usable in another reduction schedule: a + b may not adopt children of a or b
    rep.borrow(repo, "C06", {"R6.2": ("R1.10", "a + b and zero() share no fillable child with their operands (partials stay valid for other schedules)", 40)},
               keep=lambda f: f.construct.endswith(".__add__") or f.construct.endswith(".zero"))
    rep.borrow(repo, "C04", {"R4.5": ("R1.11", "a + b and zero() of partial results reloaded from JSON keep what only ed() establishes (the result can be merged again)", 20)},
               keep=lambda f: f.construct.endswith(".__add__") or f.construct.endswith(".__iadd__") or f.construct.endswith(".zero"))
    rep.borrow(repo, "C02", {"R2.2": ("R1.12", "fill hands the caller's weight to exactly the specified slots: what one chunk records for a datum does not depend on which chunk the datum is in (additivity of fill over partitions)", 150)})
    rep.borrow(repo, "C02", {"R2.4": ("R1.13", "what fill leaves in mean/variance for every (state class x datum class) pair - infinities of opposite sign included - is what merging the two one-datum partials leaves (single pass = merged chunks for non-finite data)", 80)})
    rep.borrow(repo, "C07", {"R7.2": ("R1.8", "combining partial results with += keeps the receiver (every __iadd__ returns self)", 19),
                             "R7.1": ("R1.9", "+= merges every content field the way + does", 50)})
    for c in prims:
        m = models[c.name]
        add = repo.own_method(c, "__add__")
        rep.analysed_functions.add(add.construct)
        sn, on = add.params
        dict_fields = [s for s, k in m.slot_kind.items() if k == "dict"] + (["values"] if m.name == "Bag" else [])
        rf = ResultFields(repo, c, add, [sn, on], dict_fields)
        if rf.result_cls is None or not (rf.result_cls is c):
            r1.ob(False)
            rep.finding("R1.1", add, add.node, f"__add__ does not construct a {c.name}", stmt="result class")
        if m.name == "Bag":
            from .c07 import keyed_merge_rule
            keyed_merge_rule(rep, r1, c, add, "values", sn, on, rid="R1.1", what="`a + b`")
        for fld in m.acc + m.slots:
            labs = rf.fields.get(fld, frozenset())
            has_s = any(p == sn and f2 == fld and fv == "full" for (p, f2, fv, z) in labs)
            has_o = any(p == on and f2 == fld and fv == "full" for (p, f2, fv, z) in labs)
            r1.ob(has_s and has_o, f"{c.name}.__add__: out.{fld} <- {sorted((p, f2, fv) for (p, f2, fv, z) in labs)}")
            if not (has_s and has_o):
                missing = on if has_s else (sn if has_o else f"{sn} and {on}")
                node = (rf.patch_nodes.get(fld) or rf.ctor_calls or [add.node])[0]
                rep.finding("R1.1", add, node, f"the `{fld}` of the result does not depend on `{missing}.{fld}`: the content "
                            f"aggregated there is lost by the merge (a + b != fill of both chunks)", stmt=f"{fld} ignores {missing}")
        # ---------------- R1.1d structural parameters of a + b / zero() are the operand's own
        from ..builder import structural_missing
        if m.structural:
            for bf, broots, rr, rid in ((add, [sn, on], r1, "R1.1"), (repo.own_method(c, "zero"), None, r4, "R1.4")):
                roots_ = broots or [bf.params[0]]
                missing, rf2 = structural_missing(repo, c, m, bf, roots_, dict_fields)
                if missing is None:
                    continue
                rr.ob(not missing, f"{c.name}.{bf.name}: structural parameters {m.structural} carried over")
                for pname, node in missing:
                    rep.finding(rid, bf, node, f"the structural parameter `{pname}` of the result of {bf.name} does not come from the operand's own "
                                f"`{pname}` (constructor argument left to its default, or never copied): the result has different bins than "
                                f"its operands", stmt=f"{pname} not carried over by {bf.name}")
        # ---------------- R1.1c dict-kind slots are paired by key, never by position
        for fld in m.slots:
            if m.slot_kind.get(fld) != "dict":
                continue
            labs = rf.fields.get(fld, frozenset())
            zs = any(p == sn and f2 == fld and fv == "full" and z for (p, f2, fv, z) in labs)
            zo = any(p == on and f2 == fld and fv == "full" and z for (p, f2, fv, z) in labs)
            ok = not (zs and zo)
            r1.ob(ok, f"{c.name}.__add__: children of the key-addressed `{fld}` are paired by key")
            if not ok:
                node = (rf.patch_nodes.get(fld) or rf.ctor_calls or [add.node])[0]
                rep.finding("R1.1", add, node, f"the children in the key-addressed `{fld}` of the two operands are paired through zip(), i.e. by "
                            f"position: two operands holding the same keys in a different order (equal key sets pass the guard) get "
                            f"their children cross-merged, so a + b != b + a and zero() + h != h", stmt=f"{fld}: paired by position")
        # ---------------- R1.1b key coverage of dict-kind slots: the keys of the result come from both operands
        for fld in m.slots:
            if m.slot_kind.get(fld) != "dict":
                continue
            ft = rf.ft
            keylabs = set()
            for (root, f2), lst in ft.field_stores.items():
                if f2 != fld or root in (sn, on):
                    continue
                for labs, node, kind in lst:
                    if kind == "set":
                        keylabs |= set(labs)
                    elif isinstance(node, (ast.Assign, ast.AugAssign)):
                        for t in (node.targets if isinstance(node, ast.Assign) else [node.target]):
                            if isinstance(t, ast.Subscript):
                                keylabs |= set(ft.L(t.slice, ft.env))
            for call in rf.ctor_calls:
                for kw in call.keywords:
                    if kw.arg is None:
                        keylabs |= set(ft.L(kw.value, ft.env))
            ks = any(p == sn and f2 == fld for (p, f2, fv, z) in keylabs)
            ko = any(p == on and f2 == fld for (p, f2, fv, z) in keylabs)
            # fixed-key collections guard `keySet` equality instead (C10): keys of one side suffice there
            fill = repo.own_method(c, "fill")
            from .c12 import own_store_targets
            data_keyed = any(t[0] == fld for n in walk_local_stmt(fill.node) if isinstance(n, ast.stmt)
                             for t in own_store_targets(n, fill.params[0]))
            ok = (ks and ko) if data_keyed else (ks or ko)
            r1.ob(ok, f"{c.name}.__add__: keys of out.{fld} come from " + ("both operands" if data_keyed else "the (equal) key sets"))
            if not ok:
                missing = on if ks else sn
                rep.finding("R1.1", add, add.node, f"the bins of the result's `{fld}` are created only for the keys of one operand: a "
                            f"bin that exists only in `{missing}.{fld}` is dropped by the merge", stmt=f"{fld}: keys of {missing} dropped")
        # ---------------- R1.2 / R1.5 on the leaves with formulas
        if c.name in FORMULA_LEAVES:
            formulas(repo, rep, r2, r5, c, m, add)
            associativity(repo, rep, r7, c, m, add)
        else:
            # entries of every class: symmetric sum
            try:
                st = add_state_entries(add, m)
                ok = st is not None and st.equals(Rat.sym(f"{sn}.entries") + Rat.sym(f"{on}.entries"))
            except Unsupported as e:
                raise AnalysisError(f"{add.construct}: {e}")
            r2.ob(ok, f"{c.name}.__add__: entries = self.entries + other.entries")
            if not ok:
                rep.finding("R1.2", add, add.node, "the result's `entries` is not `self.entries + other.entries`", stmt="entries formula")
        # ---------------- R1.3
        if c.name in ("Average", "Deviate"):
            nan_table(repo, rep, r3, c, m, add)
            continue_r13 = False
        else:
            continue_r13 = True
        for fld in (m.nan_fields if continue_r13 else []):
            ok, why, node = nan_discipline(repo, c, add, fld)
            r3.ob(ok, f"{c.name}.__add__: NaN field {fld}: {why}")
            if not ok:
                rep.finding("R1.3", add, node or add.node, f"`{fld}` is NaN in an empty aggregator but {why}: zero() + h poisons "
                            f"`{fld}` (the empty aggregator is not an identity for +)", stmt=f"{fld}: NaN discipline")
        # R1.3 (extrema): for Minimize/Maximize the field is NaN not only while empty - a partial that has seen only NaN quantities has
        # entries > 0 and min == NaN - so an emptiness guard does not make Python's builtin min/max safe: min(nan, 3.0) is nan but
        # min(3.0, nan) is 3.0 (not commutative, not what a single pass over the data leaves)
        if continue_r13 and c.name in ("Minimize", "Maximize"):
            for n in walk_local_stmt(add.node):
                if isinstance(n, ast.Call) and isinstance(n.func, ast.Name) and n.func.id in ("min", "max") and len(n.args) >= 2:
                    txt = [ast.unparse(a0) for a0 in n.args]
                    touches = [fld for fld in m.nan_fields if any(t.endswith("." + fld) for t in txt)]
                    r3.ob(not touches, f"{c.name}.__add__: builtin {n.func.id} not applied to the NaN-capable field")
                    if touches:
                        rep.finding("R1.3", add, n, f"`{ast.unparse(n)[:60]}` applies Python's builtin {n.func.id} to `{touches[0]}`, which is NaN also in a NON-empty "
                                    f"{c.name} that has seen only NaN quantities: builtin {n.func.id} keeps its first argument when the comparison with NaN is "
                                    f"false, so a + b and b + a differ and neither is what filling the whole stream leaves", stmt=f"builtin {n.func.id} on NaN-capable {touches[0]}")
        # ---------------- R1.4
        zero_rule(repo, rep, r4, c, m)
    # ---------------- R1.5 for the extrema: fill(datum) agrees with the merge helper applied to (current extremum, datum)
    from ..interp import NAN as INAN, OrderLine, Unsup
    from ..routing import Config, _common, numeric_regions, run_fill
    for cname, fld in (("Minimize", "min"), ("Maximize", "max")):
        c = repo.cls(cname)
        add = repo.own_method(c, "__add__")
        fill = repo.own_method(c, "fill")
        helper = None
        for n in walk_local_stmt(add.node):
            if isinstance(n, ast.Call) and isinstance(n.func, ast.Name) and len(n.args) == 2 and \
                    {ast.unparse(a) for a in n.args} == {f"{add.params[0]}.{fld}", f"{add.params[1]}.{fld}"}:
                h = repo.resolve_name(add.module, n.func.id)
                if isinstance(h, FuncInfo):
                    helper = (h, ast.unparse(n.args[0]) == f"{add.params[0]}.{fld}")
        if helper is None:
            continue   # R1.3 reports a missing helper / guard
        table = helper_table(helper[0])
        line = OrderLine(["cur"])
        for cur_label, cur in (("nan", INAN), ("num", line.pos_of("cur"))):
            cfg = Config(c, line, (lambda cur=cur: _common({fld: cur})), numeric_regions(line), lambda l, q: set(), {}, f"{cname} ({fld} {cur_label})")
            for label, q in cfg.regions:
                try:
                    paths = run_fill(repo, cfg, label, q, "pos")
                except Unsup as e:
                    raise AnalysisError(f"{fill.construct}: {e}")
                qc = "nan" if q is INAN else "num"
                if cur_label == "num" and qc == "num":
                    order = "lt" if cur.k < q.k else ("gt" if cur.k > q.k else "eq")   # x = current, y = datum
                else:
                    order = "na"
                key = (cur_label, qc, order) if helper[1] else (qc, cur_label, {"lt": "gt", "gt": "lt"}.get(order, order))
                hres = table.get(key)
                if not helper[1]:
                    hres = {"x": "y", "y": "x"}.get(hres, hres)
                for p in paths:
                    stores = [a for a in p.accs if a[1] == fld]
                    newv = stores[-1][2] if stores else cur
                    got = "y" if newv is q else ("x" if newv is cur else "?")
                    if cur is INAN and q is INAN:
                        ok = True
                    elif order == "eq":
                        ok = got in ("x", "y")
                    elif hres == "nan":
                        ok = newv is INAN
                    else:
                        ok = got == hres
                    r5.ob(ok, f"{cname}: {fld} {cur_label}, datum {label}: fill keeps {got}, {helper[0].name} gives {hres}")
                    if not ok:
                        rep.finding("R1.5", fill, fill.node, f"{cname}.fill with `{fld}` {('NaN (empty)' if cur is INAN else 'a number')} and a datum in "
                                    f"region `{label}` keeps {'the datum' if got == 'y' else 'the old value' if got == 'x' else repr(newv)}, but merging "
                                    f"the singleton of that datum through `{helper[0].name}` gives {'the datum' if hres == 'y' else 'the old value' if hres == 'x' else hres}: "
                                    f"fill and + disagree, so chunked aggregation differs from one pass", stmt=f"{fld}: fill vs {helper[0].name}, {cur_label}/{label.replace(' ', '')}")
    # ---------------- R1.6
    dm = repo.modules.get("histogrammar.defs")
    for name in ("combine", "increment"):
        f = dm.functions.get(name) if dm else None
        if f is None:
            raise AnalysisError(f"histogrammar.defs.{name} not found")
        body = [s for s in f.node.body if not (isinstance(s, ast.Expr) and isinstance(s.value, ast.Constant))]
        if name == "combine":
            ok = len(body) == 1 and isinstance(body[0], ast.Return) and isinstance(body[0].value, ast.BinOp) and isinstance(
                body[0].value.op, ast.Add) and {ast.unparse(body[0].value.left), ast.unparse(body[0].value.right)} == set(f.params[:2])
        else:
            ok = (len(body) == 2 and isinstance(body[0], ast.Expr) and isinstance(body[0].value, ast.Call)
                  and ast.unparse(body[0].value.func) == f"{f.params[0]}.fill"
                  and [ast.unparse(a) for a in body[0].value.args][:1] == [f.params[1]]
                  and isinstance(body[1], ast.Return) and ast.unparse(body[1].value) == f.params[0])
        r6.ob(ok, f"defs.{name}")
        if not ok:
            rep.finding("R1.6", f, f.node, f"defs.{name} is not the plain " + ("`container1 + container2`" if name == "combine" else
                        "`container.fill(datum); return container`") + ": RDD.aggregate would not compute the partition sum",
                        stmt=f"{name} shape")


def add_state_entries(add, m):
    from ..formulas import run_body

    sn, on = add.params
    env = {f"{sn}.entries": Rat.sym(f"{sn}.entries"), f"{on}.entries": Rat.sym(f"{on}.entries")}
    # execute only the statements assigning `<x>.entries`
    for n in walk_local_stmt(add.node):
        if isinstance(n, ast.Assign) and len(n.targets) == 1 and isinstance(n.targets[0], ast.Attribute) and n.targets[0].attr == "entries":
            from ..poly import formula
            return formula(n.value, env)
    return None


def swap(r, sn, on, fields):
    a = r.rename({f"{sn}.{x}": f"T!.{x}" for x in fields})
    b = a.rename({f"{on}.{x}": f"{sn}.{x}" for x in fields})
    return b.rename({f"T!.{x}": f"{on}.{x}" for x in fields})


def formulas(repo, rep, r2, r5, c, m, add):
    fill = repo.own_method(c, "fill")
    sn, on = add.params
    fields = m.acc
    try:
        gen = add_state(add, fields, LeafScenario(False, False, sn, on))
        left_empty = add_state(add, fields, LeafScenario(True, False, sn, on))
        right_empty = add_state(add, fields, LeafScenario(False, True, sn, on))
        zero = {a: Rat.const(0) for a in fields}
        single = fill_state(fill, fields, LeafScenario(self_empty=True, selfname=fill.params[0]), init=zero)
        filled = fill_state(fill, fields, LeafScenario(self_empty=False, selfname=fill.params[0]))
    except Unsupported as e:
        raise AnalysisError(f"{c.name}: formula extraction failed: {e}")
    fsn = fill.params[0]
    for fld in fields:
        # R1.2 generic branch symmetric; empty branches mirror each other
        ok = swap(gen[fld], sn, on, fields).equals(gen[fld])
        r2.ob(ok, f"{c.name}.__add__: {fld} (both non-empty) = {gen[fld]!r}")
        if not ok:
            rep.finding("R1.2", add, add.node, f"the combining expression of `{fld}` is not invariant under swapping the operands: "
                        f"a + b != b + a  ({gen[fld]!r})", stmt=f"{fld}: not symmetric")
        ok = swap(left_empty[fld], sn, on, fields).equals(right_empty[fld])
        r2.ob(ok, f"{c.name}.__add__: {fld} empty-left branch mirrors empty-right branch")
        if not ok:
            rep.finding("R1.2", add, add.node, f"`{fld}`: the branch for an empty left operand ({left_empty[fld]!r}) is not the mirror "
                        f"image of the branch for an empty right operand ({right_empty[fld]!r})", stmt=f"{fld}: empty branches differ")
        # identity law: empty side contributes nothing (entries := 0 on that side)
        # the empty operand has its __init__ values: numeric constants are substituted, NaN fields must not be used
        empty_vals = {}
        for a2 in fields:
            rhs = m.init_fields.get(a2, [])
            if len(rhs) == 1 and isinstance(rhs[0], ast.Constant) and isinstance(rhs[0].value, (int, float)):
                empty_vals[f"{sn}.{a2}"] = Rat.const(rhs[0].value)
        ident = left_empty[fld].subst(empty_vals)
        ok = ident.equals(Rat.sym(f"{on}.{fld}"))
        r2.ob(ok, f"{c.name}.__add__: zero + h keeps h.{fld}")
        if not ok:
            rep.finding("R1.2", add, add.node, f"with an empty left operand the result's `{fld}` is {ident!r}, not `{on}.{fld}`: "
                        f"zero() is not a left identity", stmt=f"{fld}: left identity")
        # R1.5 non-empty node
        other_state = dict(single)
        try:
            viaadd = add_state(add, fields, LeafScenario(False, False, sn, on), other_state=other_state)[fld]
        except Unsupported as e:
            raise AnalysisError(f"{c.name}: {e}")
        lhs = filled[fld].rename({f"{fsn}.{x}": f"{sn}.{x}" for x in fields})
        ok = lhs.equals(viaadd)
        r5.ob(ok, f"{c.name}: fill({fld}) == (state + singleton).{fld}  [{lhs!r}]")
        if not ok:
            rep.finding("R1.5", fill, fill.node, f"filling one datum into a non-empty node gives `{fld}` = {lhs!r} but merging the node with "
                        f"the singleton of that datum gives {viaadd!r}: fill and + disagree, so chunked aggregation differs from "
                        f"aggregating the whole stream", stmt=f"{fld}: fill != add(singleton)")
        # empty node: fill(empty) == zero + singleton  (add's empty-left branch applied to the singleton)
        try:
            viaadd0 = add_state(add, fields, LeafScenario(True, False, sn, on), self_state=zero, other_state=other_state)[fld]
        except Unsupported as e:
            raise AnalysisError(f"{c.name}: {e}")
        ok = single[fld].equals(viaadd0)
        r5.ob(ok, f"{c.name}: fill on the empty node == (zero + singleton).{fld}")
        if not ok:
            rep.finding("R1.5", fill, fill.node, f"`{fld}` after the first fill ({single[fld]!r}) differs from zero() + singleton "
                        f"({viaadd0!r})", stmt=f"{fld}: first fill")


def associativity(repo, rep, r7, c, m, add):
    """(a + b) + c == a + (b + c) on the all-non-empty branch, by composing the extracted merge formula with itself."""
    sn, on = add.params
    fields = m.acc
    A = {f: Rat.sym(f"A.{f}") for f in fields}
    B = {f: Rat.sym(f"B.{f}") for f in fields}
    C = {f: Rat.sym(f"C.{f}") for f in fields}
    sc = lambda: LeafScenario(False, False, sn, on)
    try:
        ab = add_state(add, fields, sc(), self_state=A, other_state=B)
        bc = add_state(add, fields, sc(), self_state=B, other_state=C)
        left = add_state(add, fields, sc(), self_state=ab, other_state=C)
        right = add_state(add, fields, sc(), self_state=A, other_state=bc)
    except Unsupported as e:
        raise AnalysisError(f"{c.name}: formula composition failed: {e}")
    for fld in fields:
        ok = left[fld].equals(right[fld])
        r7.ob(ok, f"{c.name}.__add__: ((a+b)+c).{fld} == (a+(b+c)).{fld} as rational functions of the nine operand fields")
        if not ok:
            rep.finding("R1.7", add, add.node, f"the combining expression of `{fld}` is not associative: composing the merge with itself, "
                        f"(a + b) + c gives {left[fld]!r} but a + (b + c) gives {right[fld]!r}; the grouping of partial results "
                        f"would change the aggregate", stmt=f"{fld}: not associative")


def nan_table(repo, rep, r3, c, m, add):
    """R1.3 for the mean/variance leaves, decided on IEEE classes: a float-class interpretation of __add__ over all pairs of operand
    states (empty | finite | +inf | -inf | NaN mean) must give the class that merging those data has: an empty side is ignored
    (its NaN placeholders never reach the result), a NaN mean of a NON-empty side poisons, opposite infinities give NaN."""
    from .. import fclass as fc
    from .c02 import want_mean_class

    sn, on = add.params
    states = ["empty", "finite", "+inf", "-inf", "nan"]
    cls_of = {"finite": fc.fin(), "+inf": fc.PINF, "-inf": fc.NINF, "nan": fc.NAN}
    has_var = "varianceTimesEntries" in m.acc

    def put(env, who, st):
        if st == "empty":
            env[f"{who}.entries"] = fc.fin(0)
            env[f"{who}.mean"] = fc.NAN
            env[f"{who}.varianceTimesEntries"] = fc.NAN
        else:
            env[f"{who}.entries"] = fc.fin(1)
            env[f"{who}.mean"] = cls_of[st]
            env[f"{who}.varianceTimesEntries"] = fc.fin() if st == "finite" else fc.NAN

    for sa in states:
        for sb in states:
            env = {}
            put(env, sn, sa)
            put(env, on, sb)
            it = fc.Interp(repo, c, ["entries", "mean", "varianceTimesEntries"], calls={c.name: ("obj", "new")})
            try:
                paths = it.run(add, env)
            except fc.Unsupported as e:
                raise AnalysisError(f"{add.construct}: float-class interpretation failed: {e}")
            if sa == "empty" and sb == "empty":
                wm, wv = "nan", "nan"
            elif sa == "empty":
                wm, wv = sb, ("finite" if sb == "finite" else "nan")
            elif sb == "empty":
                wm, wv = sa, ("finite" if sa == "finite" else "nan")
            else:
                wm = want_mean_class(sa, sb)
                wv = "finite" if (sa == "finite" and sb == "finite") else "nan"
            for pth in paths:
                if pth.outcome == "raise":
                    continue
                outs = [k for k in pth.env if k.endswith(".mean") and not k.startswith(sn + ".") and not k.startswith(on + ".")]
                if not outs:
                    r3.ob(False)
                    rep.finding("R1.3", add, add.node, f"{c.name}.__add__ ({sa} + {sb}): the result's `mean` is never set", stmt=f"mean unset: {sa}+{sb}")
                    continue
                got = pth.env[outs[0]]
                ok = isinstance(got, fc.FV) and got.label == wm
                r3.ob(ok, f"{c.name}.__add__: mean {sa} + {sb} -> {getattr(got, 'label', got)}")
                if not ok:
                    rep.finding("R1.3", add, add.node, f"{c.name}.__add__ of a {'n empty' if sa == 'empty' else sa + '-mean'} aggregator and a "
                                f"{'n empty' if sb == 'empty' else sb + '-mean'} aggregator gives `mean` {getattr(got, 'label', got)} (branches taken at lines "
                                f"{[ln for ln, b in pth.trail if b]}); merging those data gives {wm}"
                                + (": the NaN placeholder of the empty side poisons the result (zero() is not an identity for +)" if "empty" in (sa, sb) else ""),
                                stmt=f"mean: {sa}+{sb} -> {getattr(got, 'label', got)}")
                if has_var:
                    vk = outs[0][:-len("mean")] + "varianceTimesEntries"
                    gv = pth.env.get(vk)
                    okv = isinstance(gv, fc.FV) and gv.label == wv
                    r3.ob(okv, f"{c.name}.__add__: variance {sa} + {sb} -> {getattr(gv, 'label', gv)}")
                    if not okv:
                        rep.finding("R1.3", add, add.node, f"{c.name}.__add__ ({sa} + {sb}) gives `varianceTimesEntries` {getattr(gv, 'label', gv)}; "
                                    f"merging those data gives {wv}", stmt=f"variance: {sa}+{sb} -> {getattr(gv, 'label', gv)}")


def nan_discipline(repo, c, add, fld):
    sn, on = add.params
    g = cfgmod.build(add.node)
    stores = []
    for n in g.nodes:
        if n.kind == "stmt" and isinstance(n.ast, ast.Assign):
            for t in n.ast.targets:
                if isinstance(t, ast.Attribute) and t.attr == fld and isinstance(t.value, ast.Name) and t.value.id not in (sn, on):
                    stores.append(n)
    if not stores:
        return False, "is never stored into the result", None
    # helper form
    for n in stores:
        v = n.ast.value
        if isinstance(v, ast.Call) and isinstance(v.func, ast.Name) and len(v.args) == 2:
            args = {ast.unparse(a) for a in v.args}
            if args == {f"{sn}.{fld}", f"{on}.{fld}"}:
                h = repo.resolve_name(add.module, v.func.id)
                if isinstance(h, FuncInfo):
                    table = helper_table(h)
                    smaller = fld.lower().startswith("min")
                    if not (fld.lower().startswith("min") or fld.lower().startswith("max")):
                        return False, f"is combined through `{h.name}`, whose direction cannot be tied to the field name", n.stmt
                    bad = table_ok(table, smaller)
                    if ast.unparse(v.args[0]) != f"{sn}.{fld}":
                        # arguments swapped: mirror the table expectation is the same (symmetric spec)
                        pass
                    if bad:
                        return False, (f"the helper `{h.name}` does not implement NaN-as-missing {'min' if smaller else 'max'}: "
                                       f"case {bad[0][0]} returns {bad[0][1]}"), n.stmt
                    return True, f"helper {h.name} with a correct NaN-as-missing table", n.stmt
    # guarded form
    tcd = g.transitive_control_deps()

    def guarded_by(node, who, edge):
        for (tid, lab) in tcd[node.id]:
            tn = g.nodes[tid]
            if tn.kind == "test" and lab == edge:
                txt = ast.unparse(tn.ast).replace(" ", "")
                if txt in (f"{who}.entries==0.0", f"{who}.entries==0", f"0.0=={who}.entries"):
                    return True
        return False

    take_other = [n for n in stores if ast.unparse(n.ast.value) == f"{on}.{fld}" and guarded_by(n, sn, "T")]
    take_self = [n for n in stores if ast.unparse(n.ast.value) == f"{sn}.{fld}" and guarded_by(n, on, "T")]
    generic = [n for n in stores if guarded_by(n, sn, "F") and guarded_by(n, on, "F")]
    if take_other and take_self and generic:
        return True, "two-sided entries == 0 guard", None
    missing = []
    if not take_other:
        missing.append(f"no branch `if {sn}.entries == 0.0: out.{fld} = {on}.{fld}`")
    if not take_self:
        missing.append(f"no branch `if {on}.entries == 0.0: out.{fld} = {sn}.{fld}`")
    if not generic:
        missing.append("the general formula is not guarded against both empty sides")
    return False, "; ".join(missing), stores[0].stmt


def zero_rule(repo, rep, r4, c, m):
    z = repo.own_method(c, "zero")
    rep.analysed_functions.add(z.construct)
    sn = z.params[0]
    dict_fields = [s for s, k in m.slot_kind.items() if k == "dict"] + (["values"] if m.name == "Bag" else [])
    rf = ResultFields(repo, c, z, [sn], dict_fields)
    ok = rf.result_cls is c
    r4.ob(ok, f"{c.name}.zero constructs {c.name}")
    if not ok:
        rep.finding("R1.4", z, z.node, f"zero() does not construct a {c.name}: zero() + h is not of h's type", stmt="zero class")
        return
    # content-free: no accumulator is read
    for n in walk_local_stmt(z.node):
        if isinstance(n, ast.Attribute) and isinstance(n.value, ast.Name) and n.value.id == sn and isinstance(n.ctx, ast.Load):
            if n.attr in m.acc:
                r4.ob(False)
                rep.finding("R1.4", z, n, f"zero() reads the content field `{n.attr}`: the 'empty' aggregator carries content over",
                            stmt=f"zero reads {n.attr}")
    # children only through .zero() (or as template)
    from ..ownership import Evaluator, Shapes, bad_parts
    # (freshness of the children is R6.2; here: the *emptiness* - a child may appear only under .zero())
    pm = {}
    for n in ast.walk(z.node):
        for ch in ast.iter_child_nodes(n):
            pm[ch] = n
    ft = rf.ft
    for call in rf.ctor_calls:
        init = repo.method(c, "__init__")
        env, exprs = bind_call_args(init, call, lambda x: ft.L(x, ft.env))
        # which fields does each constructor parameter flow to?
        probe_env = {p: frozenset([("PARAM", p, "full", False)]) for p in init.params[1:]}
        a = init.node.args
        if a.vararg:
            probe_env[a.vararg.arg] = frozenset([("PARAM", a.vararg.arg, "full", False)])
        if a.kwarg:
            probe_env[a.kwarg.arg] = frozenset([("PARAM", a.kwarg.arg, "full", False)])
        pft = FieldTaint(repo, c, init, [], dict_fields, extra_roots=[init.params[0]], init_env=probe_env)
        targets = {}
        for (root, fld), lst in pft.field_stores.items():
            if root != init.params[0]:
                continue
            for labs, node, kind in lst:
                for (p, pn, fv, zz) in labs:
                    if p == "PARAM":
                        targets.setdefault(pn, set()).add(fld)
        for p, labs in env.items():
            flds = {f2 for (pp, f2, fv, zz) in labs if pp == sn}
            tg = targets.get(p, set())
            if not flds:
                r4.ob(True, f"{c.name}.zero: parameter {p} <- constant")
                continue
            allowed = tg | ({m.template} if m.template else set()) | set(USERFCN_FIELDS)
            ok = flds <= allowed and bool(flds & (tg | set(USERFCN_FIELDS)))
            r4.ob(ok, f"{c.name}.zero: parameter {p} (-> {sorted(tg)}) <- self.{sorted(flds)}")
            if not ok:
                rep.finding("R1.4", z, exprs.get(p, call), f"zero() passes `{ast.unparse(exprs[p]) if p in exprs else '...'}` for the "
                            f"constructor parameter `{p}`, which sets {sorted(tg)}: the empty aggregator does not have the "
                            f"receiver's own `{sorted(tg)[0] if tg else p}`, so zero() + h cannot be merged with / differs from h",
                            stmt=f"zero: {p} <- {sorted(flds)}")
    # every slot reference sits under a .zero() call (or len()/keys extraction that yields scalars)
    for n in walk_local_stmt(z.node):
        if isinstance(n, ast.Attribute) and isinstance(n.value, ast.Name) and n.value.id == sn and n.attr in m.slots:
            ok = False
            cur = n
            # climb to the enclosing call chain
            while cur in pm:
                par = pm[cur]
                if isinstance(par, ast.Call) and isinstance(par.func, ast.Attribute) and par.func.attr == "zero" and _under(n, par.func.value):
                    ok = True
                    break
                if isinstance(par, ast.Call) and isinstance(par.func, ast.Name) and par.func.id == "len":
                    ok = True
                    break
                if isinstance(par, (ast.ListComp, ast.DictComp, ast.GeneratorExp, ast.SetComp)):
                    # element aggregators must only be used as `.zero()` receivers inside the comprehension
                    ok = comp_elems_zeroed(par, n, sn)
                    break
                if isinstance(par, ast.stmt):
                    break
                cur = par
            r4.ob(ok, f"{c.name}.zero: slot {n.attr} referenced under zero()/len()")
            if not ok:
                rep.finding("R1.4", z, n, f"zero() uses the child slot `{n.attr}` without `.zero()`: the 'empty' aggregator keeps filled "
                            f"children, so zero() is not an identity for +", stmt=f"zero keeps {n.attr}")


def _under(node, root):
    return any(x is node for x in ast.walk(root))


def comp_elems_zeroed(comp, slot_attr, sn):
    """In `[f(c, v) for c, v in self.bins]` every use of an element name bound from the slot is `x.zero()` or a scalar
    position (first element of a pair, dict key)."""
    bound = []
    for g in comp.generators:
        if any(x is slot_attr for x in ast.walk(g.iter)):
            t = g.target
            if isinstance(t, ast.Tuple) and len(t.elts) == 2:
                if isinstance(t.elts[1], ast.Name):
                    bound.append(t.elts[1].id)   # (scalar, aggregator) / (key, aggregator)
            elif isinstance(t, ast.Name):
                # iterating a dict gives keys; iterating a list of aggregators gives aggregators
                bound.append(t.id)
    parts = [comp.elt] if not isinstance(comp, ast.DictComp) else [comp.key, comp.value]
    pm = {}
    for p in parts:
        for n in ast.walk(p):
            for ch in ast.iter_child_nodes(n):
                pm[ch] = n
    for p in parts:
        for n in ast.walk(p):
            if isinstance(n, ast.Name) and n.id in bound:
                par = pm.get(n)
                if not (isinstance(par, ast.Attribute) and par.attr == "zero" and isinstance(pm.get(par), ast.Call)):
                    # a bare pair-scalar such as `c` in `[c for c, v in self.bins]` is fine; an aggregator is not
                    return False
    return True
