"""C16 - one aggregator placed at two positions of a tree is detected, not double-filled."""

import ast

from .. import cfg as cfgmod
from ..astutil import chain, walk_local_stmt
from ..dataflow import header_exprs
from ..loader import AnalysisError, FuncInfo, norm, primitives
from .c12 import is_child_fill, is_user_call, own_store_targets

GUARD = "_checkForCrossReferences"


def storage_attrs(repo, cls, attr, _seen=()):
    """Expand a self attribute through properties to the stored attributes it reads."""
    r = repo.lookup(cls, attr)
    if isinstance(r, FuncInfo) and r.is_property and attr not in _seen:
        out = set()
        selfname = r.params[0]
        for n in walk_local_stmt(r.node):
            if isinstance(n, ast.Attribute) and isinstance(n.value, ast.Name) and n.value.id == selfname and isinstance(n.ctx, ast.Load):
                out |= storage_attrs(repo, cls, n.attr, _seen + (attr,))
        return out
    return {attr}


def fill_receivers(repo, cls, f):
    """Stored attributes of self whose elements receive .fill/._numpy in f (through loop variables and subscripts)."""
    selfname = f.params[0]
    # loop / comprehension variables bound from self attributes
    var_src = {}
    for n in walk_local_stmt(f.node):
        gens = []
        if isinstance(n, ast.For):
            gens.append((n.target, n.iter))
        elif isinstance(n, (ast.ListComp, ast.GeneratorExp, ast.SetComp, ast.DictComp)):
            gens += [(g.target, g.iter) for g in n.generators]
        elif isinstance(n, ast.Assign) and len(n.targets) == 1:
            v = n.value
            if isinstance(v, ast.Call) and isinstance(v.func, ast.Attribute) and v.func.attr in ("copy", "zero"):
                # a fresh child made from a template: it belongs to the slot it is stored into
                if isinstance(n.targets[0], ast.Name):
                    fresh = n.targets[0].id
                    for st in walk_local_stmt(f.node):
                        if isinstance(st, ast.Assign) and isinstance(st.value, ast.Name) and st.value.id == fresh:
                            for t in st.targets:
                                base = t
                                while isinstance(base, ast.Subscript):
                                    base = base.value
                                if isinstance(base, ast.Attribute) and isinstance(base.value, ast.Name) and base.value.id == selfname:
                                    var_src.setdefault(fresh, set()).add(base.attr)
                continue
            gens.append((n.targets[0], n.value))
        for tgt, it in gens:
            called = {id(c0.func) for c0 in ast.walk(it) if isinstance(c0, ast.Call)}       # self.index(q): a method, not a slot
            tests = {id(x) for c0 in ast.walk(it) if isinstance(c0, ast.IfExp) for x in ast.walk(c0.test)}   # the test selects, it is not the value
            attrs = {a.attr for a in ast.walk(it) if isinstance(a, ast.Attribute) and isinstance(a.value, ast.Name)
                     and a.value.id == selfname and a.attr not in ("quantity", "transform") and id(a) not in called and id(a) not in tests}
            for a in ast.walk(it):
                if isinstance(a, ast.Name) and a.id in var_src:
                    attrs |= var_src[a.id]          # e.g. a tuple of alternatives bound earlier
            if attrs:
                for x in ast.walk(tgt):
                    if isinstance(x, ast.Name) and isinstance(x.ctx, ast.Store):
                        var_src.setdefault(x.id, set()).update(attrs)
    # copies, selections, tuples of alternatives and loops over them propagate the source slots
    # (`ret = sub`, `ret = (sub,)`, `x = a if c else b`, `for target in ret`)
    changed = True
    while changed:
        changed = False
        for n in walk_local_stmt(f.node):
            pairs = []
            if isinstance(n, ast.Assign) and len(n.targets) == 1 and isinstance(n.targets[0], ast.Name):
                v = n.value
                if isinstance(v, ast.Call) and isinstance(v.func, ast.Attribute) and v.func.attr in ("copy", "zero"):
                    continue
                if isinstance(v, (ast.Name, ast.IfExp, ast.Tuple, ast.List)):
                    pairs.append((n.targets[0], v))
            elif isinstance(n, ast.For) and isinstance(n.iter, ast.Name):
                pairs.append((n.target, n.iter))
            elif isinstance(n, ast.Expr) and isinstance(n.value, ast.Call) and isinstance(n.value.func, ast.Attribute) and \
                    isinstance(n.value.func.value, ast.Name) and n.value.func.attr in ("append", "extend", "insert", "add") and n.value.args:
                # waiting.append(x): the list holds what x holds
                pairs.append((ast.Name(id=n.value.func.value.id, ctx=ast.Store()), n.value.args[-1]))
            for tgt, v in pairs:
                src = set()
                for x in ast.walk(v):
                    if isinstance(x, ast.Name) and x.id in var_src:
                        src |= var_src[x.id]
                if not src:
                    continue
                for x in ast.walk(tgt):
                    if isinstance(x, ast.Name) and isinstance(x.ctx, ast.Store):
                        cur = var_src.setdefault(x.id, set())
                        if not src <= cur:
                            cur |= src
                            changed = True
    out = {}
    for n in walk_local_stmt(f.node):
        if isinstance(n, ast.Call) and is_child_fill(n):
            recv = n.func.value
            base = recv
            while isinstance(base, (ast.Subscript, ast.Attribute)) and not (
                isinstance(base, ast.Attribute) and isinstance(base.value, ast.Name) and base.value.id == selfname
            ):
                base = base.value
            attrs = set()
            if isinstance(base, ast.Attribute) and isinstance(base.value, ast.Name) and base.value.id == selfname:
                attrs = {base.attr}
            elif isinstance(base, ast.Name) and base.id in var_src:
                attrs = set(var_src[base.id])
            elif isinstance(base, ast.Name) and base.id == selfname:
                continue
            for a in attrs:
                for s in storage_attrs(repo, cls, a):
                    out.setdefault(s, n)
            if not attrs:
                out.setdefault("?" + ast.unparse(recv), n)
    return out


def run(repo, rep, tier):
    rep.extra["explanation"] = (
        "Dominance and control-dependence analysis: every fill() and fillnumpy calls the cross-reference walk on a "
        "node that dominates every own-state store, child fill and user-function call; the `children` property of "
        "each primitive reads every stored slot whose elements fill()/_numpy() fill (otherwise the walk is blind "
        "there); in the walk itself the identity test and its raise must be reachable on every visit of a traversal, "
        "i.e. not control-dependent on the once-only flag that the same traversal sets. Decides these structural "
        "clauses, not the run-time detection on concrete trees."
    )
    rep.extra["explanation"] += " " + (
        "Later additions: the template slot is part of `children` (R16.2); the walk's memo is not shared across calls (R16.3)."
    )
    rep.not_decided += ["trees mutated by the user after the first fill"]
    prims, _ = primitives(repo)
    r1 = rep.rule("R16.1", "the cross-reference walk dominates every mutation / child fill / user call in fill and fillnumpy", floor=20)
    r2 = rep.rule("R16.2", "`children` reads every stored slot that fill/_numpy fills", floor=19)
    r3 = rep.rule("R16.3", "identity test and raise of the walk are not guarded by the once-only flag", floor=1)
    cont = repo.cls("Container", "histogrammar.defs")
    targets = [(c, repo.own_method(c, "fill")) for c in prims] + [(cont, repo.own_method(cont, "fillnumpy"))]
    for c, f in targets:
        rep.analysed_functions.add(f.construct)
        g = cfgmod.build(f.node)
        selfname = f.params[0]
        dom = g.dominators()
        guards = []
        sensitive = []
        for n in g.nodes:
            if n.id not in dom:
                continue
            for e in header_exprs(n):
                if e is None:
                    continue
                for sub in ast.walk(e):
                    if isinstance(sub, ast.Call):
                        ch = chain(sub.func)
                        if ch == [selfname, GUARD]:
                            guards.append(n)
                        elif is_child_fill(sub) or is_user_call(sub, selfname) or (
                            ch and ch[0] == selfname and len(ch) == 2 and ch[1] in ("_numpy", "_update")
                        ):
                            sensitive.append((n, ast.unparse(sub.func)))
            if n.kind == "stmt" and own_store_targets(n.ast, selfname):
                sensitive.append((n, "own-state store"))
        ok = bool(guards)
        if not guards:
            rep.finding("R16.1", f, f.node, f"{f.qualname} never calls self.{GUARD}(): a shared aggregator is filled twice "
                        f"without being detected", stmt="no cross-reference guard call")
        else:
            for n, what in sensitive:
                if not any(gd.id in dom[n.id] and gd.id != n.id for gd in guards):
                    ok = False
                    rep.finding("R16.1", f, n.stmt, f"`{what}` is not dominated by the call to self.{GUARD}(): state can "
                                f"change before the shared-node check has run",
                                path=f"{f.qualname}: entry -> line {n.lineno} without passing the guard")
        r1.ob(ok, f"{f.qualname}: guard at line(s) {[gd.lineno for gd in guards]} dominates {len(sensitive)} sensitive sites")
    # R16.2
    for c in prims:
        ch = repo.lookup(c, "children")
        if not isinstance(ch, FuncInfo):
            raise AnalysisError(f"{c.name}.children not found")
        rep.analysed_functions.add(ch.construct)
        selfname = ch.params[0]

        def guaranteed(e, env):
            """stored slots that are part of the value of e whatever the conditions evaluate to"""
            if isinstance(e, ast.Attribute) and isinstance(e.value, ast.Name) and e.value.id == selfname:
                return set(storage_attrs(repo, c, e.attr))
            if isinstance(e, ast.Name):
                return set(env.get(e.id, set()))
            if isinstance(e, ast.IfExp):
                return guaranteed(e.body, env) & guaranteed(e.orelse, env)        # the test only selects
            if isinstance(e, ast.BoolOp):
                out0 = None
                for v in e.values:
                    gv = guaranteed(v, env)
                    out0 = gv if out0 is None else (out0 & gv)
                return out0 or set()
            out0 = set()
            for ch0 in ast.iter_child_nodes(e):
                if isinstance(ch0, ast.expr):
                    out0 |= guaranteed(ch0, env)
                elif isinstance(ch0, ast.comprehension):
                    out0 |= guaranteed(ch0.iter, env)
            return out0
        env0 = {}
        rets = []
        for st in walk_local_stmt(ch.node):
            if isinstance(st, ast.Assign) and len(st.targets) == 1 and isinstance(st.targets[0], ast.Name):
                env0[st.targets[0].id] = env0.get(st.targets[0].id, set()) | guaranteed(st.value, env0)
            elif isinstance(st, ast.AugAssign) and isinstance(st.target, ast.Name):
                env0[st.target.id] = env0.get(st.target.id, set()) | guaranteed(st.value, env0)
            elif isinstance(st, ast.Expr) and isinstance(st.value, ast.Call) and isinstance(st.value.func, ast.Attribute) and \
                    isinstance(st.value.func.value, ast.Name) and st.value.func.attr in ("append", "extend", "insert", "update"):
                nm0 = st.value.func.value.id
                for a0 in st.value.args:
                    env0[nm0] = env0.get(nm0, set()) | guaranteed(a0, env0)
            elif isinstance(st, ast.Return) and st.value is not None:
                rets.append(st.value)
        read = None
        for rv in rets:
            gv = guaranteed(rv, env0)
            read = gv if read is None else (read & gv)
        read = read or set()
        filled = {}
        for mname in ("fill", "_numpy"):
            f = repo.own_method(c, mname)
            for k, v in fill_receivers(repo, c, f).items():
                filled.setdefault(k, (f, v))
        missing = [k for k in filled if k not in read]
        r2.ob(not missing, f"{c.name}: children reads {sorted(read)}; fill/_numpy fill {sorted(filled)}")
        for k in missing:
            f, call = filled[k]
            rep.finding("R16.2", ch, ch.node, f"slot `{k}` is filled by {f.qualname} (line {call.lineno}) but not listed by "
                        f"`children`: the cross-reference walk never visits it", stmt=f"children misses {k}")
    # templates listed by `children` today must stay listed: the walk detects a node that is its own descendant through a
    # sparse container's template only because `children` includes it (confirmed table, DESIGN App. E)
    TEMPLATE_LISTED = {"SparselyBin": "value", "Categorize": "value"}
    for c in prims:
        if c.name in TEMPLATE_LISTED:
            ch = repo.lookup(c, "children")
            selfname = ch.params[0]
            read = {n.attr for n in walk_local_stmt(ch.node) if isinstance(n, ast.Attribute) and isinstance(n.value, ast.Name) and n.value.id == selfname}
            ok = TEMPLATE_LISTED[c.name] in read
            r2.ob(ok, f"{c.name}: children lists the template `{TEMPLATE_LISTED[c.name]}`")
            if not ok:
                rep.finding("R16.2", ch, ch.node, f"`children` no longer lists the template `{TEMPLATE_LISTED[c.name]}`: a tree in which a node is its "
                            f"own descendant through this template is not detected (RecursionError / state changed before any error)",
                            stmt=f"children misses template {TEMPLATE_LISTED[c.name]}")
    # the walk's memo must be created per traversal: no mutable default, no module-level memo
    from .c06 import mutable_default_writes
    hits, _ = mutable_default_writes(repo)
    gh = [h for h in hits if h[0].name == GUARD]
    r3.ob(not gh, "the walk's memo is not a shared mutable default")
    for fi, p, n, what in gh:
        rep.finding("R16.3", fi, n, f"{what}: the memo `{p}` is a mutable default shared by every traversal in the process: nodes remembered from "
                    f"an earlier (rejected) fill make later legal trees fail with 'same aggregator twice'", stmt=f"shared memo {p}")
    walk_order_and_entries(repo, rep, cont)
    # R16.3
    f = repo.own_method(cont, GUARD)
    rep.analysed_functions.add(f.construct)
    g = cfgmod.build(f.node)
    selfname = f.params[0]
    tcd = g.transitive_control_deps()
    stored_flags = set()
    for n in g.nodes:
        if n.kind == "stmt":
            for st in ast.walk(n.ast):
                if isinstance(st, (ast.Assign, ast.AugAssign)):
                    for t in (st.targets if isinstance(st, ast.Assign) else [st.target]):
                        if isinstance(t, ast.Attribute) and isinstance(t.value, ast.Name) and t.value.id == selfname:
                            stored_flags.add(t.attr)
    idtests = []
    for n in g.nodes:
        if n.kind == "test":
            for sub in ast.walk(n.ast):
                if isinstance(sub, ast.Compare) and any(isinstance(o, ast.Is) for o in sub.ops):
                    names = {x.id for x in ast.walk(sub) if isinstance(x, ast.Name)}
                    if selfname in names:
                        idtests.append(n)
    if not idtests:
        r3.ob(False)
        rep.finding("R16.3", f, f.node, "no identity test (`x is self`) against the memo in the walk", stmt="no identity test")
    recursion = any(isinstance(s, ast.Call) and isinstance(s.func, ast.Attribute) and s.func.attr == GUARD
                    for s in walk_local_stmt(f.node))
    if not recursion:
        r3.ob(False)
        rep.finding("R16.3", f, f.node, "the walk does not recurse into children", stmt="no recursion")
    for t in idtests:
        raises = any(lab == "T" and cfgmod_reaches_raise(g, s) for lab, s in t.succ)
        bad = []
        for (tid, lab) in tcd[t.id]:
            tn = g.nodes[tid]
            if tn.kind != "test":
                continue
            flags = {a.attr for a in ast.walk(tn.ast) if isinstance(a, ast.Attribute) and isinstance(a.value, ast.Name)
                     and a.value.id == selfname} & stored_flags
            if flags:
                bad.append((tn, sorted(flags)))
        ok = raises and not bad
        r3.ob(ok, f"{f.qualname}: identity test at line {t.lineno}, controlling flags {[b[1] for b in bad]}")
        if not raises:
            rep.finding("R16.3", f, t.stmt, "identity test does not lead to a raise", stmt="identity test without raise")
        for tn, flags in bad:
            rep.finding(
                "R16.3", f, tn.stmt,
                f"the identity test `{norm(t.stmt)}` is only evaluated under `{norm(tn.stmt)}`, and `{flags[0]}` is set by "
                f"the same traversal at the end of the node's first visit: the second occurrence of a node in one "
                f"traversal returns immediately, so an aggregator installed at two positions is filled twice, undetected",
                path=f"{f.qualname}: visit #2 of the same node -> `{norm(tn.stmt)}` is False -> return",
            )
        if raises and not bad:
            # the identity test sees every visit: then a template (never filled, legitimately shared by two sparse containers, and listed
            # by `children`) must not be walked like a fillable node, or every tree with a shared template is rejected
            from ..model import build_models as _bm2
            _models = _bm2(repo)
            listing = []
            for c0 in primitives(repo)[0]:
                m0 = _models[c0.name]
                ch = repo.lookup(c0, "children") if m0.template else None
                if ch is not None and hasattr(ch, "node") and any(isinstance(x, ast.Attribute) and x.attr == m0.template for x in ast.walk(ch.node)):
                    listing.append(c0.name)
            walks_children = any(isinstance(x, ast.Attribute) and x.attr == "children" for x in ast.walk(f.node))
            okt = not (listing and walks_children)
            r3.ob(okt, f"{f.qualname}: shared templates are not rejected by the every-visit identity test")
            if not okt:
                rep.finding("R16.3", f, t.stmt, f"the identity test `{norm(t.stmt)}` now runs on every visit, and the walk follows `children`, which lists the bin templates of "
                            f"{listing}: a template object shared by two sparse containers (both built with the default value, or h next to h.zero()) is met "
                            f"twice in one traversal and the tree is rejected although no fillable node is shared", stmt="shared templates rejected by the identity test")


def walk_order_and_entries(repo, rep, cont):
    """R16.4: the once-only flag is stored only after the children have been walked (a node whose walk is still in progress
    must look unvisited, or a node that is its own descendant returns silently instead of raising).
    R16.5: `_numpy` of a tree is entered only behind the walk: outside the `_numpy` methods themselves, every reference to
    `<x>._numpy` sits in a function where a call of the walk dominates it."""
    r4 = rep.rule("R16.4", "the once-only flag of the walk is stored after the recursion into the children, never before", floor=1)
    f = repo.own_method(cont, GUARD)
    g = cfgmod.build(f.node)
    selfname = f.params[0]
    tested = set()
    for n in g.nodes:
        if n.kind == "test":
            tested |= {a.attr for a in ast.walk(n.ast) if isinstance(a, ast.Attribute) and isinstance(a.value, ast.Name) and a.value.id == selfname}
    stores = [n for n in g.nodes if n.kind == "stmt" and isinstance(n.ast, ast.Assign) and any(
        isinstance(t, ast.Attribute) and isinstance(t.value, ast.Name) and t.value.id == selfname and t.attr in tested for t in n.ast.targets)]
    rec = [n for n in g.nodes if any(e is not None and any(isinstance(s, ast.Call) and isinstance(s.func, ast.Attribute) and s.func.attr == GUARD
                                                             for s in ast.walk(e)) for e in header_exprs(n))]
    for st in stores:
        seen, work = set(), [s for _, s in st.succ]
        while work:
            x = work.pop()
            if x in seen:
                continue
            seen.add(x)
            work += [s for _, s in g.nodes[x].succ]
        later = [r for r in rec if r.id in seen]
        r4.ob(not later, f"{f.qualname}: `{norm(st.stmt)}` is not followed by the recursion")
        if later:
            rep.finding("R16.4", f, st.stmt, f"`{norm(st.stmt)}` marks the node as checked BEFORE its children are walked (the recursion at line "
                        f"{later[0].lineno} comes after it): when the walk comes back to this node through a descendant, the flag test returns "
                        f"silently instead of reaching the identity test, so a node that is its own descendant is no longer rejected",
                        stmt="flag stored before the recursion")
    # ... and not at all when the walk fails: a flag stored in a `finally`/`except` clause marks every node on the path to a
    # rejected node as checked, so the next fill of the same (still illegal) tree is accepted
    for tr in [x for x in ast.walk(f.node) if isinstance(x, ast.Try)]:
        guarded_calls = [x for b0 in tr.body for x in ast.walk(b0) if isinstance(x, ast.Call) and isinstance(x.func, ast.Attribute) and x.func.attr == GUARD]
        raises_inside = guarded_calls or any(isinstance(x, ast.Raise) for b0 in tr.body for x in ast.walk(b0))
        if not raises_inside:
            continue
        cleanup = list(tr.finalbody) + [x for h in tr.handlers for x in h.body]
        bad = [x for st in cleanup for x in ast.walk(st) if isinstance(x, ast.Assign) and any(
            isinstance(t, ast.Attribute) and isinstance(t.value, ast.Name) and t.value.id == selfname and t.attr in tested for t in x.targets)]
        r4.ob(not bad, f"{f.qualname}: no flag store in finally/except around the recursion")
        for x in bad:
            rep.finding("R16.4", f, x, f"`{norm(x)}` sits in a finally/except clause around the walk of the children: when a descendant is rejected "
                        f"(ContainerException), every node on the path to it is still marked as checked, so the next fill of the same tree skips "
                        f"the check and is accepted (or ends in RecursionError after state has changed)", stmt="flag stored on the failure path")
    if not stores:
        r4.ob(True, "no once-only flag in the walk")
    r5 = rep.rule("R16.5", "outside the _numpy methods, every use of `<x>._numpy` is dominated by a call of the cross-reference walk", floor=1)
    # helpers of the _numpy methods (a private function all of whose call sites lie in _numpy methods or in other such helpers)
    # are part of the vectorised implementation, not entry points
    plain = repo.plain() if hasattr(repo, "plain") else repo         # call sites as written (helpers not inlined)
    all_fns = [x for x in plain.all_functions() if x.module.name.startswith("histogrammar")]
    callers = {}
    for caller in all_fns:
        for n in ast.walk(caller.node):
            if isinstance(n, ast.Call):
                nm = n.func.attr if isinstance(n.func, ast.Attribute) else (n.func.id if isinstance(n.func, ast.Name) else None)
                if nm:
                    callers.setdefault(nm, set()).add(caller.qualname)
    internal = {x.qualname for x in all_fns if x.name == "_numpy"}
    changed = True
    while changed:
        changed = False
        for x in all_fns:
            if x.qualname in internal or not x.name.startswith("_") or x.name.startswith("__"):
                continue
            cs = callers.get(x.name, set())
            if cs and cs <= internal:
                internal.add(x.qualname)
                changed = True
    for fn in repo.all_functions():
        if fn.qualname in internal or not fn.module.name.startswith("histogrammar") or ".dfinterface" in fn.module.name:
            continue
        uses = [n for n in ast.walk(fn.node) if isinstance(n, ast.Attribute) and n.attr == "_numpy" and isinstance(n.ctx, ast.Load)]
        if not uses:
            continue
        g2 = cfgmod.build(fn.node)
        dom = g2.dominators()
        guards = [n for n in g2.nodes if n.id in dom and any(e is not None and any(
            isinstance(s, ast.Call) and isinstance(s.func, ast.Attribute) and s.func.attr == GUARD for s in ast.walk(e)) for e in header_exprs(n))]
        for u in uses:
            holder = [n for n in g2.nodes if n.id in dom and any(e is not None and any(x is u for x in ast.walk(e)) for e in header_exprs(n))]
            ok = bool(holder) and all(any(gd.id in dom[h.id] and gd.id != h.id for gd in guards) for h in holder)
            r5.ob(ok, f"{fn.qualname}: `{ast.unparse(u)}` behind the walk")
            if not ok:
                rep.finding("R16.5", fn, u, f"{fn.qualname} reaches `{ast.unparse(u)}` without calling {GUARD}() first: this entry point fills a "
                            f"tree vectorially without the shared-node check, so an aggregator installed at two positions is filled twice "
                            f"(or the walk's RecursionError surfaces after state has changed)", stmt=f"unguarded entry to _numpy: {fn.qualname}")

    # R16.6: the walk keeps the visited nodes in a set, i.e. it hashes every node; a template is the one slot through which a
    # node can legitimately be reached again from itself (`s.value = s`, or via Select/Label), so __hash__ must not descend into it:
    # otherwise the walk dies in hash() with RecursionError and the promised ContainerException never comes
    from ..model import build_models
    models = build_models(repo)
    prims, _ = primitives(repo)
    r6 = rep.rule("R16.6", "__hash__ of a primitive with a bin template does not descend into the template (the walk's memo hashes every node)", floor=3)
    for c in prims:
        m = models[c.name]
        if not m.template:
            continue
        h = repo.method(c, "__hash__")
        if h is None:
            raise AnalysisError(f"{c.name}: no __hash__ found")
        rep.analysed_functions.add(h.construct)
        sn_ = h.params[0]
        bad = [n for n in ast.walk(h.node) if isinstance(n, ast.Attribute) and isinstance(n.value, ast.Name) and n.value.id == sn_
               and n.attr in (m.template, "children") and isinstance(n.ctx, ast.Load)]
        r6.ob(not bad, f"{c.name}.__hash__ does not read `{m.template}`")
        for n in bad[:1]:
            rep.finding("R16.6", h, n, f"{c.name}.__hash__ hashes `{sn_}.{n.attr}`: the cross-reference walk hashes every node it visits (memo set), so a "
                        f"{c.name} reachable from its own template is no longer diagnosed with ContainerException - hash() recurses until RecursionError",
                        stmt=f"__hash__ reads the template {n.attr}")


def cfgmod_reaches_raise(g, start):
    seen = set()
    work = [start]
    while work:
        x = work.pop()
        if x in seen:
            continue
        seen.add(x)
        if x == g.rai.id:
            return True
        for _, s in g.nodes[x].succ:
            work.append(s)
    return False
