"""C08 - scaling by a factor equals refilling with every weight multiplied by it."""

import ast
import itertools

from .. import cfg as cfgmod
from ..astutil import call_name, is_float_nan_call, walk_local_stmt
from ..loader import AnalysisError, FuncInfo, norm, primitives
from ..model import build_models
from ..taint import FieldTaint
from .c15 import edge_always_raises

FACTOR_CLASSES = ("nan", "neg", "zero", "pos")


def eval_factor_test(e, fname, cls):
    """Three-valued truth of a test over the class of `factor`; None = does not depend on factor only."""
    if isinstance(e, ast.UnaryOp) and isinstance(e.op, ast.Not):
        v = eval_factor_test(e.operand, fname, cls)
        return None if v is None else (not v)
    if isinstance(e, ast.BoolOp):
        vals = [eval_factor_test(v, fname, cls) for v in e.values]
        if isinstance(e.op, ast.And):
            if any(v is False for v in vals):
                return False
            if all(v is True for v in vals):
                return True
            return None
        if any(v is True for v in vals):
            return True
        if all(v is False for v in vals):
            return False
        return None
    if isinstance(e, ast.Call) and call_name(e) in ("math.isnan", "numpy.isnan", "np.isnan", "isnan") and len(e.args) == 1:
        if isinstance(e.args[0], ast.Name) and e.args[0].id == fname:
            return cls == "nan"
        return None
    if isinstance(e, ast.Compare) and len(e.ops) == 1:
        l, op, r = e.left, e.ops[0], e.comparators[0]

        def isf(x):
            return isinstance(x, ast.Name) and x.id == fname

        def iszero(x):
            return isinstance(x, ast.Constant) and isinstance(x.value, (int, float)) and not isinstance(x.value, bool) and x.value == 0

        if isf(l) and iszero(r):
            sign = {"nan": None, "neg": -1, "zero": 0, "pos": 1}[cls]
        elif iszero(l) and isf(r):
            sign = {"nan": None, "neg": 1, "zero": 0, "pos": -1}[cls]  # 0 op factor  ==  -factor op' ... use mirrored sign
        else:
            return None
        if isinstance(op, ast.NotEq):
            return True if sign is None else sign != 0
        if sign is None:
            return False
        return {ast.Lt: sign < 0, ast.LtE: sign <= 0, ast.Gt: sign > 0, ast.GtE: sign >= 0, ast.Eq: sign == 0}.get(type(op))
    return None


def is_self_zero(e, sn):
    return (isinstance(e, ast.Call) and isinstance(e.func, ast.Attribute) and e.func.attr == "zero" and not e.args
            and isinstance(e.func.value, ast.Name) and e.func.value.id == sn)


def degree_table(repo, c, m, fill):
    """Homogeneity degrees of the accumulators, derived from fill: weight and entries have degree 1, the datum 0."""
    sn = fill.params[0]
    wname = fill.params[2] if len(fill.params) > 2 else "weight"
    funcs = [fill]
    for n in walk_local_stmt(fill.node):
        if isinstance(n, ast.Call) and isinstance(n.func, ast.Attribute) and isinstance(n.func.value, ast.Name) and n.func.value.id == sn:
            h = repo.lookup(c, n.func.attr)
            if isinstance(h, FuncInfo) and h.cls is c and h.name not in ("quantity", "transform") and h is not fill:
                funcs.append(h)
    accs = [a for a in m.acc if a != "entries"]
    consistent = []
    for combo in itertools.product((0, 1), repeat=len(accs)):
        deg = dict(zip(accs, combo))
        deg["entries"] = 1
        if all(check_degrees(f, deg, wname) for f in funcs):
            consistent.append(deg)
    return consistent


WILD = "any"


def check_degrees(f, deg, wname):
    sn = f.params[0]
    local = {}
    # one pass of single assignments to locals (value numbering light)
    assigns = {}
    for n in walk_local_stmt(f.node):
        if isinstance(n, ast.Assign) and len(n.targets) == 1 and isinstance(n.targets[0], ast.Name):
            assigns.setdefault(n.targets[0].id, []).append(n.value)

    class Bad(Exception):
        pass

    def d(e, depth=0):
        if isinstance(e, ast.Constant):
            return WILD if (isinstance(e.value, (int, float)) and e.value == 0) else 0
        if is_float_nan_call(e):
            return WILD
        if isinstance(e, ast.Name):
            if e.id in ("weight", wname, "w"):
                return 1
            if e.id in assigns and depth < 6:
                ds = {d(v, depth + 1) for v in assigns[e.id]} - {WILD}
                if len(ds) > 1:
                    raise Bad()
                return ds.pop() if ds else WILD
            return 0
        if isinstance(e, ast.Attribute) and isinstance(e.value, ast.Name) and e.value.id == sn:
            return deg.get(e.attr, 0)
        if isinstance(e, ast.Subscript):
            return d(e.value, depth)
        if isinstance(e, ast.BinOp):
            a, b = d(e.left, depth), d(e.right, depth)
            if isinstance(e.op, (ast.Add, ast.Sub)):
                if a == WILD:
                    return b
                if b == WILD:
                    return a
                if a != b:
                    raise Bad()
                return a
            if a == WILD or b == WILD:
                return WILD
            if isinstance(e.op, ast.Mult):
                return a + b
            if isinstance(e.op, ast.Div):
                return a - b
            return 0
        if isinstance(e, ast.UnaryOp):
            return d(e.operand, depth)
        if isinstance(e, ast.Call):
            cn = call_name(e) or ""
            if cn.endswith("transform") or cn.endswith("quantity"):
                return WILD if cn.endswith("transform") else 0
            if cn in ("float", "floatOrNan", "abs", "min", "max", "minplus", "maxplus") and e.args:
                ds = {d(a, depth) for a in e.args} - {WILD}
                if len(ds) > 1:
                    raise Bad()
                return ds.pop() if ds else WILD
            return 0
        if isinstance(e, ast.IfExp):
            return d(e.body, depth)
        return 0

    try:
        for n in walk_local_stmt(f.node):
            if isinstance(n, (ast.Assign, ast.AugAssign)):
                for t in (n.targets if isinstance(n, ast.Assign) else [n.target]):
                    base = t
                    while isinstance(base, ast.Subscript):
                        base = base.value
                    if isinstance(base, ast.Attribute) and isinstance(base.value, ast.Name) and base.value.id == sn and base.attr in deg:
                        dv = d(n.value)
                        if isinstance(n, ast.AugAssign) and isinstance(n.op, (ast.Mult, ast.Div)):
                            if dv not in (0, WILD):
                                raise Bad()
                        elif dv != WILD and dv != deg[base.attr]:
                            raise Bad()
            elif isinstance(n, ast.Compare) and all(isinstance(o, (ast.Lt, ast.LtE, ast.Gt, ast.GtE)) for o in n.ops):
                ds = {d(x) for x in [n.left] + list(n.comparators)} - {WILD}
                if len(ds) > 1:
                    raise Bad()
    except Bad:
        return False
    return True


def mirrored_slots(repo, rep, r6, prims, models):
    """Branch.__init__ binds every element of `values` to i0, i1, ... as well.  A result builder (or any other method)
    that replaces the slot afterwards leaves those mirrors pointing at the old children: `(h * f).i0` is then not the
    scaled child.  Instances are inferred: a `for ... in <param>: setattr(self, ...)` loop in __init__ over the parameter
    that is also stored into a child slot."""
    ninst = 0
    for c in prims:
        init = repo.own_method(c, "__init__")
        if init is None:
            continue
        sn = init.params[0]
        m = models[c.name]
        mirrored = set()
        for loop in walk_local_stmt(init.node):
            if not isinstance(loop, ast.For):
                continue
            if not any(isinstance(x, ast.Call) and isinstance(x.func, ast.Name) and x.func.id == "setattr" and x.args
                       and isinstance(x.args[0], ast.Name) and x.args[0].id == sn for b in loop.body for x in ast.walk(b)):
                continue
            src = {x.id for x in ast.walk(loop.iter) if isinstance(x, ast.Name)}
            for n in walk_local_stmt(init.node):
                if isinstance(n, ast.Assign) and isinstance(n.value, ast.Name) and n.value.id in src:
                    for t in n.targets:
                        if isinstance(t, ast.Attribute) and isinstance(t.value, ast.Name) and t.value.id == sn and t.attr in m.slots:
                            mirrored.add(t.attr)
        for slot in sorted(mirrored):
            ninst += 1
            for f in c.methods.values():
                if f.name == "__init__":
                    continue
                bad = None
                for n in walk_local_stmt(f.node):
                    tg = n.targets if isinstance(n, ast.Assign) else ([n.target] if isinstance(n, ast.AugAssign) else [])
                    for t in tg:
                        if isinstance(t, ast.Attribute) and t.attr == slot:
                            bad = n
                    if isinstance(n, ast.Call) and isinstance(n.func, ast.Name) and n.func.id == "setattr" and len(n.args) >= 2 \
                            and isinstance(n.args[1], ast.Constant) and n.args[1].value == slot:
                        bad = n
                if bad is not None and any(isinstance(x, ast.Call) and isinstance(x.func, ast.Name) and x.func.id == "setattr" and len(x.args) >= 2
                                           and not isinstance(x.args[1], ast.Constant) for x in walk_local_stmt(f.node)):
                    bad = None      # the method re-establishes the mirrors itself
                r6.ob(bad is None, f"{c.name}.{f.name}: does not replace the mirrored slot `{slot}`")
                if bad is not None:
                    rep.finding("R8.6", f, bad, f"{c.name}.__init__ mirrors every element of `{slot}` into the attributes i0, i1, ... (setattr), "
                                f"but `{norm(bad)[:70]}` replaces `{slot}` on an object built elsewhere: its iN attributes keep pointing at "
                                f"the children it was constructed with, so the result read through `.i0` is not the result read through "
                                f"`.{slot}[0]` (build the result with the constructor instead)", stmt=f"{slot} replaced outside __init__")
    if ninst == 0:
        raise AnalysisError("R8.6: no class with setattr-mirrored slots found (Branch.__init__ expected)")


def run(repo, rep, tier):
    rep.extra["explanation"] = (
        "Structure of all 19 __mul__/__rmul__: (R8.1) abstract evaluation of the guard over the factor classes "
        "{NaN, <0, 0, >0}: exactly the non-positive/NaN classes return self.zero(); (R8.2) a scaling table derived from "
        "fill by homogeneity (weight and entries have degree 1, the datum degree 0: extensive fields have degree 1, "
        "intensive degree 0): __mul__ multiplies every extensive accumulator and every child slot by `factor` and copies "
        "intensive ones; (R8.3) __rmul__ delegates to __mul__; (R8.4) every store to a field keeps the container kind "
        "that __init__ gave it where the class uses the field kind-sensitively (tuple concatenation, hash, item "
        "assignment); (R8.5) Count refuses a non-identity transform before computing. Decides the shape of scaling, not "
        "numeric identities under rounding."
    )
    rep.extra["explanation"] += " " + (
        'Later additions: structural parameters of h*f come from h (per return statement); (R8.6) a slot mirrored by __init__ into per-element attributes is only set by __init__; (R8.7) shared rule of C06: children of h*f are fresh.'
    )
    rep.not_decided += ["numeric identities ((h*a)*b == h*(a*b), h*2 == h+h) under rounding", "distribution over + on values"]
    prims, _ = primitives(repo)
    models = build_models(repo)
    r1 = rep.rule("R8.1", "__mul__ returns self.zero() exactly for NaN / non-positive factors", floor=19 * 4)
    r2 = rep.rule("R8.2", "extensive fields and all child slots are multiplied by factor, intensive fields copied (table derived from fill)", floor=40)
    r3 = rep.rule("R8.3", "__rmul__ delegates to __mul__", floor=19)
    r4 = rep.rule("R8.4", "stores keep the container kind fixed by __init__ for kind-sensitively used fields", floor=15)
    r5 = rep.rule("R8.5", "Count.__mul__ refuses a non-identity transform before computing", floor=1)
    # the scaled result is a first-class aggregator: filling or merging it must not change the original
    rep.borrow(repo, "C06", {"R6.2": ("R8.7", "children of h * f are fresh objects (the scaled result shares nothing fillable with h)", 40)},
               keep=lambda f: f.construct.endswith(".__mul__") or f.construct.endswith(".zero"))
    # structural parameters of h * f are those of h (a constructor argument left to its default silently resets one)
    from ..builder import structural_missing
    for c in prims:
        m = models[c.name]
        if not m.structural and not m.template:
            continue
        f = repo.own_method(c, "__mul__")
        dict_fields = [s2 for s2, k in m.slot_kind.items() if k == "dict"] + (["values"] if m.name == "Bag" else [])
        missing, rf = structural_missing(repo, c, m, f, [f.params[0]], dict_fields)
        if missing is None:
            continue
        r2.ob(not missing, f"{c.name}.__mul__: structural parameters {m.structural} carried over")
        for pname, node in missing:
            rep.finding("R8.2", f, node, f"the scaled result's structural parameter `{pname}` does not come from `{f.params[0]}.{pname}` (a constructor "
                        f"argument left to its default, or never copied): h * f has a different `{pname}` than h, so its bins mean something "
                        f"else and it can no longer be merged with h", stmt=f"{pname} not carried over by __mul__")
    r6 = rep.rule("R8.6", "a slot that __init__ mirrors into per-element attributes (setattr) is only ever set by __init__", floor=5)
    mirrored_slots(repo, rep, r6, prims, models)
    for c in prims:
        m = models[c.name]
        f = repo.own_method(c, "__mul__")
        rep.analysed_functions.add(f.construct)
        if len(f.params) != 2:
            raise AnalysisError(f"{f.construct}: unexpected signature")
        sn, fname = f.params
        g = cfgmod.build(f.node)
        # ---------------- R8.1 : walk the CFG per factor class
        for cls in FACTOR_CLASSES:
            seen = set()
            work = [g.entry.id]
            returns = []
            while work:
                nid = work.pop()
                if nid in seen:
                    continue
                seen.add(nid)
                node = g.nodes[nid]
                if node.kind == "stmt" and isinstance(node.ast, ast.Return):
                    returns.append(node)
                if node.kind == "test":
                    v = eval_factor_test(node.ast, fname, cls)
                    for lab, s in node.succ:
                        if v is None or (v and lab == "T") or (not v and lab == "F") or lab not in ("T", "F"):
                            work.append(s)
                else:
                    for lab, s in node.succ:
                        if lab != "exc":
                            work.append(s)
            # `v = self.zero()` ... `return v` with no store into v on the statements reachable for this factor class is the
            # empty aggregator as well
            reach_stmts = [g.nodes[i].ast for i in seen if g.nodes[i].kind == "stmt"]

            def before(rnode):
                """statements of this factor class from which the return can be reached (what lies behind an early return does not count)"""
                back = set()
                work2 = [rnode.id]
                while work2:
                    x = work2.pop()
                    if x in back:
                        continue
                    back.add(x)
                    for lab, p0 in g.nodes[x].pred:
                        if p0 in seen:
                            work2.append(p0)
                return [g.nodes[i].ast for i in back if g.nodes[i].kind == "stmt"]

            def zero_like(e, reach_stmts=reach_stmts):
                if is_self_zero(e, sn):
                    return True
                e2 = e
                while isinstance(e2, ast.Call) and isinstance(e2.func, ast.Attribute) and e2.func.attr == "specialize":
                    e2 = e2.func.value
                if not isinstance(e2, ast.Name):
                    return False
                v = e2.id
                defs = [st for st in reach_stmts if isinstance(st, ast.Assign) and any(isinstance(t, ast.Name) and t.id == v for t in st.targets)]
                if not defs or not all(is_self_zero(st.value, sn) for st in defs):
                    return False
                for st in reach_stmts:
                    for x in ast.walk(st):
                        if isinstance(x, (ast.Attribute, ast.Subscript)) and isinstance(getattr(x, "ctx", None), (ast.Store, ast.Del)):
                            b = x
                            while isinstance(b, (ast.Attribute, ast.Subscript)):
                                b = b.value
                            if isinstance(b, ast.Name) and b.id == v:
                                return False
                        if isinstance(x, ast.Call) and isinstance(x.func, ast.Attribute) and x.func.attr not in ("specialize",):
                            b = x.func.value
                            while isinstance(b, (ast.Attribute, ast.Subscript)):
                                b = b.value
                            if isinstance(b, ast.Name) and b.id == v and x.func.attr in ("update", "append", "extend", "fill", "_numpy", "setdefault",
                                                                                         "pop", "clear", "insert", "add"):
                                return False
                return True
            zero_only = bool(returns) and all(zero_like(r.ast.value) for r in returns)
            any_zero = any(zero_like(r.ast.value, before(r)) for r in returns)
            if cls == "pos":
                ok = bool(returns) and not any_zero
                why = "a positive factor can return the empty aggregator"
            else:
                ok = zero_only
                why = f"a factor of class {cls} does not return self.zero()"
            r1.ob(ok, f"{c.name}.__mul__: factor class {cls} -> returns {[norm(r.ast)[:40] for r in returns]}")
            if not ok:
                rep.finding("R8.1", f, returns[0].stmt if returns else f.node,
                            f"{why}: the guard must be `isnan(factor) or factor <= 0` (evaluated over factor classes NaN/<0/0/>0)",
                            stmt=f"factor class {cls}")
        # ---------------- R8.2
        scaling_rule(repo, rep, r2, c, m, f, sn, fname)
        # keys of key-addressed children are carried over unchanged: `out.bins[k] = v * factor` for the operand's own k
        for n in walk_local_stmt(f.node):
            pairs = []
            if isinstance(n, ast.For) and isinstance(n.target, ast.Tuple) and len(n.target.elts) == 2 and isinstance(n.target.elts[0], ast.Name) \
                    and isinstance(n.iter, ast.Call) and isinstance(n.iter.func, ast.Attribute) and n.iter.func.attr == "items" \
                    and isinstance(n.iter.func.value, ast.Attribute) and isinstance(n.iter.func.value.value, ast.Name) and n.iter.func.value.value.id == sn:
                kname = n.target.elts[0].id
                for st in ast.walk(n):
                    if isinstance(st, ast.Assign) and len(st.targets) == 1 and isinstance(st.targets[0], ast.Subscript) and any(
                            isinstance(x, ast.Name) and x.id == kname for x in ast.walk(st.targets[0].slice)):
                        pairs.append((st.targets[0].slice, kname, st))
            if isinstance(n, ast.DictComp) and len(n.generators) == 1:
                g0 = n.generators[0]
                if isinstance(g0.target, ast.Tuple) and len(g0.target.elts) == 2 and isinstance(g0.target.elts[0], ast.Name) and isinstance(g0.iter, ast.Call) \
                        and isinstance(g0.iter.func, ast.Attribute) and g0.iter.func.attr == "items" and isinstance(g0.iter.func.value, ast.Attribute) \
                        and isinstance(g0.iter.func.value.value, ast.Name) and g0.iter.func.value.value.id == sn:
                    pairs.append((n.key, g0.target.elts[0].id, n))
            for key_expr, kname, where in pairs:
                okk = isinstance(key_expr, ast.Name) and key_expr.id == kname
                r2.ob(okk, f"{c.name}.__mul__: child key `{ast.unparse(key_expr)[:30]}` is the operand's key")
                if not okk:
                    rep.finding("R8.2", f, where, f"the scaled children are stored under `{ast.unparse(key_expr)[:40]}`, not under the operand's own key `{kname}`: for keys that "
                                f"the expression changes (bool/None categories under str(), numbers under int()) h * f has other bins than h - h * 1 != h, and "
                                f"(h * f) + h has both spellings of the key", stmt=f"child key rewritten by __mul__: {ast.unparse(key_expr)[:30]}")
        # ---------------- R8.3
        rm = repo.own_method(c, "__rmul__")
        body = [x for x in rm.node.body if not (isinstance(x, ast.Expr) and isinstance(x.value, ast.Constant))]
        ok = False
        if len(body) == 1 and isinstance(body[0], ast.Return):
            v = body[0].value
            s0, f0 = rm.params
            if isinstance(v, ast.Call) and ast.unparse(v.func) == f"{s0}.__mul__" and len(v.args) == 1 and ast.unparse(v.args[0]) == f0:
                ok = True
            if isinstance(v, ast.BinOp) and isinstance(v.op, ast.Mult) and ast.unparse(v.left) == s0 and ast.unparse(v.right) == f0:
                ok = True
        r3.ob(ok, f"{c.name}.__rmul__")
        if not ok:
            rep.finding("R8.3", rm, rm.node, "__rmul__ does not delegate to __mul__ with the same factor: f * h differs from h * f",
                        stmt="__rmul__ shape")
        # ---------------- R8.4
        kinds(repo, rep, r4, c, m)
    # ---------------- R8.5
    cnt = [c for c in prims if c.name == "Count"][0]
    f = repo.own_method(cnt, "__mul__")
    g = cfgmod.build(f.node)
    sn = f.params[0]
    dom = g.dominators()
    # locals whose value depends on self.transform (by data flow or by the tests that select their assignment)
    def reads_transform(e, dep):
        return any((isinstance(a, ast.Attribute) and a.attr == "transform" and isinstance(a.value, ast.Name) and a.value.id == sn)
                   or (isinstance(a, ast.Name) and a.id in dep) for a in ast.walk(e))
    dep = set()
    changed = True
    while changed:
        changed = False
        for n in ast.walk(f.node):
            if isinstance(n, ast.If) and reads_transform(n.test, dep):
                for sub in ast.walk(n):
                    if isinstance(sub, ast.Assign):
                        for t in sub.targets:
                            if isinstance(t, ast.Name) and t.id not in dep:
                                dep.add(t.id)
                                changed = True
            if isinstance(n, ast.Assign) and reads_transform(n.value, dep):
                for t in n.targets:
                    if isinstance(t, ast.Name) and t.id not in dep:
                        dep.add(t.id)
                        changed = True
    guard = None
    for n in g.nodes:
        if n.kind == "test" and reads_transform(n.ast, dep):
            if edge_always_raises(g, n, "T")[0] or edge_always_raises(g, n, "F")[0]:
                if guard is None or n.id in dom.get(guard.id, set()) is False:
                    guard = n if guard is None else guard
    # the guard that matters is the LAST transform-dependent raising test on the way in (earlier ones only compute its value)
    cands = [n for n in g.nodes if n.kind == "test" and reads_transform(n.ast, dep)
             and (edge_always_raises(g, n, "T")[0] or edge_always_raises(g, n, "F")[0])]
    if cands:
        guard = cands[-1]
    ok = guard is not None
    if ok:
        for n in g.nodes:
            if n.id in dom and n.kind == "stmt" and not isinstance(n.ast, ast.Raise) and guard.id not in dom[n.id]:
                # statements that only prepare the guard's own value (assignments to transform-dependent locals) may precede it
                if isinstance(n.ast, ast.Assign) and all(isinstance(t, ast.Name) and t.id in dep for t in n.ast.targets):
                    continue
                ok = False
    r5.ob(ok, "Count.__mul__: transform guard dominates the computation")
    if not ok:
        rep.finding("R8.5", f, f.node, "Count.__mul__ does not refuse a non-identity transform before computing: scaling a "
                    "sum of transformed weights by f is not the sum of transformed scaled weights", stmt="transform guard")


def scaling_rule(repo, rep, r2, c, m, f, sn, fname, rule="R8.2"):
    """R8.2 / R5.4: the scaling table derived from fill by homogeneity, checked against __mul__."""
    fill = repo.own_method(c, "fill")
    tables = degree_table(repo, c, m, fill)
    if len(tables) != 1:
        raise AnalysisError(f"{c.name}: homogeneity degrees of the accumulators are not uniquely determined by fill ({tables})")
    deg = tables[0]
    dict_fields = [s for s, k in m.slot_kind.items() if k == "dict"] + (["values"] if m.name == "Bag" else [])
    ft = FieldTaint(repo, c, f, [sn], dict_fields, extra_roots=[])
    # result variable(s): locals assigned from self.zero() or a constructor
    outs = set()
    for n in walk_local_stmt(f.node):
        if isinstance(n, ast.Assign) and len(n.targets) == 1 and isinstance(n.targets[0], ast.Name) and isinstance(n.value, ast.Call):
            outs.add(n.targets[0].id)
    ft = FieldTaint(repo, c, f, [sn], dict_fields, extra_roots=outs)

    def mults():
        """[(labels of the non-factor operand, node)] for every `x * factor` / `factor * x`"""
        out = []

        def visit(node, env):
            if isinstance(node, ast.BinOp) and isinstance(node.op, ast.Mult):
                for a, b in ((node.left, node.right), (node.right, node.left)):
                    if isinstance(a, ast.Name) and a.id == fname:
                        out.append((ft.L(b, env), node))
        ft.visit_exprs(f.node, visit)
        return out

    ms = mults()
    for fld in m.acc:
        stores = [(labs, node, kind) for o in outs for (labs, node, kind) in ft.field_stores.get((o, fld), [])]
        scaled = any(any(p == sn and fl == fld and fv == "full" for (p, fl, fv, z) in labs) for labs, node in ms)
        plain = False
        for labs, node, kind in stores:
            v = node.value
            if isinstance(v, ast.Attribute) and isinstance(v.value, ast.Name) and v.value.id == sn and v.attr == fld:
                plain = True
        if deg[fld] == 1:
            ok = scaled and not plain
            r2.ob(ok, f"{c.name}.__mul__: extensive `{fld}` multiplied by {fname}")
            if not ok:
                rep.finding(rule, f, stores[0][1] if stores else f.node,
                            f"`{fld}` is extensive (fill adds weight-proportional amounts to it) but __mul__ does not store "
                            f"`{fname} * {sn}.{fld}`: the scaled aggregator differs from refilling with scaled weights",
                            stmt=f"extensive {fld} not scaled")
        else:
            ok = plain and not scaled
            r2.ob(ok, f"{c.name}.__mul__: intensive `{fld}` copied unscaled")
            if not ok:
                rep.finding(rule, f, stores[0][1] if stores else f.node,
                            f"`{fld}` is intensive (degree 0 in the weights in fill) but __mul__ " +
                            ("multiplies it by the factor" if scaled else "does not carry it over") +
                            ": means/extrema must be unchanged by scaling", stmt=f"intensive {fld} " + ("scaled" if scaled else "dropped"))
    for s in m.slots:
        scaled = any(any(p == sn and fl == s and fv == "full" for (p, fl, fv, z) in labs) for labs, node in ms)
        r2.ob(scaled, f"{c.name}.__mul__: child slot `{s}` scaled by {fname}")
        if not scaled:
            rep.finding(rule, f, f.node, f"children in `{s}` are never multiplied by `{fname}`: the parent's entries scale but "
                        f"this subtree keeps its old weights", stmt=f"slot {s} not scaled")


def expr_kind(e):
    if isinstance(e, (ast.List, ast.ListComp)):
        return "list"
    if isinstance(e, (ast.Tuple,)):
        return "tuple"
    if isinstance(e, (ast.Dict, ast.DictComp)):
        return "dict"
    if isinstance(e, ast.Call) and isinstance(e.func, ast.Name) and e.func.id in ("list", "tuple", "dict", "sorted"):
        return {"sorted": "list"}.get(e.func.id, e.func.id)
    if isinstance(e, ast.BinOp) and isinstance(e.op, (ast.Add, ast.Mult)):
        return expr_kind(e.left) or expr_kind(e.right)
    return None


def kinds(repo, rep, r4, c, m):
    init = repo.own_method(c, "__init__")
    fields = {}
    for fld, rhss in m.init_fields.items():
        ks = {expr_kind(e) for e in rhss} - {None}
        if len(ks) == 1:
            fields[fld] = ks.pop()
    if not fields:
        r4.ob(True, f"{c.name}: no container-kinded fields")
        return
    # kind-sensitive uses anywhere in the class
    sensitive = {}
    for f in c.methods.values():
        if f.is_static or not f.params:
            continue
        sn = f.params[0]
        for n in walk_local_stmt(f.node):
            if isinstance(n, ast.BinOp) and isinstance(n.op, ast.Add):
                for a, b in ((n.left, n.right), (n.right, n.left)):
                    base = a
                    while isinstance(base, ast.Subscript):
                        base = base.value
                    if isinstance(base, ast.Attribute) and isinstance(base.value, ast.Name) and base.value.id == sn and base.attr in fields:
                        kb = expr_kind(b)
                        if kb:
                            sensitive.setdefault(base.attr, []).append((f, n, f"concatenated with a {kb} literal", kb))
            if isinstance(n, ast.Call) and isinstance(n.func, ast.Name) and n.func.id == "hash":
                for a in ast.walk(n):
                    if isinstance(a, ast.Tuple):
                        for el in a.elts:
                            if isinstance(el, ast.Attribute) and isinstance(el.value, ast.Name) and el.value.id == sn and el.attr in fields:
                                sensitive.setdefault(el.attr, []).append((f, n, "hashed as is (must be a tuple)", "tuple"))
            if isinstance(n, (ast.Assign, ast.AugAssign)):
                for t in (n.targets if isinstance(n, ast.Assign) else [n.target]):
                    if isinstance(t, ast.Subscript) and isinstance(t.value, ast.Attribute) and isinstance(t.value.value, ast.Name) \
                            and t.value.value.id == sn and t.value.attr in fields and fields[t.value.attr] != "dict":
                        sensitive.setdefault(t.value.attr, []).append((f, n, "item-assigned (must be a list)", "list"))
    for fld, k0 in fields.items():
        if fld not in sensitive:
            r4.ob(True, f"{c.name}.{fld}: kind {k0}, no kind-sensitive use")
            continue
        bad = []
        for f in list(c.methods.values()):
            for n in walk_local_stmt(f.node):
                if isinstance(n, ast.Assign):
                    for t in n.targets:
                        if isinstance(t, ast.Attribute) and t.attr == fld and isinstance(t.value, ast.Name):
                            k1 = expr_kind(n.value)
                            if isinstance(n.value, ast.Name):
                                # local built in this function
                                for a in walk_local_stmt(f.node):
                                    if isinstance(a, ast.Assign) and any(isinstance(x, ast.Name) and x.id == n.value.id for x in a.targets):
                                        k1 = k1 or expr_kind(a.value)
                            need = {u[3] for u in sensitive[fld]}
                            if k1 is not None and k1 != k0 and (k1 not in need or k0 in need):
                                bad.append((f, n, k1))
        r4.ob(not bad, f"{c.name}.{fld}: kind {k0}, used kind-sensitively ({sensitive[fld][0][2]}); all stores keep the kind")
        for f, n, k1 in bad:
            use = sensitive[fld][0]
            rep.finding("R8.4", f, n, f"`{fld}` is a {k0} (set by __init__) and is {use[2]} in {use[0].qualname}, but this store makes "
                        f"it a {k1}: the resulting aggregator cannot be " + ("hashed/filled" if k0 == "tuple" else "merged in place"),
                        stmt=f"{fld}: {k0} -> {k1}")
