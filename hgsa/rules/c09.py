"""C09 - equality is exactly equality of aggregated content."""

import ast

from .. import cfg as cfgmod
from ..astutil import call_name, walk_local_stmt
from ..loader import AnalysisError, FuncInfo, norm, primitives
from ..model import USERFCN_FIELDS, build_models
from ..taint import FieldTaint


def serialized_fields(repo, c, model):
    from .c16 import storage_attrs

    f = repo.own_method(c, "toJsonFragment")
    sn = f.params[0]
    out = []
    for n in sorted((x for x in walk_local_stmt(f.node) if isinstance(x, ast.Attribute)), key=lambda x: (x.lineno, x.col_offset)):
        if isinstance(n.value, ast.Name) and n.value.id == sn and isinstance(n.ctx, ast.Load):
            r = repo.lookup(c, n.attr)
            if isinstance(r, FuncInfo) and not r.is_property:
                continue
            if n.attr == "name":
                continue
            for s in sorted(storage_attrs(repo, c, n.attr)):
                if s not in out:
                    out.append(s)
    return [s for s in out if s not in USERFCN_FIELDS and s != model.template and s != "contentType"]


def under_or(node, pm, root):
    cur = node
    while cur in pm and cur is not root:
        par = pm[cur]
        if isinstance(par, ast.BoolOp) and isinstance(par.op, ast.Or):
            return True
        if isinstance(par, ast.Call) and isinstance(par.func, ast.Name) and par.func.id == "any":
            return True
        cur = par
    return False


def eq_coverage(repo, c, model, f):
    """field -> dict(full=bool, keys=bool, zipped=bool, len=bool, numeq=bool, node=...)"""
    sn, on = f.params[0], f.params[1]
    dict_fields = [s for s, k in model.slot_kind.items() if k == "dict"]
    if model.name == "Bag":
        dict_fields.append("values")
    ft = FieldTaint(repo, c, f, [sn, on], dict_fields)
    ft.project_slots = {s for s, k in model.slot_kind.items() if k == "single"}
    ft.one_sided = True
    ft.container_project_slots = {s for s, k in model.slot_kind.items() if k != "single"}
    ft._fix()
    pm = {}
    for n in ast.walk(f.node):
        for ch in ast.iter_child_nodes(n):
            pm[ch] = n
    cov = {}
    elem_use = {}

    def note(field, **kw):
        d = cov.setdefault(field, dict(full=False, keys=False, zipped=False, len=False, numeq=False, plain=False, part=False, node=None))
        for k, v in kw.items():
            if k == "node":
                if d["node"] is None:
                    d["node"] = v
            elif v:
                d[k] = True

    def root_name(e):
        proj = False
        while isinstance(e, (ast.Attribute, ast.Subscript)):
            proj = proj or isinstance(e, ast.Attribute)
            e = e.value
        return (e.id if isinstance(e, ast.Name) else None), proj

    def pairs(node, a, b, env, is_numeq):
        if under_or(node, pm, f.node):
            return
        La, Lb = ft.L(a, env), ft.L(b, env)
        # element variables (bound by iterating a child container) compared whole, or only through one attribute
        for e in (a, b):
            nm, proj = root_name(e)
            if nm is not None and nm not in (sn, on):
                for (p1, f1, fl1, z1) in ft.L(ast.Name(id=nm, ctx=ast.Load()), env):
                    if f1 in getattr(ft, "container_project_slots", ()):
                        elem_use.setdefault((f1, nm), dict(whole=False, proj=None))
                        if proj:
                            elem_use[(f1, nm)]["proj"] = elem_use[(f1, nm)]["proj"] or node
                        else:
                            elem_use[(f1, nm)]["whole"] = True
        for (x, y) in ((La, Lb), (Lb, La)):
            for (p1, f1, fl1, z1) in x:
                if p1 != sn:
                    continue
                for (p2, f2, fl2, z2) in y:
                    if p2 != on or f2 != f1:
                        continue
                    if fl1 == "full" and fl2 == "full":
                        note(f1, full=True, zipped=(z1 or z2), numeq=is_numeq, plain=not is_numeq, node=node)
                    elif fl1 == "len" and fl2 == "len":
                        note(f1, len=True)
                    elif fl1 == "keys" and fl2 == "keys":
                        note(f1, keys=True, node=node)
                    elif "part" in (fl1, fl2) and {fl1, fl2} <= {"part", "full"}:
                        note(f1, part=True, node=node)

    def visit(node, env):
        if isinstance(node, ast.Compare) and len(node.ops) == 1 and isinstance(node.ops[0], (ast.Eq, ast.NotEq)):
            pairs(node, node.left, node.comparators[0], env, False)
        elif isinstance(node, ast.Call) and (call_name(node) or "").split(".")[-1] == "numeq" and len(node.args) == 2:
            pairs(node, node.args[0], node.args[1], env, True)

    ft.visit_exprs(f.node, visit)
    for (f1, nm), u in elem_use.items():
        if u["proj"] is not None and not u["whole"]:
            d = cov.setdefault(f1, dict(full=False, keys=False, zipped=False, len=False, numeq=False, plain=False, part=False, node=None))
            d["elem_part"] = (nm, u["proj"])
    return cov


def accepting_paths_compare_everything(rep, r1, c, f, fields):
    """R9.1 (path form): a `return True` (or a return of a conjunction) is reached only through tests that hold; the fields compared in
    those tests plus the ones in the returned expression must be ALL serialised fields - an early `return True` for "both empty"
    skips the comparisons that come after it."""
    from .. import cfg as cfgmod
    from ..cfg import solve_forward
    sn, on = f.params[0], f.params[1]

    def mentioned(e):
        a = {x.attr for x in ast.walk(e) if isinstance(x, ast.Attribute) and isinstance(x.value, ast.Name) and x.value.id == sn}
        b = {x.attr for x in ast.walk(e) if isinstance(x, ast.Attribute) and isinstance(x.value, ast.Name) and x.value.id == on}
        return a & b

    def positive_conjuncts(e):
        if isinstance(e, ast.BoolOp) and isinstance(e.op, ast.And):
            out = set()
            for v in e.values:
                out |= positive_conjuncts(v)
            return out
        if isinstance(e, ast.BoolOp):            # a disjunction establishes nothing
            return set()
        if isinstance(e, ast.UnaryOp) and isinstance(e.op, ast.Not):
            return set()
        return mentioned(e)

    g = cfgmod.build(f.node)
    locals_cmp = {}
    for n in walk_local_stmt(f.node):
        if isinstance(n, ast.Assign) and len(n.targets) == 1 and isinstance(n.targets[0], ast.Name):
            locals_cmp[n.targets[0].id] = locals_cmp.get(n.targets[0].id, set()) | positive_conjuncts(n.value)

    def with_locals(e):
        out = positive_conjuncts(e)
        for x in (e.values if isinstance(e, ast.BoolOp) and isinstance(e.op, ast.And) else [e]):
            if isinstance(x, ast.Name) and x.id in locals_cmp:
                out |= locals_cmp[x.id]
        return out

    def transfer(node, st):
        if node.kind == "test" and node.ast is not None:
            return {"T": frozenset(set(st) | with_locals(node.ast)), "F": st, None: st}
        if node.kind == "iter" and node.stmt is not None:
            return frozenset(set(st) | mentioned(node.stmt.iter))
        return st

    states = solve_forward(g, frozenset(), transfer, lambda a, b: a & b)
    loops = any(isinstance(n, (ast.For, ast.While)) for n in walk_local_stmt(f.node))
    if loops:
        return          # element-wise loops with early exits: decided by the coverage rule and R9.7, not by this path form
    # only fields this function compares by naming them on both operands (fields compared through properties/helpers are the coverage rule's)
    fields = [x for x in fields if x in mentioned(f.node)]
    for nd in g.nodes:
        if nd.kind == "stmt" and isinstance(nd.ast, ast.Return) and nd.id in states and nd.ast.value is not None:
            v = nd.ast.value
            if isinstance(v, ast.Constant) and v.value is False:
                continue
            if isinstance(v, ast.Constant) and v.value is NotImplemented:
                continue
            have = set(states[nd.id]) | with_locals(v)
            if isinstance(v, ast.Name) and loops:
                continue            # a running flag returned after element-wise loops: decided by R9.7 and the coverage rule
            missing = [x for x in fields if x not in have]
            r1.ob(not missing, f"{c.name}.__eq__: accepting return at line {nd.lineno} has compared {sorted(have)}")
            if missing:
                rep.finding("R9.1", f, nd.ast, f"`{norm(nd.ast)[:60]}` (line {nd.lineno}) can answer True although {missing} has not been compared on the way to it: "
                            f"two aggregators that differ only there compare equal on that path", stmt=f"accepting return before comparing {missing}")


def run(repo, rep, tier):
    rep.extra["explanation"] = (
        "Def-use analysis of all 19 __eq__/__ne__ bodies: every stored field that toJsonFragment serialises must flow, "
        "from both `self` and `other`, into a content-sensitive comparison (numeq or ==) that is not under an `or`; a "
        "comparison of an iterated/sorted dict compares keys only and does not count; a comparison reached through "
        "zip() counts only together with a length equality; NaN-initialised fields must go through numeq; "
        "isinstance(other, K) must be evaluated before any attribute of `other` is read; __ne__ negates ==; numeq has "
        "the NaN/inf/tolerance shape its docstring states. Decides which fields == can see, not the values."
    )
    rep.extra["explanation"] += " " + (
        'Later additions: a proper slice does not count as the whole field; the isinstance class is the class itself; (R9.5) numeq decided as a decision table over IEEE classes by float-class interpretation; (R9.6) serialised quantities take part in == and UserFcn.__eq__ depends on name and expr on every path (guard statements included); (R9.7) mismatch flags are monotone.'
    )
    rep.not_decided += ["that copy()/pickle/JSON clones are equal (needs their content)", "UserFcn equality by code object"]
    prims, _ = primitives(repo)
    models = build_models(repo)
    r1 = rep.rule("R9.1", "every serialised field is compared by a content-sensitive form in __eq__", floor=45)
    r2 = rep.rule("R9.2", "isinstance(other, K) is evaluated before any attribute of `other` is read", floor=19)
    r3 = rep.rule("R9.3", "__ne__ is the negation of ==", floor=19)
    r4 = rep.rule("R9.4", "NaN-initialised fields are compared through numeq", floor=5)
    r5 = rep.rule("R9.5", "numeq: NaN==NaN, same-sign infinities, tolerances only widen, final ==", floor=6)
    for c in prims:
        m = models[c.name]
        f = repo.own_method(c, "__eq__")
        rep.analysed_functions.add(f.construct)
        if len(f.params) != 2:
            raise AnalysisError(f"{f.construct}: unexpected signature")
        fields = serialized_fields(repo, c, m)
        for need in m.acc + m.slots:
            if need not in fields:
                fields.append(need)
        cov = eq_coverage(repo, c, m, f)
        for fld in fields:
            d = cov.get(fld)
            ok = bool(d and d["full"] and (not d["zipped"] or d["len"] or d["keys"]))
            if ok and d.get("elem_part"):
                # (threshold, child) pairs: the thresholds are compared whole, the children only through one attribute
                ok = False
                nm, nd0 = d["elem_part"]
                r1.ob(False, f"{c.name}.__eq__: field {fld}: element `{nm}` compared through a projection only")
                rep.finding("R9.1", f, nd0, f"the elements `{nm}` of `{fld}` are compared only through one attribute (`{norm(nd0)[:80]}`), never as a whole: "
                            f"two aggregators whose children agree in that attribute but differ otherwise compare equal", stmt=f"{fld}: element {nm} compared by projection only")
                continue
            r1.ob(ok, f"{c.name}.__eq__: field {fld}: {('compared' if ok else 'NOT compared')}")
            if ok:
                continue
            if d and d["full"] and d["zipped"] and not d["len"]:
                rep.finding("R9.1", f, d["node"], f"field `{fld}` is compared element-wise - through zip() or by iterating one operand - without a "
                            f"length/key-set equality: an extra element (key) on the other side is invisible to ==, and == is not symmetric",
                            stmt=f"{fld}: zip without length check")
            elif d and d["part"]:
                rep.finding("R9.1", f, d["node"], f"field `{fld}` is compared only in part - over a slice, or through one attribute of the "
                            f"child (`{norm(d['node'])[:80]}`): what the slice/projection drops is invisible to ==, so two aggregators that "
                            f"differ there compare equal", stmt=f"{fld}: compared over a slice only")
            elif d and d["keys"]:
                rep.finding("R9.1", f, d["node"], f"field `{fld}` is a dict and only its keys are compared (iterating/sorting "
                            f"a dict yields keys): two aggregators with different contents in the same bins compare equal",
                            stmt=f"{fld}: keys only")
            else:
                rep.finding("R9.1", f, f.node, f"field `{fld}` (serialised by toJsonFragment) does not flow from both operands "
                            f"into a comparison of __eq__: a difference in it is invisible to ==", stmt=f"{fld}: not compared")
        for fld in m.nan_fields:
            d = cov.get(fld)
            ok = bool(d and d["numeq"] and not d["plain"])
            r4.ob(ok, f"{c.name}.__eq__: NaN field {fld} through numeq")
            if not ok and d and d["full"]:
                rep.finding("R9.4", f, d["node"], f"`{fld}` is NaN when empty but is compared with ==: an empty aggregator is "
                            f"not equal to itself", stmt=f"{fld}: == on NaN field")
        accepting_paths_compare_everything(rep, r1, c, f, fields)
        rule_isinstance_first(repo, rep, r2, c, f)
        # R9.3
        ne = repo.own_method(c, "__ne__")
        rep.analysed_functions.add(ne.construct)
        ok = False
        body = [s for s in ne.node.body if not (isinstance(s, ast.Expr) and isinstance(s.value, ast.Constant))]
        if len(body) == 1 and isinstance(body[0], ast.Return) and isinstance(body[0].value, ast.UnaryOp) and isinstance(
                body[0].value.op, ast.Not):
            inner = body[0].value.operand
            s0, o0 = ne.params[0], ne.params[1]
            if isinstance(inner, ast.Compare) and len(inner.ops) == 1 and isinstance(inner.ops[0], ast.Eq):
                names = {ast.unparse(inner.left), ast.unparse(inner.comparators[0])}
                ok = names == {s0, o0}
            elif isinstance(inner, ast.Call) and ast.unparse(inner.func) == f"{s0}.__eq__" and len(inner.args) == 1:
                ok = ast.unparse(inner.args[0]) == o0
        r3.ob(ok, f"{c.name}.__ne__")
        if not ok:
            rep.finding("R9.3", ne, ne.node, "__ne__ is not `not self == other`: != is not the negation of ==",
                        stmt="__ne__ shape")
    rule_numeq(repo, rep, r5)
    # ---------------- R9.6 user functions: the quantity whose name is serialised is part of ==, and UserFcn.__eq__ sees name and expr
    r6 = rep.rule("R9.6", "serialised quantities are compared by __eq__; UserFcn.__eq__ depends on name and expr on every path", floor=12)
    for c in prims:
        tj = repo.own_method(c, "toJsonFragment")
        f = repo.own_method(c, "__eq__")
        sn = tj.params[0]
        named = sorted({n.value.attr for n in walk_local_stmt(tj.node) if isinstance(n, ast.Attribute) and n.attr == "name"
                        and isinstance(n.value, ast.Attribute) and isinstance(n.value.value, ast.Name) and n.value.value.id == sn
                        and n.value.attr in USERFCN_FIELDS})
        if not named:
            continue
        flds, wit = conj_fields(f)
        for q in named:
            ok = q in flds
            r6.ob(ok, f"{c.name}.__eq__: `{q}` (its name is serialised) is compared")
            if not ok:
                rep.finding("R9.6", f, (wit.stmt if wit is not None else f.node), f"toJsonFragment serialises `{sn}.{q}.name`, but `{q}` does not "
                            f"take part in {c.name}.__eq__ on every accepting path: two aggregators that differ only in their quantity "
                            f"(name) compare equal although their serialised documents differ", stmt=f"{q}: not compared")
    # ---------------- R9.7 a mismatch flag, once set, stays set (no later assignment may overwrite it with a computed value)
    r7 = rep.rule("R9.7", "mismatch flags of __eq__ are monotone: only the constant they start from or its negation is ever assigned", floor=19)
    for c in prims:
        f = repo.own_method(c, "__eq__")
        assigns = {}
        for n in walk_local_stmt(f.node):
            if isinstance(n, ast.Assign) and len(n.targets) == 1 and isinstance(n.targets[0], ast.Name):
                assigns.setdefault(n.targets[0].id, []).append(n)
            elif isinstance(n, ast.AugAssign) and isinstance(n.target, ast.Name):
                assigns.setdefault(n.target.id, []).append(n)
        flags = {v: lst for v, lst in assigns.items()
                 if sum(1 for a in lst if isinstance(a, ast.Assign) and isinstance(a.value, ast.Constant) and isinstance(a.value.value, bool)) >= 2}
        bad = None
        for v, lst in flags.items():
            for a in lst:
                if isinstance(a, ast.AugAssign) or not (isinstance(a.value, ast.Constant) and isinstance(a.value.value, bool)):
                    # `flag = flag or <expr>` / `flag = flag and <expr>` keep the flag monotone
                    val = a.value
                    keeps = isinstance(val, ast.BoolOp) and any(isinstance(x, ast.Name) and x.id == v for x in val.values)
                    if not keeps:
                        bad = (v, a)
        r7.ob(bad is None, f"{c.name}.__eq__: flags {sorted(flags)} monotone")
        if bad is not None:
            v, a = bad
            rep.finding("R9.7", f, a, f"`{norm(a)[:70]}` overwrites the mismatch flag `{v}` with a computed value: a difference recorded earlier (in "
                        f"another component of the same element) is forgotten when this comparison succeeds, so two aggregators with "
                        f"different content compare equal", stmt=f"flag {v} overwritten: {norm(a)[:60]}")
    um = repo.modules.get("histogrammar.util")
    uf = um.classes.get("UserFcn") if um else None
    ueq = repo.own_method(uf, "__eq__") if uf is not None else None
    if ueq is None:
        raise AnalysisError("histogrammar.util.UserFcn.__eq__ not found")
    rep.analysed_functions.add(ueq.construct)
    flds, wit = conj_fields(ueq)
    for need in ("name", "expr"):
        ok = need in flds
        r6.ob(ok, f"UserFcn.__eq__ depends on `{need}` on every path")
        if not ok:
            rep.finding("R9.6", ueq, (wit.stmt if wit is not None else ueq.node), f"on some path the value returned by UserFcn.__eq__ does not depend "
                        f"on `{need}` of both operands (an assignment discards the comparisons made before it): every primitive's "
                        f"`self.quantity == other.quantity` then ignores a difference in `{need}`", stmt=f"UserFcn.__eq__: {need} dropped")


def conj_fields(f):
    """Fields f such that on every path the value returned by an __eq__-like function is False whenever
    self.f and other.f differ: forward must-analysis of the conjunctions the result is built from.
    Returns (set of fields, the return node that determines the minimum)."""
    sn, on = f.params[0], f.params[1]
    g = cfgmod.build(f.node)
    from ..cfg import solve_forward

    def root_field(e, who):
        """self.expr.__code__.co_code -> 'expr' when rooted at `who`"""
        cur = e
        last = None
        while isinstance(cur, ast.Attribute):
            last = cur.attr
            cur = cur.value
        if isinstance(cur, ast.Name) and cur.id == who:
            return last
        return None

    def deps(e, env):
        if isinstance(e, ast.BoolOp):
            ds = [deps(v, env) for v in e.values]
            if isinstance(e.op, ast.And):
                out = set()
                for d in ds:
                    out |= d
                return out
            out = ds[0]
            for d in ds[1:]:
                out = out & d
            return out
        if isinstance(e, ast.Name):
            return set(env.get(e.id, ()))
        if isinstance(e, ast.Compare) and len(e.ops) == 1 and isinstance(e.ops[0], ast.Eq):
            a, b = e.left, e.comparators[0]
            for x, y in ((a, b), (b, a)):
                fa, fb = root_field(x, sn), root_field(y, on)
                if fa is not None and fa == fb and ast.unparse(x)[len(sn):] == ast.unparse(y)[len(on):]:
                    return {fa}
            return set()
        if isinstance(e, ast.Call) and (call_name(e) or "").split(".")[-1] == "numeq" and len(e.args) >= 2:
            fa, fb = root_field(e.args[0], sn), root_field(e.args[1], on)
            if fa is not None and fa == fb:
                return {fa}
            fa, fb = root_field(e.args[1], sn), root_field(e.args[0], on)
            if fa is not None and fa == fb:
                return {fa}
        return set()

    # states are frozensets of (variable, frozenset of fields) pairs (a dict would be read as per-edge states by the solver)
    GUARD = "__guards__"
    FALSY = frozenset({"__falsy__"})

    def transfer(node, st0):
        st = dict(st0)
        if node.kind == "test":
            # a guard `if not (A and B): return False` establishes A and B on the edge that continues
            t = node.ast
            neg = isinstance(t, ast.UnaryOp) and isinstance(t.op, ast.Not)
            core = t.operand if neg else t
            d = frozenset(deps(core, st))
            if isinstance(core, ast.Name):
                # `if flag:` - on the other edge the flag is false: returning it there is a rejecting exit
                yes, no = dict(st), dict(st)
                yes[GUARD] = frozenset(st.get(GUARD, frozenset()) | d)
                no[core.id] = FALSY
                edge_true, edge_false = ("F", "T") if neg else ("T", "F")
                return {edge_true: frozenset(yes.items()), edge_false: frozenset(no.items()), None: frozenset(st.items())}
            if d:
                yes = dict(st)
                yes[GUARD] = frozenset(st.get(GUARD, frozenset()) | d)
                edge_true, edge_false = ("F", "T") if neg else ("T", "F")
                return {edge_true: frozenset(yes.items()), edge_false: frozenset(st.items()), None: frozenset(st.items())}
            return frozenset(st.items())
        if node.kind == "stmt" and isinstance(node.ast, ast.Assign) and len(node.ast.targets) == 1 and isinstance(node.ast.targets[0], ast.Name):
            st[node.ast.targets[0].id] = frozenset(deps(node.ast.value, st))
        elif node.kind == "stmt" and isinstance(node.ast, ast.AugAssign) and isinstance(node.ast.target, ast.Name):
            st[node.ast.target.id] = frozenset()
        return frozenset(st.items())

    def join(a, b):
        a, b = dict(a), dict(b)
        return frozenset((k, a[k] & b[k]) for k in a.keys() & b.keys())   # a fact missing on one side is dropped (must-analysis)

    states = solve_forward(g, frozenset(), transfer, join)
    result = None
    witness = None
    for n in g.nodes:
        if n.kind == "stmt" and isinstance(n.ast, ast.Return) and n.id in states:
            v = n.ast.value
            # `return False` is a rejecting exit: it cannot make two different objects equal
            if isinstance(v, ast.Constant) and v.value is False:
                continue
            if isinstance(v, ast.Name) and dict(states[n.id]).get(v.id) == FALSY:
                continue          # `return flag` where the flag is known to be false
            d = (deps(v, dict(states[n.id])) if v is not None else set()) | set(dict(states[n.id]).get(GUARD, frozenset()))
            if isinstance(v, ast.Call) and isinstance(v.func, ast.Name) and v.func.id == "bool" and len(v.args) == 1:
                d |= deps(v.args[0], dict(states[n.id]))
            if result is None or not (result <= d):
                witness = n if result is None or len(d) < len(result) else witness
            result = d if result is None else (result & d)
    return (result or set()), witness


def rule_isinstance_first(repo, rep, r2, c, f):
    sn, on = f.params[0], f.params[1]
    g = cfgmod.build(f.node)
    from ..dataflow import header_exprs

    def is_inst(e):
        return isinstance(e, ast.Call) and call_name(e) == "isinstance" and len(e.args) == 2 and isinstance(
            e.args[0], ast.Name) and e.args[0].id == on

    def reads_other(e):
        return [n for n in ast.walk(e) if isinstance(n, ast.Attribute) and isinstance(n.value, ast.Name) and n.value.id == on]

    def first_unguarded(e, guarded):
        """Evaluation-order scan of one expression; returns offending Attribute or None, and guarded-after flag."""
        if isinstance(e, ast.stmt):
            g2 = guarded
            for ch in ast.iter_child_nodes(e):
                if isinstance(ch, ast.expr):
                    bad, g2 = first_unguarded(ch, g2)
                    if bad is not None:
                        return bad, g2
            return None, g2
        if isinstance(e, ast.BoolOp) and isinstance(e.op, ast.And):
            g2 = guarded
            for v in e.values:
                bad, _ = first_unguarded(v, g2)
                if bad is not None:
                    return bad, g2
                if is_inst(v):
                    g2 = True
            return None, g2
        if is_inst(e):
            return None, guarded
        if not guarded:
            ro = reads_other(e)
            if ro:
                return sorted(ro, key=lambda n: (n.lineno, n.col_offset))[0], guarded
        return None, guarded

    # dataflow: "isinstance established" must-fact
    from ..cfg import solve_forward

    def transfer(node, st):
        if node.kind == "test":
            t = node.ast
            neg = isinstance(t, ast.UnaryOp) and isinstance(t.op, ast.Not)
            core = t.operand if neg else t
            conj = core.values if isinstance(core, ast.BoolOp) and isinstance(core.op, ast.And) else [core]
            if any(is_inst(x) for x in conj):
                return {"F" if neg else "T": True, "T" if neg else "F": st, None: st}
        return st

    states = solve_forward(g, False, transfer, lambda a, b: a and b)
    bad = None
    for n in g.nodes:
        if n.id not in states:
            continue
        for e in header_exprs(n):
            if e is None:
                continue
            b, _ = first_unguarded(e, states[n.id])
            if b is not None and (bad is None or (b.lineno, b.col_offset) < (bad[1].lineno, bad[1].col_offset)):
                bad = (n, b)
    # the class tested is the class itself: a wider test lets an aggregator of another primitive type compare equal
    for e in ast.walk(f.node):
        if is_inst(e):
            targ = e.args[1]
            members = targ.elts if isinstance(targ, ast.Tuple) else [targ]
            foreign = []
            for mem in members:
                try:
                    k = repo.resolve_name(f.module, ast.unparse(mem))
                except Exception:
                    k = None
                if not (k is c or (hasattr(k, "name") and c in repo.mro(k))):
                    foreign.append(ast.unparse(mem))
            r2.ob(not foreign, f"{c.name}.__eq__: isinstance tests {ast.unparse(targ)}")
            if foreign:
                rep.finding("R9.2", f, e, f"`{ast.unparse(e)}` also accepts {foreign}: an aggregator of another type with the same fields compares "
                            f"equal to a {c.name} (and == is no longer symmetric, since {foreign[0]}.__eq__ still rejects a {c.name})",
                            stmt=f"isinstance accepts {foreign}")
    r2.ob(bad is None, f"{c.name}.__eq__")
    if bad is not None:
        n, b = bad
        rep.finding("R9.2", f, n.stmt, f"`{ast.unparse(b)}` is read before isinstance({on}, {c.name}) has been established: "
                    f"comparing with an object of another type raises AttributeError instead of returning False",
                    stmt=f"{ast.unparse(b)} read before isinstance")


def rule_numeq(repo, rep, r5):
    um = repo.modules.get("histogrammar.util")
    if um is None or "numeq" not in um.functions:
        raise AnalysisError("histogrammar.util.numeq not found")
    f = um.functions["numeq"]
    rep.analysed_functions.add(f.construct)
    x, y = f.params[0], f.params[1]
    g = cfgmod.build(f.node)
    tests = [n for n in g.nodes if n.kind == "test"]

    def txt(e):
        return ast.unparse(e).replace(" ", "")

    # (a) decision table over IEEE classes with both tolerances zero (float-class interpretation of the body)
    from .. import fclass as fc
    classes = [("nan", fc.NAN), ("+inf", fc.PINF), ("-inf", fc.NINF), ("finite", fc.fin())]
    for lx, vx in classes:
        for ly, vy in classes:
            it = fc.Interp(repo, None, [])
            env = {x: vx, y: vy, "relativeTolerance": fc.fin(0), "absoluteTolerance": fc.fin(0)}
            try:
                paths = it.run(f, env)
            except fc.Unsupported as e:
                raise AnalysisError(f"{f.construct}: float-class interpretation failed: {e}")
            if lx == "nan" and ly == "nan":
                want = True
            elif "nan" in (lx, ly):
                want = False
            elif lx == "finite" and ly == "finite":
                want = "x==y"
            elif "finite" in (lx, ly):
                want = False
            else:
                want = lx == ly
            for pth in paths:
                if want == "x==y":
                    ok = pth.outcome == "return" and pth.node is not None and txt(pth.node.value) in (f"{x}=={y}", f"{y}=={x}")
                    got = txt(pth.node.value) if pth.node is not None else pth.outcome
                else:
                    ok = pth.outcome == "return" and pth.value is want
                    got = pth.value if pth.outcome == "return" else pth.outcome
                r5.ob(ok, f"numeq({lx}, {ly}) with zero tolerances -> {got}")
                if not ok:
                    what = {True: "True", False: "False", "x==y": "the exact comparison x == y"}[want]
                    rep.finding("R9.5", f, pth.node if pth.node is not None else f.node, f"with zero tolerances numeq({lx}, {ly}) evaluates to {got!r} "
                                f"(branches taken at lines {[ln for ln, b in pth.trail if b]}); it must be {what}"
                                + (": empty aggregators (NaN mean/min/max) would not be equal to themselves" if (lx, ly) == ("nan", "nan") else ""),
                                stmt=f"numeq({lx},{ly}) -> {got}")
    tests = [n for n in g.nodes if n.kind == "test"]
    # (c) tolerances only widen: every return that is control dependent on a test of a tolerance is reached only through positive
    #     tests (`tol > 0`, on either edge) and, where a tolerance is positive on the path, returns `abs(x - y) <= <bound of those tolerances>`
    TOLS = {"relativeTolerance", "absoluteTolerance"}
    from ..astutil import walk_local_stmt
    local_defs = {}
    for st in walk_local_stmt(f.node):
        if isinstance(st, ast.Assign) and len(st.targets) == 1 and isinstance(st.targets[0], ast.Name):
            local_defs.setdefault(st.targets[0].id, []).append(st.value)

    def expand(e, depth=0):
        """locals with one definition stand for it (`tolerance = max(...)`)"""
        import copy

        class X(ast.NodeTransformer):
            def visit_Name(self, nm):
                if isinstance(nm.ctx, ast.Load) and nm.id not in (x, y) and len(local_defs.get(nm.id, [])) == 1 and depth < 4:
                    return expand(local_defs[nm.id][0], depth + 1)
                return nm
        return X().visit(copy.deepcopy(e))

    def tol_names(e):
        return {a.id for a in ast.walk(expand(e)) if isinstance(a, ast.Name)} & TOLS

    def positive_test(cn):
        """`E > 0` / `0 < E` for a tolerance or a value derived from the tolerances: the text of (expanded) E, else None"""
        if not (isinstance(cn, ast.Compare) and len(cn.ops) == 1):
            return None
        a, op, b = cn.left, cn.ops[0], cn.comparators[0]
        if txt(b) in ("0.0", "0") and isinstance(op, ast.Gt) and tol_names(a):
            return txt(expand(a))
        if txt(a) in ("0.0", "0") and isinstance(op, ast.Lt) and tol_names(b):
            return txt(expand(b))
        return None

    def nonneg_given(e, positives):
        """e >= 0 whenever the expressions in `positives` are > 0 (sums, products, max of such terms; abs(...); the terms themselves)"""
        t = txt(e)
        if t in positives:
            return True
        if isinstance(e, ast.Constant) and isinstance(e.value, (int, float)) and e.value >= 0:
            return True
        if isinstance(e, ast.Call) and isinstance(e.func, ast.Name) and e.func.id == "abs":
            return True
        if isinstance(e, ast.Call) and isinstance(e.func, ast.Name) and e.func.id == "max" and e.args:
            # max(a, b) built from tolerances: every tolerance in it must be known positive, or the whole max is
            return all(nonneg_given(a, positives) for a in e.args)
        if isinstance(e, ast.BinOp) and isinstance(e.op, (ast.Add, ast.Mult)):
            return nonneg_given(e.left, positives) and nonneg_given(e.right, positives)
        return False

    tcd = g.transitive_control_deps()
    ntol = 0
    for n in g.nodes:
        if not (n.kind == "stmt" and isinstance(n.ast, ast.Return)):
            continue
        deps_t = [(g.nodes[tid], lab) for (tid, lab) in tcd[n.id] if g.nodes[tid].kind == "test" and tol_names(g.nodes[tid].ast)]
        if not deps_t:
            continue
        good = True
        pos_on_path = set()
        for tn, lab in deps_t:
            conj = tn.ast.values if isinstance(tn.ast, ast.BoolOp) and isinstance(tn.ast.op, ast.And) else [tn.ast]
            # `not (tol > 0)` in a conjunction says that this tolerance is switched off on the path: it contributes nothing
            conj = [cn for cn in conj if not (isinstance(cn, ast.UnaryOp) and isinstance(cn.op, ast.Not) and positive_test(cn.operand) is not None)]
            names = [positive_test(cn) for cn in conj]
            if lab != "T":
                continue     # the test failed on this path
            if any(nm is None for nm in names):
                good = False     # taken on the true side of a tolerance test that is not a conjunction of `tol > 0` tests
            else:
                pos_on_path |= set(names)
        if good and not pos_on_path:
            continue         # reached with all tested tolerances non-positive: decided by the zero-tolerance table above
        ntol += 1
        widening = False
        v = n.ast.value
        if isinstance(v, ast.Compare) and len(v.ops) == 1:
            dist = (f"abs({x}-{y})", f"abs({y}-{x})")
            bound = None
            if isinstance(v.ops[0], ast.LtE) and txt(expand(v.left)) in dist:
                bound = v.comparators[0]
            elif isinstance(v.ops[0], ast.GtE) and txt(expand(v.comparators[0])) in dist:
                bound = v.left
            if bound is not None:
                be = expand(bound)
                # the bound is the tested-positive value itself, or is built only from tolerances tested positive on this path
                widening = txt(be) in pos_on_path or (tol_names(be) <= pos_on_path and nonneg_given(be, pos_on_path | {f"abs({x})", f"abs({y})"}))
        ok = good and widening
        r5.ob(ok, f"numeq: return under positive {sorted(pos_on_path)}: `{norm(n.stmt)[:60]}`")
        if not ok:
            rep.finding("R9.5", f, n.stmt, "a return reached with a positive tolerance is not of the guarded widening form "
                        "`abs(x - y) <= <bound built from the tolerances tested positive on this path>`: a positive tolerance could "
                        "narrow the comparison, the comparison could be one-sided (== no longer symmetric), or a zero tolerance could "
                        "take part in it", stmt=f"tolerance return {norm(n.stmt)[:60]}")
    if ntol == 0:
        r5.ob(True, "numeq: no tolerance branches")
    # module-level defaults are zero
    for nm in ("relativeTolerance", "absoluteTolerance"):
        v = um.assigns.get(nm)
        ok = isinstance(v, ast.Constant) and v.value == 0
        r5.ob(ok, f"default {nm} is 0")
        if not ok:
            rep.finding("R9.5", f"{um.relpath}::<module>", v, f"default {nm} is not 0.0: == is inexact by default", stmt=f"default {nm}")
