"""C10 - incompatible aggregators are never merged silently (guards of __add__ / __iadd__)."""

import ast

from .. import cfg as cfgmod
from ..astutil import call_name, walk_local_stmt
from ..cfg import solve_forward
from ..dataflow import header_exprs
from ..loader import AnalysisError, FuncInfo, norm, primitives
from ..model import USERFCN_FIELDS, build_models
from ..taint import FieldTaint
from .c12 import own_store_targets
from .c15 import edge_always_raises


def discriminating_attrs(repo, prims, c):
    """Attributes that only class c (among the primitives) defines: reading them on another type raises."""
    from ..resolve import attr_universe, instance_attr_stores

    # a primitive with a forwarding __getattr__ (Select hands every unknown attribute to its cut) answers the attributes of
    # whatever it wraps: Select(K) has all attributes of K, so reading an attribute cannot establish that `other` is a K
    for k in prims:
        if k is not c and "__getattr__" in k.methods:
            return set()
    stores, _ = instance_attr_stores(repo)
    mine = attr_universe(repo, c, stores)
    others = set()
    for k in prims:
        if k is not c:
            others |= attr_universe(repo, k, stores)
    return mine - others


def guard_facts(repo, prims, c, f, g):
    """node id -> True when, on every path to the node, the type of `other` has been established."""
    sn, on = f.params[0], f.params[1]
    disc = discriminating_attrs(repo, prims, c)

    def is_inst(e):
        if isinstance(e, ast.Call) and call_name(e) == "isinstance" and len(e.args) == 2 and isinstance(e.args[0], ast.Name) \
                and e.args[0].id == on:
            r = repo.resolve_name(f.module, ast.unparse(e.args[1])) if isinstance(e.args[1], (ast.Name, ast.Attribute)) else None
            return r is not None and hasattr(r, "methods") and (r is c or c in repo.mro(r) or r in repo.mro(c)) and r.name == c.name
        return False

    def reads_disc(node):
        for e in header_exprs(node):
            if e is None:
                continue
            for n in ast.walk(e):
                if isinstance(n, ast.Attribute) and isinstance(n.value, ast.Name) and n.value.id == on and n.attr in disc:
                    return n.attr
        return None

    def transfer(node, st):
        if st:
            return st
        if node.kind == "test":
            t = node.ast
            neg = isinstance(t, ast.UnaryOp) and isinstance(t.op, ast.Not)
            core = t.operand if neg else t
            conj = core.values if isinstance(core, ast.BoolOp) and isinstance(core.op, ast.And) else [core]
            if any(is_inst(x) for x in conj):
                return {("F" if neg else "T"): True, ("T" if neg else "F"): st, None: st}
        if reads_disc(node):
            return True
        # delegation `self + other` (bare operands): the class's own __add__, checked by this same rule, is the guard
        for e in header_exprs(node):
            if e is None:
                continue
            for sub in ast.walk(e):
                if isinstance(sub, ast.BinOp) and isinstance(sub.op, ast.Add) and isinstance(sub.left, ast.Name) and isinstance(
                        sub.right, ast.Name) and {sub.left.id, sub.right.id} == {sn, on}:
                    return {"exc": st, None: True}
        return st

    states = solve_forward(g, False, transfer, lambda a, b: a and b)
    inst_tests = []
    for n in g.nodes:
        if n.kind == "test":
            t = n.ast
            neg = isinstance(t, ast.UnaryOp) and isinstance(t.op, ast.Not)
            core = t.operand if neg else t
            conj = core.values if isinstance(core, ast.BoolOp) and isinstance(core.op, ast.And) else [core]
            if any(is_inst(x) for x in conj):
                inst_tests.append((n, "T" if neg else "F"))
    return states, inst_tests, disc


def sensitive_nodes(repo, c, f, g, models):
    """Nodes that build the result or change state: own-state stores, child merges, constructor calls."""
    sn = f.params[0]
    out = []
    for n in g.nodes:
        if n.kind == "stmt":
            a = n.ast
            if own_store_targets(a, sn):
                out.append((n, "own-state store"))
                continue
            if isinstance(a, ast.AugAssign):
                out.append((n, "in-place merge"))
                continue
            if isinstance(a, ast.Return):
                # a normal return is an acceptance: `if other.entries == 0: return self` in front of the guards accepts an empty
                # operand of any type and layout
                out.append((n, "normal return (the operand is accepted)"))
        for e in header_exprs(n):
            if e is None:
                continue
            for sub in ast.walk(e):
                if isinstance(sub, ast.Call) and isinstance(sub.func, ast.Name):
                    r = repo.resolve_name(f.module, sub.func.id)
                    if hasattr(r, "methods") and any(x.name in models for x in repo.mro(r)):
                        out.append((n, f"construction of {r.name}"))
                elif isinstance(sub, ast.BinOp) and isinstance(sub.op, ast.Add):
                    if isinstance(sub.left, ast.Name) and isinstance(sub.right, ast.Name):
                        continue  # delegation to the class's own __add__
                    names = {x.id for x in ast.walk(sub) if isinstance(x, ast.Name)}
                    if sn in names and f.params[1] in names:
                        out.append((n, "child merge"))
    return out


def raising_comparisons(f, g, ft):
    """[(test node, labels left, labels right)] for comparisons whose mismatch edge always raises."""
    out = []
    for n in g.nodes:
        if n.kind != "test":
            continue

        def visit(e, positive):
            # positive: True if the *truth* of e leads to the raise edge being examined
            if isinstance(e, ast.UnaryOp) and isinstance(e.op, ast.Not):
                visit(e.operand, not positive)
            elif isinstance(e, ast.BoolOp):
                # `a != b or c != d` (T raises): each disjunct alone raises; `a == b and c == d` (F raises): each conjunct.
                # The dual forms (`a != b and c != d`, also nested: `x or a != b and c != d`) raise only when ALL parts mismatch:
                # no part of them is a guard on its own
                if (isinstance(e.op, ast.Or) and positive) or (isinstance(e.op, ast.And) and not positive):
                    for v in e.values:
                        visit(v, positive)
            elif isinstance(e, ast.Compare) and len(e.ops) == 1:
                op = e.ops[0]
                if (isinstance(op, ast.NotEq) and positive) or (isinstance(op, ast.Eq) and not positive):
                    out.append((n, ft.L(e.left, ft.env), ft.L(e.comparators[0], ft.env), e))

        for edge, positive in (("T", True), ("F", False)):
            ok, _ = edge_always_raises(g, n, edge)
            if ok:
                t = n.ast
                # for T-raises a disjunction distributes; for F-raises a conjunction distributes
                if isinstance(t, ast.BoolOp) and ((isinstance(t.op, ast.And) and positive) or (isinstance(t.op, ast.Or) and not positive)):
                    continue
                visit(t, positive)
    return out


def run(repo, rep, tier):
    rep.extra["explanation"] = (
        "Guard analysis of all 19 __add__ and 19 __iadd__: (R10.1) on every path the type of `other` is established - by "
        "an isinstance(other, K) test whose failure edge can only raise, or by reading an attribute only K defines - "
        "before any state store, child merge or result construction; (R10.2) every structural parameter that zero() "
        "passes to the constructor is compared between self and other with a raising mismatch edge (scalars by value, "
        "fixed-layout child containers by length/keys/thresholds, data-keyed containers by declared content type); "
        "(R10.3) in __iadd__ no state change precedes an operation that can still reject (typestate on the CFG). "
        "Decides which mismatches reach a raise, not the run-time behaviour on concrete trees."
    )
    rep.extra["explanation"] += " " + (
        'Later addition: (R10.4) shared rule of C04: the declared content type the guards compare survives zero/+/* in reloaded form.'
    )
    rep.not_decided += ["template compatibility deeper than the content type name in immutable (reloaded) form"]
    prims, _ = primitives(repo)
    models = build_models(repo)
    r1 = rep.rule("R10.1", "type of `other` established (with a raising failure edge) before any mutation/construction", floor=38)
    r2 = rep.rule("R10.2", "every structural parameter is compared with a raising mismatch edge", floor=30)
    # the declared content type is what empty reloaded containers are compared by: it must survive zero/+/*
    rep.borrow(repo, "C04", {"R4.5": ("R10.4", "the content type that the compatibility guards compare survives zero/+/* in reloaded form", 40)},
               keep=lambda f: "contentType" in f.message or "contentType" in f.stmt)
    r5 = rep.rule("R10.5", "on every returning path every child slot is merged by the children's own + / += (where the children's types are compared)", floor=20)
    r3 = rep.rule("R10.3", "+= rejects atomically: no state change before an operation that can still raise", floor=19)
    for c in prims:
        m = models[c.name]
        fill = repo.own_method(c, "fill")
        data_keyed = {fld for fld, _ in [(t[0], t[1]) for n in walk_local_stmt(fill.node) if isinstance(n, ast.stmt)
                                         for t in own_store_targets(n, fill.params[0])] if fld in m.slots}
        for name in ("__add__", "__iadd__"):
            f = repo.own_method(c, name)
            rep.analysed_functions.add(f.construct)
            if len(f.params) != 2:
                raise AnalysisError(f"{f.construct}: unexpected signature")
            g = cfgmod.build(f.node)
            sn, on = f.params
            # ---------------- R10.1
            states, inst_tests, disc = guard_facts(repo, prims, c, f, g)
            sens = sensitive_nodes(repo, c, f, g, models)
            bad = [(n, what) for n, what in sens if n.id in states and not states[n.id]]
            ok_raise = True
            for tn, fail_edge in inst_tests:
                ok, why = edge_always_raises(g, tn, fail_edge)
                if not ok:
                    ok_raise = False
                    rep.finding("R10.1", f, tn.stmt, f"the failure edge of the isinstance guard does not always raise ({why}): "
                                f"an operand of another type is not rejected", stmt="isinstance failure edge")
            r1.ob(not bad and ok_raise, f"{f.qualname}: {len(sens)} sensitive sites, guard tests at lines {[t.lineno for t, _ in inst_tests]}")
            if bad:
                n, what = sorted(bad, key=lambda x: x[0].lineno)[0]
                rep.finding(
                    "R10.1", f, n.stmt,
                    f"{what} is reachable before the type of `{on}` has been established (no isinstance({on}, {c.name}) with a "
                    f"raising failure edge, no attribute only {c.name} defines): merging with another primitive type is not "
                    f"rejected before state changes" + (" - self is already modified when the AttributeError comes" if name == "__iadd__" else ""),
                    stmt=f"unguarded: {norm(n.stmt)[:80]}",
                    path=f"{f.qualname}: entry -> line {n.lineno} without a type guard",
                )
            # ---------------- R10.2
            dict_fields = [s for s, k in m.slot_kind.items() if k == "dict"]
            ft = FieldTaint(repo, c, f, [sn, on], dict_fields)
            ft.sets_lose_order = True
            ft._fix()
            cmps = raising_comparisons(f, g, ft)

            dom = g.dominators()
            returns = [n for n in g.nodes if n.kind == "stmt" and isinstance(n.ast, ast.Return) and n.id in dom]
            escaped = {}

            def compared(field, flavours):
                tests = []
                for (tn, la, lb, e) in cmps:
                    for (x, y) in ((la, lb), (lb, la)):
                        if any(p == sn and fl == field and fv in flavours for (p, fl, fv, z) in x) and any(
                                p == on and fl == field and fv in flavours for (p, fl, fv, z) in y):
                            tests.append(tn)
                if not tests:
                    return False
                # the comparison guards the merge only if no normal return is reachable around it
                free = [r0 for r0 in returns if not any(tn.id in dom[r0.id] for tn in tests)]
                if free:
                    escaped[field] = free[0]
                    return False
                return True

            needs = []
            for fld in m.structural:
                if fld in ("contentType", "dimension"):
                    continue
                needs.append((fld, ("full",), "structural parameter"))
            from ..ownership import Shapes
            shp = Shapes(repo, models)
            for s in m.slots:
                k = m.slot_kind.get(s)
                if k == "single":
                    continue
                if s in data_keyed:
                    needs.append(("contentType", ("full",), f"declared content type of the data-keyed container `{s}`"))
                elif (m.name, s) in shp.pair_slots:
                    needs.append((s, ("full",), "thresholds/centres of the fixed layout"))
                elif k == "dict":
                    needs.append((s, ("keys", "full"), "key set of the fixed layout"))
                else:
                    needs.append((s, ("len", "full"), "number of children of the fixed layout"))
            for fld, flv, what in needs:
                ok = compared(fld, flv)
                if fld == "contentType" and not ok and m.template:
                    # comparing the template's type name is the same declaration
                    ok = compared(m.template, ("full",))
                r2.ob(ok, f"{f.qualname}: {what} `{fld}` compared with a raising mismatch edge")
                if not ok and fld in escaped:
                    r0 = escaped[fld]
                    rep.finding("R10.2", f, r0.stmt, f"`{norm(r0.stmt)}` (line {r0.lineno}) returns normally without passing the comparison of {what} "
                                f"(`{fld}`): on that path an operand with another layout is accepted silently", stmt=f"return around the guard on {fld}")
                    continue
                if not ok:
                    rep.finding(
                        "R10.2", f, f.node,
                        f"{what} (`{fld}`) is never compared between `{sn}` and `{on}` with a raising mismatch path: two "
                        f"{c.name}s that differ in it are merged silently",
                        stmt=f"no guard on {fld}",
                    )
            # ---------------- R10.5
            ft5 = FieldTaint(repo, c, f, [sn, on], dict_fields)
            ft5.project_slots = {s for s, k in m.slot_kind.items() if k == "single"}
            ft5.container_project_slots = {s for s, k in m.slot_kind.items() if k != "single"}
            ft5._fix()
            children_merged_on_all_paths(rep, r5, c, m, f, g, ft5)
            # ---------------- R10.3
            if name == "__iadd__":
                atomic(repo, rep, r3, c, m, f, g, ft)


def children_merged_on_all_paths(rep, r5, c, m, f, g, ft):
    """The types of the children are compared nowhere but in the children's own __add__/__iadd__: on every path that returns
    normally each child slot must have gone through `x + y` / `x += y` with x from self's slot and y from other's (a loop or
    comprehension that does it counts: no children, nothing to compare); `self + other` (delegating +=) merges every slot."""
    sn, on = f.params
    if not m.slots:
        return
    merges = {}          # id(expr or stmt) -> set(slots)

    def both(la, lb):
        out = set()
        for s in m.slots:
            if any(p == sn and fl == s and fv == "full" for (p, fl, fv, z) in la) and any(p == on and fl == s and fv == "full" for (p, fl, fv, z) in lb):
                out.add(s)
        return out

    # fields of local objects (the result under construction): `out.bins = {... self.bins ...}` makes out.bins[i] a child of self
    local_fields = {}
    for n in walk_local_stmt(f.node):
        if isinstance(n, ast.Assign):
            for t in n.targets:
                if isinstance(t, ast.Attribute) and isinstance(t.value, ast.Name) and t.value.id not in (sn, on):
                    local_fields[(t.value.id, t.attr)] = local_fields.get((t.value.id, t.attr), frozenset()) | ft.L(n.value, ft.env)

    def lab(e, env):
        b = e
        while isinstance(b, ast.Subscript):
            b = b.value
        if isinstance(b, ast.Attribute) and isinstance(b.value, ast.Name) and (b.value.id, b.attr) in local_fields:
            return local_fields[(b.value.id, b.attr)] | ft.L(e, env)
        return ft.L(e, env)

    def visit(node, env):
        if isinstance(node, ast.BinOp) and isinstance(node.op, ast.Add):
            if isinstance(node.left, ast.Name) and isinstance(node.right, ast.Name) and {node.left.id, node.right.id} == {sn, on}:
                merges[id(node)] = set(m.slots)
                return
            la, lb = lab(node.left, env), lab(node.right, env)
            got = both(la, lb) | both(lb, la)
            if got:
                merges[id(node)] = got

    ft.visit_exprs(f.node, visit)
    for n in walk_local_stmt(f.node):
        if isinstance(n, ast.AugAssign) and isinstance(n.op, ast.Add):
            tl = lab(n.target, ft.env) if not isinstance(n.target, ast.Name) else ft.env.get(n.target.id, frozenset())
            got = both(tl, ft.L(n.value, ft.env))
            if got:
                merges[id(n)] = got

    def gens_under(root):
        out = set()
        for x in ast.walk(root):
            out |= merges.get(id(x), set())
        return out

    def transfer(node, st):
        if node.kind == "stmt" and node.ast is not None and not isinstance(node.ast, (ast.For, ast.While, ast.If, ast.Try, ast.With)):
            return frozenset(set(st) | gens_under(node.ast))
        if node.kind == "iter" and node.stmt is not None:
            return frozenset(set(st) | gens_under(node.stmt))
        return st

    states = solve_forward(g, frozenset(), transfer, lambda a, b: a & b)
    for n in g.nodes:
        if n.kind == "stmt" and isinstance(n.ast, ast.Return) and n.id in states:
            have = set(transfer(n, states[n.id]))
            missing = [x for x in m.slots if x not in have]
            r5.ob(not missing, f"{f.qualname}: return at line {n.ast.lineno}: child slots merged by the children themselves: {sorted(have)}")
            if missing:
                rep.finding("R10.5", f, n.ast, f"the path returning at line {n.ast.lineno} has not passed the children of {missing} through their own "
                            f"`+`/`+=`: the child aggregators' types and parameters are compared nowhere else, so on that path a {c.name} whose "
                            f"children are of another kind is merged (or partly merged) without an exception", stmt=f"children of {missing} not merged by + on a returning path")


def atomic(repo, rep, r3, c, m, f, g, ft):
    sn, on = f.params

    def is_child_merge(a):
        """x += y where x is (an element of) a child slot of self"""
        if not isinstance(a, ast.AugAssign):
            return False
        labs = ft.L(a.target, ft.env) if not isinstance(a.target, ast.Name) else ft.env.get(a.target.id, frozenset())
        return any(p == sn and fl in m.slots and fv == "full" for (p, fl, fv, z) in labs)

    def transfer(node, st):
        if node.kind == "stmt":
            a = node.ast
            if own_store_targets(a, sn) or is_child_merge(a):
                return True
        return st

    states = solve_forward(g, False, transfer, lambda a, b: a or b)
    first = None
    for n in sorted(g.nodes, key=lambda x: x.lineno):
        if n.id not in states or not states[n.id]:
            continue
        fallible = None
        if n.kind == "stmt" and isinstance(n.ast, ast.Raise):
            fallible = "explicit raise"
        elif n.kind == "stmt" and is_child_merge(n.ast):
            fallible = f"child merge `{norm(n.stmt)}` (raises on a nested mismatch)"
        else:
            for e in header_exprs(n):
                if e is None:
                    continue
                for sub in ast.walk(e):
                    if isinstance(sub, ast.BinOp) and isinstance(sub.op, ast.Add):
                        names = {x.id for x in ast.walk(sub) if isinstance(x, ast.Name)}
                        if sn in names and on in names:
                            fallible = f"child merge `{ast.unparse(sub)}`"
        if fallible:
            first = (n, fallible)
            break
    r3.ob(first is None, f"{f.qualname}: " + ("atomic" if first is None else "state changes before a fallible step"))
    if first is not None:
        n, what = first
        rep.finding(
            "R10.3", f, f.node,
            f"`{sn}` (its counter or an earlier child) is already modified when {what} at line {n.lineno} can still reject the "
            f"merge: a rejected `+=` on a nested mismatch leaves `{sn}` half-merged",
            stmt="non-atomic rejection",
            path=f"{f.qualname}: first state change -> line {n.lineno}",
        )
