"""C11 - pickling preserves content, equality and fillability (narrow structural part)."""

import ast

from .. import cfg as cfgmod
from ..astutil import call_name, walk_local_stmt
from ..loader import AnalysisError, FuncInfo, norm
from ..resolve import unresolved_self_loads
from .c15 import edge_always_raises


def run(repo, rep, tier):
    rep.extra["explanation"] = (
        "Narrow structural part of pickling: (R11.1) the attributes specialize() installs as wrappers, the attributes "
        "__getstate__ strips and the attributes __setstate__ re-creates are the same set, and __setstate__ restores "
        "__dict__ before wrapping; (R11.2) UserFcn.__reduce__ has a branch for every expr kind in the property (None, string, "
        "FunctionType) and raises otherwise, and deserializeString/deserializeFunction are module-level functions that set "
        "every attribute __init__ sets; (R11.3) every self.x read in UserFcn/CachedFcn/FillMethod/PlotMethod resolves; "
        "(R11.4) Select.__getattr__ handles dunder names first and never uses plain attribute syntax on self. Fidelity of "
        "marshal-ed code objects and liveness of the clone are run-time questions and are not decided."
    )
    rep.extra["explanation"] += " " + (
        "Later additions to R11.2: reduce-tuple/parameter agreement; a rebuilt function gets a namespace of its own and the module's globals() are never written."
    )
    rep.not_decided += ["fidelity of marshal-ed code objects, closures and globals", "equality/liveness of the clone (run time)"]
    cont = repo.cls("Container", "histogrammar.defs")
    fac = repo.cls("Factory", "histogrammar.defs")
    um = repo.modules["histogrammar.util"]
    r1 = rep.rule("R11.1", "specialize / __getstate__ / __setstate__ agree on the wrapper attributes", floor=3)
    r2 = rep.rule("R11.2", "__reduce__ covers None/str/function and raises otherwise; deserializers restore every attribute", floor=6)
    r3 = rep.rule("R11.3", "self.x reads resolve in the pickling helpers", floor=20)
    r4 = rep.rule("R11.4", "Select.__getattr__ cannot recurse during unpickling", floor=2)
    # a clone compares equal to its original only if == looks at data whose equality survives a copy: code bytes and names do;
    # default arguments, closures and globals hold arbitrary objects (NaN != a copy of NaN inside a tuple, arrays raise on ==)
    r7 = rep.rule("R11.7", "UserFcn.__eq__ compares function quantities by code and names only (values whose == survives a pickle copy)", floor=1)
    um0 = repo.modules.get("histogrammar.util")
    ueq = repo.own_method(um0.classes["UserFcn"], "__eq__") if um0 is not None and "UserFcn" in um0.classes and "__eq__" in um0.classes["UserFcn"].methods else None
    if ueq is None:
        raise AnalysisError("UserFcn.__eq__ not found")
    rep.analysed_functions.add(ueq.construct)
    FRAGILE = {"__defaults__", "__kwdefaults__", "__closure__", "__globals__", "__dict__"}
    cmps = [n for n in ast.walk(ueq.node) if isinstance(n, ast.Compare) and any(isinstance(o, (ast.Eq, ast.NotEq)) for o in n.ops)]
    for n in cmps:
        bad = sorted({a.attr for a in ast.walk(n) if isinstance(a, ast.Attribute) and a.attr in FRAGILE})
        r7.ob(not bad, f"UserFcn.__eq__: `{ast.unparse(n)[:60]}`")
        if bad:
            rep.finding("R11.7", ueq, n, f"UserFcn.__eq__ compares `{bad[0]}` of the two functions with ==: pickle copies these objects by value, "
                        f"and == on the copies is not reflexive for a NaN inside the tuple (identity shortcut lost) and raises for a numpy "
                        f"array: the unpickled clone of an aggregator whose quantity has such a default no longer equals the original",
                        stmt=f"UserFcn.__eq__ compares {bad[0]}")
    # the state of a string quantity lives in its compiled closure, which is not pickled: it must hold nothing that depends on the
    # records seen so far, or the clone (fresh closure) and the original diverge on the next record
    rep.borrow(repo, "C17", {"R17.4": ("R11.8", "the evaluation namespace of a string quantity is built per call: nothing a record leaves behind survives in the (unpickled) closure", 2)},
               keep=lambda f: "namespace" in (f.stmt or ""))
    # an unpickled Count carries a COPY of `identity` as its transform, so `transform is identity` is false for the clone: it takes
    # the general branch of Bin/CentrallyBin/Count._numpy where the original takes the fast one.  Both must do what fill does.
    rep.borrow(repo, "C03", {"R3.3": ("R11.9", "fill.numpy never writes into the caller's data/weight arrays: clone and original handed the same batch see the same batch", 400)})
    rep.borrow(repo, "C03", {"R3.1": ("R11.5", "the branches of _numpy selected by `transform is identity` (original: fast path, unpickled clone: general path) have the same effect", 300),
                             "R3.7": ("R11.6", "Count._numpy adds the same amount on the identity branch (original) and on the transform branch (unpickled clone)", 8)},
               keep=lambda f: any(f.construct.endswith(x) for x in ("::Bin._numpy", "::CentrallyBin._numpy", "::Count._numpy")))
    # ---------------- R11.1
    spec = repo.own_method(fac, "specialize")
    gs = repo.own_method(cont, "__getstate__")
    ss = repo.own_method(cont, "__setstate__")
    for f in (spec, gs, ss):
        rep.analysed_functions.add(f.construct)

    def wrapped_attrs(f):
        sn = f.params[0]
        out = {}
        for n in walk_local_stmt(f.node):
            if isinstance(n, ast.Assign) and isinstance(n.value, ast.Call) and call_name(n.value) in ("FillMethod", "PlotMethod"):
                for t in n.targets:
                    if isinstance(t, ast.Attribute) and isinstance(t.value, ast.Name) and t.value.id == sn:
                        out[t.attr] = n
        return out

    inst = wrapped_attrs(spec)
    rebuilt = wrapped_attrs(ss)
    stripped = set()
    sn = gs.params[0]
    for n in walk_local_stmt(gs.node):
        if isinstance(n, ast.For) and isinstance(n.iter, (ast.List, ast.Tuple)):
            vals = [e.value for e in n.iter.elts if isinstance(e, ast.Constant)]
            if any(isinstance(d, ast.Delete) for d in ast.walk(n)):
                stripped |= set(vals)
        if isinstance(n, ast.Delete):
            for t in n.targets:
                if isinstance(t, ast.Subscript) and isinstance(t.slice, ast.Constant):
                    stripped.add(t.slice.value)
        if isinstance(n, ast.Call) and isinstance(n.func, ast.Attribute) and n.func.attr == "pop" and n.args and isinstance(n.args[0], ast.Constant):
            stripped.add(n.args[0].value)
    # filtering form: {k: v for k, v in self.__dict__.items() if k not in <constants>}  (constants: a literal or a module-level constant)
    gs_locals = {}
    for st0 in walk_local_stmt(gs.node):
        if isinstance(st0, ast.Assign) and len(st0.targets) == 1 and isinstance(st0.targets[0], ast.Name):
            gs_locals.setdefault(st0.targets[0].id, []).append(st0.value)

    def const_strings(e):
        if isinstance(e, ast.Name):
            if len(gs_locals.get(e.id, [])) == 1:
                e = gs_locals[e.id][0]          # a local constant such as `dynamic = ("fill", "plot")`
            else:
                e = gs.module.assigns.get(e.id, e)
        if isinstance(e, (ast.List, ast.Tuple, ast.Set)):
            return [x.value for x in e.elts if isinstance(x, ast.Constant) and isinstance(x.value, str)]
        if isinstance(e, ast.Call) and isinstance(e.func, ast.Name) and e.func.id in ("frozenset", "set", "tuple", "list") and e.args:
            return const_strings(e.args[0])
        return []
    for n in walk_local_stmt(gs.node):
        if isinstance(n, ast.DictComp) and f"{sn}.__dict__" in ast.unparse(n.generators[0].iter):
            for cond in n.generators[0].ifs:
                for cmpn in ast.walk(cond):
                    if isinstance(cmpn, ast.Compare) and len(cmpn.ops) == 1:
                        if isinstance(cmpn.ops[0], ast.NotIn):
                            stripped |= set(const_strings(cmpn.comparators[0]))
                        if isinstance(cmpn.ops[0], ast.NotEq):
                            for side in (cmpn.left, cmpn.comparators[0]):
                                if isinstance(side, ast.Constant) and isinstance(side.value, str):
                                    stripped.add(side.value)
    ok = set(inst) == stripped == set(rebuilt) and bool(inst)
    r1.ob(ok, f"installed {sorted(inst)}, stripped {sorted(stripped)}, rebuilt {sorted(rebuilt)}")
    if not ok:
        rep.finding("R11.1", gs, gs.node, f"specialize() installs {sorted(inst)}, __getstate__ strips {sorted(stripped)}, __setstate__ "
                    f"rebuilds {sorted(rebuilt)}: an instance-level wrapper that is not stripped is pickled with a bound method of "
                    f"the original; one that is not rebuilt leaves the clone without fill.numpy/plot", stmt="wrapper attribute sets")
    # __getstate__ works on a copy of __dict__: the real dict (or a plain alias of it) is neither mutated nor handed out
    real = {f"{sn}.__dict__"}
    for n in walk_local_stmt(gs.node):
        if isinstance(n, ast.Assign) and ast.unparse(n.value) == f"{sn}.__dict__":
            for t in n.targets:
                if isinstance(t, ast.Name):
                    real.add(t.id)
    okc = True
    for n in walk_local_stmt(gs.node):
        if isinstance(n, ast.Delete):
            for t in n.targets:
                if isinstance(t, ast.Subscript) and ast.unparse(t.value) in real:
                    okc = False
        if isinstance(n, (ast.Assign, ast.AugAssign)):
            for t in (n.targets if isinstance(n, ast.Assign) else [n.target]):
                if isinstance(t, ast.Subscript) and ast.unparse(t.value) in real:
                    okc = False
        if isinstance(n, ast.Call) and isinstance(n.func, ast.Attribute) and n.func.attr in ("pop", "popitem", "clear", "update", "setdefault", "__delitem__") \
                and ast.unparse(n.func.value) in real:
            okc = False
        if isinstance(n, ast.Return) and n.value is not None and ast.unparse(n.value) in real:
            okc = False
    r1.ob(okc, "__getstate__ copies __dict__ before stripping")
    if not okc:
        rep.finding("R11.1", gs, gs.node, "__getstate__ does not work on a copy of __dict__: pickling strips fill/plot from the original",
                    stmt="__getstate__ copy")
    # __setstate__ restores __dict__ first
    ssn = ss.params[0]
    order = [n for n in ss.node.body if isinstance(n, ast.Assign)]
    first = order[0] if order else None
    oks = first is not None and ast.unparse(first.targets[0]) == f"{ssn}.__dict__" and all(
        n.lineno > first.lineno for n in rebuilt.values())
    r1.ob(oks, "__setstate__ restores __dict__ before wrapping")
    if not oks:
        rep.finding("R11.1", ss, ss.node, "__setstate__ wraps fill/plot before (or without) restoring __dict__: the wrappers are lost "
                    "or wrap the wrong object", stmt="__setstate__ order")
    # ---------------- R11.2
    ufc = um.classes.get("UserFcn")
    if ufc is None:
        raise AnalysisError("util.UserFcn not found")
    red = repo.own_method(ufc, "__reduce__")
    rep.analysed_functions.add(red.construct)
    g = cfgmod.build(red.node)
    kinds = {"str": False, "none": False, "function": False}
    targets = {}
    for n in g.nodes:
        if n.kind == "test":
            t = ast.unparse(n.ast).replace(" ", "")
            # the return(s) this test selects: reachable from its T edge and not from its F edge
            def reach(lab0):
                seen, work = set(), [s for lab, s in n.succ if lab == lab0]
                while work:
                    x = work.pop()
                    if x in seen:
                        continue
                    seen.add(x)
                    work += [s2 for _, s2 in g.nodes[x].succ]
                return seen
            rt, rf = reach("T"), reach("F")
            sel = [g.nodes[x] for x in sorted(rt - rf) if g.nodes[x].kind == "stmt" and isinstance(g.nodes[x].ast, ast.Return)
                   and isinstance(g.nodes[x].ast.value, ast.Tuple)]
            r0 = sel[0] if sel else None
            if r0 is None:
                continue
            callee = ast.unparse(r0.ast.value.elts[0]) if isinstance(r0.ast.value, ast.Tuple) and r0.ast.value.elts else None
            if "basestring" in t or ",str)" in t:
                kinds["str"] = True
                targets["str"] = (callee, r0)
            if "exprisNone" in t:
                kinds["none"] = True
                targets["none"] = (callee, r0)
            if "types.FunctionType" in t:
                kinds["function"] = True
                targets["function"] = (callee, r0)
    for k, v in kinds.items():
        r2.ob(v, f"__reduce__ handles expr kind {k}")
        if not v:
            rep.finding("R11.2", red, red.node, f"UserFcn.__reduce__ has no branch for expr of kind `{k}`: aggregators with such a "
                        f"quantity cannot be pickled", stmt=f"__reduce__: {k}")
    tail_raises = any(g.nodes[p].kind == "stmt" and isinstance(g.nodes[p].ast, ast.Raise) for _, p in g.rai.pred)
    no_fall = all(g.nodes[p].kind == "stmt" and isinstance(g.nodes[p].ast, ast.Return) and g.nodes[p].ast.value is not None for _, p in g.ret.pred)
    r2.ob(tail_raises and no_fall, "__reduce__ raises for anything else")
    if not (tail_raises and no_fall):
        rep.finding("R11.2", red, red.node, "__reduce__ can fall through without raising for an unsupported expr", stmt="__reduce__ tail")
    # the globals a function quantity refers to travel with it: the names of its code object are filtered by MEMBERSHIP in its
    # globals only - a test on the value (truthiness, `.get(n)`, `is not None`) drops globals that are 0 / False / None / empty
    sel_sites = 0
    for n in walk_local_stmt(red.node):
        conds, var = None, None
        if isinstance(n, ast.DictComp) and len(n.generators) == 1 and "co_names" in ast.unparse(n.generators[0].iter):
            conds, var = list(n.generators[0].ifs), n.generators[0].target
        elif isinstance(n, ast.For) and "co_names" in ast.unparse(n.iter):
            conds = [st.test for st in n.body if isinstance(st, ast.If) and any(
                isinstance(t, ast.Subscript) and isinstance(t.ctx, ast.Store) for x in ast.walk(st) for t in ([x] if isinstance(x, ast.Subscript) else []))]
            var = n.target
        if conds is None or not isinstance(var, ast.Name):
            continue
        sel_sites += 1
        flat = []
        for c0 in conds:
            flat += c0.values if isinstance(c0, ast.BoolOp) and isinstance(c0.op, ast.And) else [c0]
        for c0 in flat:
            ok = isinstance(c0, ast.Compare) and len(c0.ops) == 1 and isinstance(c0.ops[0], ast.In) and isinstance(c0.left, ast.Name) and c0.left.id == var.id
            r2.ob(ok, f"__reduce__: captured globals selected by `{ast.unparse(c0)[:50]}`")
            if not ok:
                rep.finding("R11.2", red, c0, f"the globals shipped with a function quantity are selected by `{ast.unparse(c0)}`, not by membership "
                            f"(`{var.id} in <globals>`): a global the function reads whose value is falsy or fails the test (0, 0.0, False, None, '') "
                            f"is left out of the pickle and the clone raises NameError on its first fill", stmt="captured globals: value test")
    if kinds.get("function") and sel_sites == 0:
        r2.ob(False)
        rep.finding("R11.2", red, red.node, "__reduce__ handles function quantities but no selection of the globals named by `__code__.co_names` was found: "
                    "the rebuilt function cannot see the module-level names it refers to", stmt="captured globals: not collected")
    init = repo.own_method(ufc, "__init__")
    init_attrs = {t.attr for n in walk_local_stmt(init.node) if isinstance(n, ast.Assign) for t in n.targets
                  if isinstance(t, ast.Attribute) and isinstance(t.value, ast.Name) and t.value.id == init.params[0]}
    for kind, (callee, r0) in targets.items():
        f = um.functions.get(callee) if callee else None
        ok = f is not None
        if ok:
            rep.analysed_functions.add(f.construct)
            outv = None
            for n in walk_local_stmt(f.node):
                if isinstance(n, ast.Assign) and isinstance(n.value, ast.Call) and ast.unparse(n.value.func).endswith("__new__"):
                    outv = n.targets[0].id
            sets = {t.attr for n in walk_local_stmt(f.node) if isinstance(n, ast.Assign) for t in n.targets
                    if isinstance(t, ast.Attribute) and isinstance(t.value, ast.Name) and t.value.id == outv}
            ok = init_attrs <= sets
            # the class and the name travel in the reduce tuple
            tup = r0.ast.value.elts[1] if len(r0.ast.value.elts) > 1 else None
            if isinstance(tup, ast.Name):
                defs = [x.value for x in walk_local_stmt(red.node) if isinstance(x, ast.Assign) and any(
                    isinstance(t, ast.Name) and t.id == tup.id for t in x.targets)]
                if len(defs) == 1:
                    tup = defs[0]                # `args = (...)` ; `return (deserializeFunction, args)`
            args = [ast.unparse(x) for x in tup.elts] if isinstance(tup, ast.Tuple) else []
            # positional agreement: a deserializer parameter named like a function attribute (__code__, __defaults__, ...)
            # must receive that very attribute of self.expr
            if isinstance(tup, ast.Tuple):
                for pname, argx in zip(f.params, tup.elts):
                    if pname.startswith("__") and pname.endswith("__"):
                        # temporaries such as `code = expr.__code__` ; `payload = marshal.dumps(code)` stand for their one definition
                        attrs = set()
                        work, seen_names = [argx], set()
                        while work:
                            e = work.pop()
                            for a in ast.walk(e):
                                if isinstance(a, ast.Attribute):
                                    attrs.add(a.attr)
                                elif isinstance(a, ast.Name) and a.id not in seen_names:
                                    seen_names.add(a.id)
                                    defs = [x.value for x in walk_local_stmt(red.node) if isinstance(x, ast.Assign) and any(
                                        isinstance(t, ast.Name) and t.id == a.id for t in x.targets)]
                                    if len(defs) == 1:
                                        work.append(defs[0])
                        good = pname in attrs
                        r2.ob(good, f"__reduce__ ({kind}): parameter {pname} of {callee} <- {ast.unparse(argx)[:40]}")
                        if not good:
                            rep.finding("R11.2", red, argx, f"the reduce tuple passes `{ast.unparse(argx)}` for the parameter `{pname}` of "
                                        f"{callee}: the unpickled function is rebuilt with another attribute than the one it is named "
                                        f"after (e.g. lost default arguments)", stmt=f"reduce arg for {pname}")
                if len(tup.elts) != len(f.params):
                    r2.ob(False)
                    rep.finding("R11.2", red, tup, f"the reduce tuple has {len(tup.elts)} elements but {callee} takes {len(f.params)} parameters",
                                stmt=f"reduce arity {callee}")
            sn2 = red.params[0]
            ok = ok and f"{sn2}.__class__" in args and f"{sn2}.name" in args
            if not ok:
                rep.finding("R11.2", f, f.node, f"{callee} restores {sorted(sets)} but __init__ sets {sorted(init_attrs)} (and the reduce "
                            f"tuple must carry the class and the name): the unpickled function loses an attribute",
                            stmt=f"{callee} attributes")
        else:
            rep.finding("R11.2", red, r0.stmt, f"__reduce__ returns `{callee}`, which is not a module-level function of util.py "
                        f"(not picklable by reference)", stmt=f"reduce target {callee}")
        r2.ob(ok, f"__reduce__ ({kind}) -> {callee} restores {sorted(init_attrs)}")
    # ---------------- R11.2 (namespaces): a rebuilt function gets a namespace of its own; the module's globals() are never written
    nchecked = 0
    for fn in um.functions.values():
        aliases = set()
        for n in walk_local_stmt(fn.node):
            if isinstance(n, ast.Assign) and isinstance(n.value, ast.Call) and isinstance(n.value.func, ast.Name) and n.value.func.id == "globals" \
                    and not n.value.args:
                for t in n.targets:
                    if isinstance(t, ast.Name):
                        aliases.add(t.id)
        for n in walk_local_stmt(fn.node):
            hit = None
            if isinstance(n, ast.Call) and isinstance(n.func, ast.Attribute) and n.func.attr in ("update", "setdefault", "pop", "clear", "popitem", "__setitem__"):
                b = n.func.value
                if (isinstance(b, ast.Name) and b.id in aliases) or (isinstance(b, ast.Call) and isinstance(b.func, ast.Name) and b.func.id == "globals"):
                    hit = n
            if isinstance(n, (ast.Assign, ast.AugAssign, ast.Delete)):
                for t in (n.targets if not isinstance(n, ast.AugAssign) else [n.target]):
                    if isinstance(t, ast.Subscript):
                        b = t.value
                        if (isinstance(b, ast.Name) and b.id in aliases) or (isinstance(b, ast.Call) and isinstance(b.func, ast.Name) and b.func.id == "globals"):
                            hit = n
            if isinstance(n, ast.Call) and ast.unparse(n.func).endswith("FunctionType") and len(n.args) >= 2:
                nchecked += 1
                gexp = n.args[1]
                shared = (isinstance(gexp, ast.Name) and gexp.id in aliases) or (isinstance(gexp, ast.Call) and isinstance(gexp.func, ast.Name)
                                                                                 and gexp.func.id == "globals")
                r2.ob(not shared, f"{fn.name}: FunctionType namespace `{ast.unparse(gexp)[:40]}`")
                # precedence: what __reduce__ captured for the function (its own module-level names) overrides histogrammar.util's globals,
                # never the reverse - the user's `minplus` or `relativeTolerance` must not be replaced by util's
                def is_globals(e):
                    return (isinstance(e, ast.Call) and isinstance(e.func, ast.Name) and e.func.id == "globals") or (isinstance(e, ast.Name) and e.id in aliases)

                def layers_of(e):
                    if isinstance(e, ast.Call) and isinstance(e.func, ast.Name) and e.func.id == "dict":
                        out = [("G" if is_globals(a0) else "R") for a0 in e.args]
                        out += [("G" if is_globals(k.value) else "R") for k in e.keywords if k.arg is None]
                        return out
                    if isinstance(e, ast.Dict):
                        return [("G" if is_globals(v0) else "R") for k0, v0 in zip(e.keys, e.values) if k0 is None]
                    if isinstance(e, ast.Call) and isinstance(e.func, ast.Attribute) and e.func.attr == "copy":
                        return ["G" if is_globals(e.func.value) else "R"]
                    return None
                layers = None
                if isinstance(gexp, ast.Name):
                    defs = [x for x in walk_local_stmt(fn.node) if isinstance(x, ast.Assign) and any(isinstance(t, ast.Name) and t.id == gexp.id for t in x.targets)]
                    if len(defs) == 1:
                        layers = layers_of(defs[0].value)
                        if layers is not None:
                            ups = sorted((x for x in walk_local_stmt(fn.node) if isinstance(x, ast.Call) and isinstance(x.func, ast.Attribute) and x.func.attr == "update"
                                          and isinstance(x.func.value, ast.Name) and x.func.value.id == gexp.id and x.args), key=lambda x: x.lineno)
                            layers = layers + [("G" if is_globals(u.args[0]) else "R") for u in ups if u.lineno < n.lineno]
                else:
                    layers = layers_of(gexp)
                if layers and "G" in layers and "R" in layers:
                    okp = max(i for i, x in enumerate(layers) if x == "G") < min(i for i, x in enumerate(layers) if x == "R")
                    r2.ob(okp, f"{fn.name}: captured references override the module's globals (layers {layers})")
                    if not okp:
                        rep.finding("R11.2", fn, n, f"the namespace of the rebuilt function is assembled with the module's globals() LAST (layers {layers}): a name that the "
                                    f"pickled function captured from its own module and that histogrammar.util also defines (minplus, relativeTolerance, np ...) is "
                                    f"replaced by util's object, so the clone computes other values than the original on further fills",
                                    stmt="globals() override the captured references")
                if shared:
                    rep.finding("R11.2", fn, n, f"the rebuilt function runs in the module's own globals() (`{ast.unparse(gexp)}`) instead of a fresh copy "
                                f"with its captured references: every unpickled function shares one namespace, so the globals captured for "
                                f"one overwrite those of another and the clones compute different values after further fills",
                                stmt="FunctionType on shared globals()")
            if hit is not None:
                r2.ob(False)
                rep.finding("R11.2", fn, hit, f"`{norm(hit)[:70]}` writes into the module's globals(): the names captured for one unpickled function "
                            f"leak into every other function rebuilt in this process (and into histogrammar.util itself)",
                            stmt=f"globals() written: {norm(hit)[:50]}")
    if nchecked == 0:
        raise AnalysisError("R11.2: no types.FunctionType(...) call found in histogrammar.util (deserializeFunction expected)")
    # ---------------- R11.3
    bad, checked = unresolved_self_loads(repo, classes={"UserFcn", "CachedFcn", "FillMethod", "PlotMethod"})
    for _ in range(checked - len(bad)):
        r3.ob(True)
    seen = set()
    for f, n, where in bad:
        r3.ob(False, f"{f.qualname}: self.{n.attr}")
        if (f.qualname, n.attr) in seen:
            continue
        seen.add((f.qualname, n.attr))
        rep.finding("R11.3", f, n, f"`self.{n.attr}` cannot resolve in {where}: a pickled-then-called wrapper raises AttributeError",
                    stmt=f"self.{n.attr} unresolved")
    # ---------------- R11.4
    sel = repo.cls("Select")
    ga = sel.methods.get("__getattr__")
    if ga is None:
        r4.ob(True, "Select has no __getattr__")
        return
    rep.analysed_functions.add(ga.construct)
    sn, an = ga.params[0], ga.params[1]
    g = cfgmod.build(ga.node)
    # first decision: dunder names are answered from the class
    first_test = None
    for lab, s in g.entry.succ:
        n = g.nodes[s]
        while n.kind == "stmt" and isinstance(n.ast, ast.Expr):
            n = g.nodes[n.succ[0][1]]
        if n.kind == "test":
            first_test = n
    t = ast.unparse(first_test.ast).replace(" ", "") if first_test is not None else ""
    ok = f"{an}.startswith('__')" in t.replace('"', "'")
    r4.ob(ok, "dunder names handled before touching self.__dict__")
    if not ok:
        rep.finding("R11.4", ga, first_test.stmt if first_test is not None else ga.node,
                    "Select.__getattr__ does not answer dunder names first: pickle probes __reduce_ex__/__getstate__ on a half-built "
                    "object whose __dict__ has no 'cut' yet", stmt="dunder first")
    plain = [n for n in ast.walk(ga.node) if isinstance(n, ast.Attribute) and isinstance(n.value, ast.Name) and n.value.id == sn
             and n.attr != "__dict__"]
    r4.ob(not plain, "no plain attribute access on self inside __getattr__")
    for n in plain:
        rep.finding("R11.4", ga, n, f"`{ast.unparse(n)}` inside __getattr__ uses plain attribute syntax on self: a missing attribute "
                    f"re-enters __getattr__ (infinite recursion during unpickling)", stmt=f"plain access {ast.unparse(n)}")
