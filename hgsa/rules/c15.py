"""C15 - malformed or foreign JSON is rejected, never loaded as a corrupted aggregator.

Decides (DESIGN 3/C15): R15.1 no stale value per loop iteration, R15.2 no dropped element,
R15.3 closed key-set gates whose failure path raises + no implicit fall-through return,
R15.4 exception constructed but not raised, R15.5 every JSON value is type-validated before use
(type agreement between the validation and the use), R15.6 ed() re-validates ranges, header/version gate.
"""

import ast

from .. import cfg as cfgmod
from ..astutil import call_name, chain, walk_local_stmt
from ..dataflow import header_exprs, node_uses, per_iteration_must, plain_assign_defs
from ..loader import AnalysisError, norm, primitives

NANSTR = {"nan", "inf", "-inf"}


# ----------------------------------------------------------------------------- helpers
def reaches(cfg, start_ids, stop=()):
    seen = set()
    work = list(start_ids)
    while work:
        x = work.pop()
        if x in seen or x in stop:
            continue
        seen.add(x)
        for _, s in cfg.nodes[x].succ:
            work.append(s)
    return seen


def edge_always_raises(cfg, test_node, label):
    """All paths from the given edge end in raise-exit without returning or re-entering an enclosing loop."""
    starts = [s for lab, s in test_node.succ if lab == label]
    if not starts:
        return False, "no such edge"
    seen = reaches(cfg, starts)
    if cfg.ret.id in seen:
        return False, "a path reaches a normal return"
    for h in test_node.in_loops:
        if h in seen:
            return False, "a path continues with the next loop iteration"
    if cfg.rai.id not in seen:
        return False, "no raise reached"
    return True, ""


class JsonPaths:
    """JSON-derived value expressions in one fromJsonFragment-like function."""

    def __init__(self, func, json_param):
        self.func = func
        self.roots = {json_param: "doc"}
        self.strkeys = set()  # names bound to dict keys (always str in JSON)
        self.indices = set()
        changed = True
        while changed:
            changed = False
            for n in walk_local_stmt(func.node if hasattr(func, "node") else func):
                gens = []
                if isinstance(n, ast.For):
                    gens.append((n.target, n.iter))
                elif isinstance(n, (ast.ListComp, ast.SetComp, ast.DictComp, ast.GeneratorExp)):
                    for g in n.generators:
                        gens.append((g.target, g.iter))
                for target, it in gens:
                    kind, src = self.iter_source(it)
                    if src is None:
                        continue
                    names = [e.id for e in ast.walk(target) if isinstance(e, ast.Name)]
                    if kind == "enumerate" and isinstance(target, ast.Tuple) and len(target.elts) == 2:
                        if isinstance(target.elts[0], ast.Name):
                            self.indices.add(target.elts[0].id)
                        elems = [e.id for e in ast.walk(target.elts[1]) if isinstance(e, ast.Name)]
                    elif kind == "items" and isinstance(target, ast.Tuple) and len(target.elts) == 2:
                        if isinstance(target.elts[0], ast.Name):
                            self.strkeys.add(target.elts[0].id)
                        elems = [e.id for e in ast.walk(target.elts[1]) if isinstance(e, ast.Name)]
                    elif kind == "keys":
                        for nm in names:
                            self.strkeys.add(nm)
                        elems = []
                    else:
                        elems = names
                    for nm in elems:
                        if nm not in self.roots:
                            self.roots[nm] = "elem"
                            changed = True

    def iter_source(self, it):
        """(kind, path) if `it` iterates a JSON path: plain | enumerate | items | keys."""
        if isinstance(it, ast.Call):
            cn = call_name(it)
            if cn == "enumerate" and it.args:
                p = self.path(it.args[0])
                return ("enumerate", p) if p else (None, None)
            if isinstance(it.func, ast.Attribute) and it.func.attr in ("items", "values", "keys") and not it.args:
                p = self.path(it.func.value)
                if p:
                    return ({"items": "items", "values": "plain", "keys": "keys"}[it.func.attr], p)
            return (None, None)
        p = self.path(it)
        return ("plain", p) if p else (None, None)

    def path(self, e):
        """Canonical text of a JSON path expression, or None."""
        if isinstance(e, ast.Name) and e.id in self.roots:
            return e.id
        if isinstance(e, ast.Subscript) and isinstance(e.slice, ast.Constant):
            b = self.path(e.value)
            if b:
                return f"{b}[{e.slice.value!r}]"
        if (
            isinstance(e, ast.Call)
            and isinstance(e.func, ast.Attribute)
            and e.func.attr == "get"
            and e.args
            and isinstance(e.args[0], ast.Constant)
        ):
            b = self.path(e.func.value)
            if b:
                return f"{b}[{e.args[0].value!r}]"
        return None


def type_kinds(texpr):
    """Kinds accepted by the 2nd argument of isinstance."""
    if isinstance(texpr, ast.Tuple):
        out = set()
        for e in texpr.elts:
            k = type_kinds(e)
            if k is None:
                return None
            out |= k
        return out
    t = ast.unparse(texpr)
    table = {
        "numbers.Real": {"real"}, "numbers.Number": {"real"}, "float": {"real"}, "int": {"real"}, "long": {"real"},
        "basestring": {"str", "nanstr"}, "str": {"str", "nanstr"}, "list": {"list"}, "tuple": {"list"},
        "dict": {"dict"}, "bool": {"real"},
    }
    return table.get(t)


UNIVERSE = frozenset(["real", "nanstr", "str", "list", "dict", "none"])


def kinds_of(test, edge_true, target, jp):
    """Kinds (subset of UNIVERSE) the JSON value `target` may have when `test` evaluates to edge_true.

    UNIVERSE means unconstrained.  Sound over-approximation: conjunction = intersection, disjunction = union,
    atoms about other expressions or of unknown form = UNIVERSE on both edges.
    """
    if isinstance(test, ast.UnaryOp) and isinstance(test.op, ast.Not):
        return kinds_of(test.operand, not edge_true, target, jp)
    if isinstance(test, ast.BoolOp):
        parts = [kinds_of(v, edge_true, target, jp) for v in test.values]
        conj = isinstance(test.op, ast.And) == edge_true  # And on T / Or on F : all parts hold
        out = set(UNIVERSE) if conj else set()
        for p in parts:
            if conj:
                out &= p
            else:
                out |= p
        return frozenset(out)
    pos = None
    if isinstance(test, ast.Call) and call_name(test) == "isinstance" and len(test.args) == 2:
        if jp.path(test.args[0]) == target:
            pos = type_kinds(test.args[1])
    elif isinstance(test, ast.Compare) and len(test.ops) == 1:
        left, op, right = test.left, test.ops[0], test.comparators[0]
        if jp.path(left) == target:
            if isinstance(op, (ast.In, ast.NotIn)) and isinstance(right, (ast.Tuple, ast.List, ast.Set)):
                vals = [e.value for e in right.elts if isinstance(e, ast.Constant)]
                if len(vals) == len(right.elts) and all(isinstance(v, str) for v in vals) and set(vals) <= NANSTR \
                        and len(vals) > 0:
                    pos = {"nanstr"}
                    if isinstance(op, ast.NotIn):
                        edge_true = not edge_true
            elif isinstance(op, (ast.Is, ast.IsNot)) and isinstance(right, ast.Constant) and right.value is None:
                pos = {"none"}
                if isinstance(op, ast.IsNot):
                    edge_true = not edge_true
    if pos is None:
        return UNIVERSE
    pos = frozenset(pos)
    return pos if edge_true else UNIVERSE - pos


def hasKeys_info(call):
    """(object expr whose keys are tested, required list, optional list) of a hasKeys(...) call."""
    if len(call.args) < 2:
        return None
    first = call.args[0]
    if isinstance(first, ast.Call) and isinstance(first.func, ast.Attribute) and first.func.attr == "keys":
        obj = first.func.value
    else:
        obj = first

    def strs(e):
        if isinstance(e, (ast.List, ast.Tuple, ast.Set)) and all(
            isinstance(x, ast.Constant) and isinstance(x.value, str) for x in e.elts
        ):
            return [x.value for x in e.elts]
        return None

    req = strs(call.args[1])
    opt = strs(call.args[2]) if len(call.args) > 2 else []
    for kw in call.keywords:
        if kw.arg == "optional":
            opt = strs(kw.value)
    if req is None or opt is None:
        return None
    return obj, req, opt


def conjuncts(test):
    if isinstance(test, ast.BoolOp) and isinstance(test.op, ast.And):
        out = []
        for v in test.values:
            out += conjuncts(v)
        return out
    return [test]


# ----------------------------------------------------------------------------- the rules
def readers(repo):
    prims, _ = primitives(repo)
    out = []
    for c in prims:
        f = repo.own_method(c, "fromJsonFragment")
        out.append((c, f))
    return out


class _NoVenn(Exception):
    pass


_REGIONS = frozenset((t, r, o) for t in (0, 1) for r in (0, 1) for o in (0, 1))


def venn_predicate(fi):
    """Regions of the Venn diagram of the three parameters that the function's result forces to be empty (result True iff
    all of them are empty).  Sets are subsets of the 8 regions; conversions (set(x), frozenset(x), list(x), x.keys()) are
    the identity; predicates are conjunctions of subset tests in any spelling."""
    params = fi.params[:3]
    if len(params) != 3:
        raise _NoVenn("three parameters expected")
    base = {p: frozenset(reg for reg in _REGIONS if reg[i]) for i, p in enumerate(params)}

    def setof(e, env):
        if isinstance(e, ast.Name):
            if e.id in env:
                return env[e.id]
            raise _NoVenn(f"unknown name {e.id}")
        if isinstance(e, ast.Call):
            fn = e.func
            if isinstance(fn, ast.Name) and fn.id in ("set", "frozenset", "list", "tuple", "sorted") and len(e.args) == 1 and not e.keywords:
                return setof(e.args[0], env)
            if isinstance(fn, ast.Name) and fn.id in ("set", "frozenset") and not e.args:
                return frozenset()
            if isinstance(fn, ast.Attribute) and not e.keywords:
                recv = setof(fn.value, env)
                if fn.attr in ("keys", "copy") and not e.args:
                    return recv
                args = [setof(a, env) for a in e.args]
                if fn.attr == "union":
                    return recv.union(*args)
                if fn.attr == "intersection":
                    return recv.intersection(*args)
                if fn.attr == "difference":
                    return recv.difference(*args)
                if fn.attr == "symmetric_difference" and len(args) == 1:
                    return recv ^ args[0]
            raise _NoVenn(f"call {ast.unparse(e)[:40]}")
        if isinstance(e, ast.BinOp):
            l, r = setof(e.left, env), setof(e.right, env)
            if isinstance(e.op, ast.BitOr):
                return l | r
            if isinstance(e.op, ast.BitAnd):
                return l & r
            if isinstance(e.op, ast.Sub):
                return l - r
            if isinstance(e.op, ast.BitXor):
                return l ^ r
            raise _NoVenn(f"operator in {ast.unparse(e)[:40]}")
        if isinstance(e, ast.IfExp):
            a, b = setof(e.body, env), setof(e.orelse, env)
            if a == b:
                return a
            raise _NoVenn("conditional set value")
        if isinstance(e, (ast.Set, ast.List, ast.Tuple)) and not e.elts:
            return frozenset()
        raise _NoVenn(f"set expression {ast.unparse(e)[:40]}")

    def pred(e, env):
        """regions forced empty"""
        if isinstance(e, ast.BoolOp) and isinstance(e.op, ast.And):
            out = frozenset()
            for v in e.values:
                out |= pred(v, env)
            return out
        if isinstance(e, ast.Compare):
            out = frozenset()
            left = e.left
            for op, right in zip(e.ops, e.comparators):
                if isinstance(op, ast.Eq) and isinstance(right, ast.Constant) and right.value == 0 and isinstance(left, ast.Call) and \
                        isinstance(left.func, ast.Name) and left.func.id == "len" and len(left.args) == 1:
                    out |= setof(left.args[0], env)
                else:
                    l, r = setof(left, env), setof(right, env)
                    if isinstance(op, ast.LtE):
                        out |= l - r
                    elif isinstance(op, ast.GtE):
                        out |= r - l
                    elif isinstance(op, ast.Eq):
                        out |= l ^ r
                    else:
                        raise _NoVenn(f"comparison in {ast.unparse(e)[:40]}")
                left = right
            return out
        if isinstance(e, ast.UnaryOp) and isinstance(e.op, ast.Not):
            return setof(e.operand, env)                      # `not S`: S is empty
        if isinstance(e, ast.Call):
            fn = e.func
            if isinstance(fn, ast.Attribute) and len(e.args) == 1 and not e.keywords:
                if fn.attr == "issubset":
                    return setof(fn.value, env) - setof(e.args[0], env)
                if fn.attr == "issuperset":
                    return setof(e.args[0], env) - setof(fn.value, env)
                if fn.attr == "isdisjoint":
                    return setof(fn.value, env) & setof(e.args[0], env)
            if isinstance(fn, ast.Name) and fn.id == "all" and len(e.args) == 1 and isinstance(e.args[0], (ast.GeneratorExp, ast.ListComp)):
                c = e.args[0]
                if len(c.generators) == 1 and not c.generators[0].ifs and isinstance(c.generators[0].target, ast.Name) and \
                        isinstance(c.elt, ast.Compare) and len(c.elt.ops) == 1 and isinstance(c.elt.ops[0], ast.In) and \
                        isinstance(c.elt.left, ast.Name) and c.elt.left.id == c.generators[0].target.id:
                    return setof(c.generators[0].iter, env) - setof(c.elt.comparators[0], env)
            raise _NoVenn(f"call {ast.unparse(e)[:40]}")
        if isinstance(e, ast.Name) and e.id in env and isinstance(env[e.id], tuple):
            return env[e.id][1]
        raise _NoVenn(f"predicate {ast.unparse(e)[:40]}")

    def block(stmts, env):
        for st in stmts:
            if isinstance(st, ast.Expr) and isinstance(st.value, ast.Constant):
                continue
            if isinstance(st, ast.Assign) and len(st.targets) == 1 and isinstance(st.targets[0], ast.Name):
                try:
                    env[st.targets[0].id] = setof(st.value, env)
                except _NoVenn:
                    env[st.targets[0].id] = ("pred", pred(st.value, env))
                continue
            if isinstance(st, ast.AugAssign) and isinstance(st.target, ast.Name) and isinstance(st.op, (ast.BitOr, ast.BitAnd, ast.Sub, ast.BitXor)):
                # value of the name in this call (that an in-place update may also reach a default argument is the other rule's business)
                env[st.target.id] = setof(ast.BinOp(left=ast.Name(id=st.target.id, ctx=ast.Load()), op=st.op, right=st.value), env)
                continue
            if isinstance(st, ast.Expr) and isinstance(st.value, ast.Call) and isinstance(st.value.func, ast.Attribute) and \
                    isinstance(st.value.func.value, ast.Name) and st.value.func.attr in ("update", "intersection_update", "difference_update") and \
                    not st.value.keywords:
                nm = st.value.func.value.id
                cur = setof(st.value.func.value, env)
                args = [setof(a, env) for a in st.value.args]
                env[nm] = {"update": cur.union, "intersection_update": cur.intersection, "difference_update": cur.difference}[st.value.func.attr](*args)
                continue
            if isinstance(st, ast.If):
                # conversions under a type test (`if not isinstance(x, set): x = set(x)`): both branches must agree
                def _ret_false(blk):
                    return len(blk) == 1 and isinstance(blk[0], ast.Return) and isinstance(blk[0].value, ast.Constant) and blk[0].value.value is False
                if st.orelse and _ret_false(st.orelse) and any(isinstance(x, ast.Return) for x in ast.walk(st)):
                    # `if P: <... return Q>` / `else: return False`      ==      P and Q
                    return pred(st.test, env) | block(st.body, dict(env))
                if st.orelse and _ret_false(st.body) and isinstance(st.test, ast.UnaryOp) and isinstance(st.test.op, ast.Not):
                    return pred(st.test.operand, env) | block(st.orelse, dict(env))
                if any(isinstance(x, ast.Return) for x in ast.walk(st)):
                    # `if not P: return False` ; ...   /  `if P: return Q` `return False`
                    if len(st.body) == 1 and isinstance(st.body[0], ast.Return) and isinstance(st.body[0].value, ast.Constant) and \
                            st.body[0].value.value is False and not st.orelse and isinstance(st.test, ast.UnaryOp) and isinstance(st.test.op, ast.Not):
                        rest = block(stmts[stmts.index(st) + 1:], dict(env))
                        return pred(st.test.operand, env) | rest
                    if len(st.body) >= 1 and not st.orelse:
                        rest_stmts = stmts[stmts.index(st) + 1:]
                        if len(rest_stmts) == 1 and isinstance(rest_stmts[0], ast.Return) and isinstance(rest_stmts[0].value, ast.Constant) and \
                                rest_stmts[0].value.value is False:
                            return pred(st.test, env) | block(st.body, dict(env))
                    raise _NoVenn("conditional return")
                e1, e2 = dict(env), dict(env)
                block_noret(st.body, e1)
                block_noret(st.orelse, e2)
                if e1 != e2:
                    raise _NoVenn("branches bind different sets")
                env.clear()
                env.update(e1)
                continue
            if isinstance(st, ast.Return) and st.value is not None:
                return pred(st.value, env)
            raise _NoVenn(f"statement {type(st).__name__}")
        raise _NoVenn("no return")

    def block_noret(stmts, env):
        for st in stmts:
            if isinstance(st, ast.Assign) and len(st.targets) == 1 and isinstance(st.targets[0], ast.Name):
                env[st.targets[0].id] = setof(st.value, env)
            elif isinstance(st, ast.Pass):
                pass
            else:
                raise _NoVenn(f"statement {type(st).__name__} in a conversion branch")

    return set(block(list(fi.node.body), dict(base)))


def run(repo, rep, tier):
    rep.extra["explanation"] = (
        "Static path analysis of the 19 fromJsonFragment readers, the 19 ed() constructors and Factory.fromJson: "
        "per-iteration definite assignment (no stale value), element consumption on every non-raising loop path, "
        "closed hasKeys gates whose failure edge can only raise, no implicit fall-through return, no exception "
        "constructed without raise (whole package), every JSON value used only under a type validation that agrees "
        "with the use, ed() range re-validation and the header/version gate. Decides the structural clause "
        "'every failed validation ends in raise / nothing is dropped, duplicated or defaulted', not the behaviour of "
        "fromJson on concrete documents."
    )
    rep.extra["explanation"] += " " + (
        'Later additions: tag lookup level and hasKeys helper rules (R15.3); reader/ed agreement on the representation of `entries` (R15.6); shared rules of C04: (R15.7) every child fragment is parsed by the factory of its own tag, (R15.8) every object the writer emits is read behind a closed hasKeys gate.'
    )
    rep.not_decided += [
        "arithmetic meaning of version.compatible",
        "duplicate keys after normalisation ('1' vs '01')",
    ]
    rep.assumptions += [
        "an unbound local variable raises (UnboundLocalError) and therefore counts as rejecting the document",
        "Factory.registered[x] raises KeyError/TypeError for an unknown or non-string x",
        "child fromJsonFragment validates its own fragment (induction over the 19 readers)",
    ]
    rds = readers(repo)
    r1 = rep.rule("R15.1", "per-iteration definite assignment: no value from a previous iteration reaches a use", floor=19)
    r2 = rep.rule("R15.2", "every non-raising path through a builder loop consumes the element", floor=3)
    r3 = rep.rule("R15.3", "closed key-set gates whose failure edge only raises; no fall-through return", floor=24 + 19)
    r5 = rep.rule("R15.5", "JSON values are used only under a validation whose type agrees with the use", floor=60)
    # a child fragment must be parsed by the factory named by ITS OWN type tag: otherwise a document whose tag and payload disagree is accepted
    rep.borrow(repo, "C04", {"R4.1": ("R15.8", "every JSON object the writer emits is read behind a closed hasKeys gate, and every key that is read reaches the field it was written from (nothing silently dropped or defaulted)", 100)},
               keep=lambda f: "hasKeys gate" in f.message or "gate" in f.stmt or "stores it into no field" in f.message)
    rep.borrow(repo, "C04", {"R4.6": ("R15.9", "no document-derived dict is splatted into named parameters (a document toJson produced, whose keys happen to be parameter names, would be rejected)", 3)})
    rep.borrow(repo, "C04", {"R4.3": ("R15.7", "every child fragment is parsed by the factory looked up under its own type tag", 25)},
               keep=lambda f: "factory looked up" in f.message)
    r6 = rep.rule("R15.6", "ed() re-validates entries/ranges; header and version gate raise", floor=19 + 4)
    for c, f in rds:
        rep.analysed_functions.add(f.construct)
        g = cfgmod.build(f.node)
        params = f.params
        if not params:
            raise AnalysisError(f"{f.construct} has no parameters")
        jp = JsonPaths(f, params[0])
        rule_stale(rep, r1, f, g)
        rule_dropped(rep, r2, f, g, jp)
        rule_gates(rep, r3, f, g, jp, expect_gate=(c.name != "Count"))
        rule_validated(rep, r5, f, g, jp)
        rule_tag_lookup(rep, r3, f, jp)
    rule_ed(repo, rep, r6)
    rule_header(repo, rep, r3, r5, r6)
    rule_version_monotone(repo, rep, r6)
    rule_unraised(repo, rep)
    # the gate helper itself: hasKeys/maybeAdd must not modify a mutable default (a leaked `optional` set admits extra keys later)
    from .c06 import mutable_default_writes

    hits, checked = mutable_default_writes(repo)
    helper_hits = [h for h in hits if h[0].name in ("hasKeys", "maybeAdd")]
    um = repo.modules.get("histogrammar.util")
    if um is None or "hasKeys" not in um.functions:
        raise AnalysisError("histogrammar.util.hasKeys not found")
    r3.ob(not helper_hits, "hasKeys/maybeAdd never modify their mutable default arguments")
    for fi, p, n, what in helper_hits:
        rep.finding("R15.3", fi, n, f"{what} modifies the mutable default `{p}` of {fi.name}: key sets admitted by one gate leak into every "
                    f"later gate without optional keys, so documents with extra keys are accepted", stmt=f"mutable default {p} written")
    # hasKeys must decide the closed key set  required <= test <= required | optional.  Decided by set algebra over the 8 Venn
    # regions of (test, required, optional): the returned predicate is evaluated to the set of regions it forces to be empty.
    hk = um.functions["hasKeys"]
    try:
        forced = venn_predicate(hk)
    except _NoVenn as e:
        raise AnalysisError(f"hasKeys: the key-set test is written in a form the set-algebra evaluator does not follow ({e})")
    want = {(0, 1, 0), (0, 1, 1), (1, 0, 0)}
    closed = forced == want
    r3.ob(closed, f"hasKeys accepts exactly required <= test <= required|optional (regions forced empty: {sorted(forced)})")
    if not closed:
        miss = []
        if not {(0, 1, 0), (0, 1, 1)} <= forced:
            miss.append("a missing required key is accepted")
        if (1, 0, 0) not in forced:
            miss.append("a key that is neither required nor optional is accepted")
        if forced - want:
            miss.append(f"valid documents are rejected (regions {sorted(forced - want)} of (test, required, optional) must be empty)")
        rep.finding("R15.3", hk, hk.node, "hasKeys does not decide `required <= test <= required | optional`: " + "; ".join(miss),
                    stmt="hasKeys two-sided test")


def rule_stale(rep, r1, f, g):
    """R15.1"""
    loops = [n for n in g.nodes if n.kind in ("iter",) or (n.kind == "test" and isinstance(n.stmt, ast.While))]
    checked = 0
    for h in loops:
        body = [n for n in g.nodes if h.id in n.in_loops]
        defs_in_body = set()
        for n in body:
            defs_in_body |= plain_assign_defs(n)
        defs_in_body -= plain_assign_defs(h)
        if not defs_in_body:
            continue
        instate, _ = per_iteration_must(g, h, plain_assign_defs)
        for n in body:
            if n.id not in instate:
                continue
            # innermost loop only: nested loops are analysed with their own head
            for name, nm in node_uses(n):
                if name in defs_in_body:
                    checked += 1
                    ok = name in instate[n.id]
                    # a nested loop head re-defines its own targets
                    r1.ob(ok, f"{f.qualname}: use of {name} in `{norm(n.stmt)[:60]}`")
                    if not ok:
                        rep.finding(
                            "R15.1", f, n.stmt,
                            f"`{name}` is assigned inside this loop only on some paths; on a non-raising path through "
                            f"the iteration the use sees the previous element's value (or nothing): a malformed element "
                            f"is loaded with a duplicated value",
                            stmt=f"use of {name} in {norm(n.stmt)}",
                            path=f"loop `{norm(h.stmt)}` -> use at line {n.lineno}",
                        )
    if checked == 0:
        r1.ob(True, f"{f.qualname}: no loop-assigned variables")


def is_consumption(node, accs):
    a = node.ast
    if node.kind != "stmt":
        return False
    if isinstance(a, ast.Expr) and isinstance(a.value, ast.Call) and isinstance(a.value.func, ast.Attribute):
        if a.value.func.attr in ("append", "add", "extend", "update", "insert") and isinstance(a.value.func.value, ast.Name):
            return a.value.func.value.id in accs
    if isinstance(a, (ast.Assign, ast.AugAssign)):
        tg = a.targets if isinstance(a, ast.Assign) else [a.target]
        for t in tg:
            if isinstance(t, ast.Subscript) and isinstance(t.value, ast.Name) and t.value.id in accs:
                return True
    return False


def rule_dropped(rep, r2, f, g, jp):
    """R15.2"""
    for h in g.nodes:
        if h.kind != "iter":
            continue
        kind, src = jp.iter_source(h.ast)
        if src is None:
            continue
        body = [n for n in g.nodes if h.id in n.in_loops]
        # accumulators: names that are the receiver of append / subscript store in the body
        accs = set()
        for n in body:
            a = n.ast
            if n.kind == "stmt" and isinstance(a, ast.Expr) and isinstance(a.value, ast.Call) and isinstance(
                a.value.func, ast.Attribute
            ):
                if a.value.func.attr in ("append", "add", "extend", "update", "insert") and isinstance(
                    a.value.func.value, ast.Name
                ):
                    accs.add(a.value.func.value.id)
            if n.kind == "stmt" and isinstance(a, (ast.Assign, ast.AugAssign)):
                for t in (a.targets if isinstance(a, ast.Assign) else [a.target]):
                    if isinstance(t, ast.Subscript) and isinstance(t.value, ast.Name):
                        accs.add(t.value.id)
        if not accs:
            continue  # pure validation loop
        if h.in_loops:
            # nested builder loops are handled at their own level as well
            pass
        instate, exits = per_iteration_must(g, h, lambda n: {"consumed"} if is_consumption(n, accs) else set())
        ok_all = True
        for nid, lab, to, facts in exits:
            node = g.nodes[nid]
            if to == g.rai.id:
                continue
            if lab in ("exc",):
                continue
            if to == h.id:
                ok = "consumed" in facts
                why = "the iteration completes without storing the element"
            else:
                ok = False
                why = "the loop is left early (break/return): the remaining elements are dropped"
                if lab == "raise":
                    continue
            if not ok:
                ok_all = False
                rep.finding(
                    "R15.2", f, h.stmt,
                    f"builder loop over {src}: {why} (exit at line {node.lineno}, edge {lab})",
                    path=f"loop `{norm(h.stmt)}` -> line {node.lineno} [{lab}]",
                )
        r2.ob(ok_all, f"{f.qualname}: loop over {src} accumulating into {sorted(accs)}")
    # comprehension filters over JSON iterables drop elements
    for n in walk_local_stmt(f.node):
        if isinstance(n, (ast.ListComp, ast.SetComp, ast.DictComp, ast.GeneratorExp)):
            for gen in n.generators:
                kind, src = jp.iter_source(gen.iter)
                if src is None:
                    continue
                ok = not gen.ifs
                r2.ob(ok, f"{f.qualname}: comprehension over {src}")
                if not ok:
                    rep.finding("R15.2", f, n, f"comprehension over {src} filters elements: non-matching elements are dropped")


def rule_gates(rep, r3, f, g, jp, expect_gate=True):
    """R15.3"""
    ngates = 0
    for n in g.nodes:
        if n.kind != "test":
            continue
        for cj in conjuncts(n.ast):
            if isinstance(cj, ast.Call) and call_name(cj) in ("hasKeys", "histogrammar.util.hasKeys"):
                ngates += 1
                info = hasKeys_info(cj)
                if info is None:
                    raise AnalysisError(f"{f.construct}: hasKeys call with non-literal key sets at line {cj.lineno}")
                obj, req, opt = info
                objp = jp.path(obj)
                # isinstance(obj, dict) conjunct before it
                has_dict = any(
                    isinstance(c2, ast.Call) and call_name(c2) == "isinstance" and len(c2.args) == 2
                    and jp.path(c2.args[0]) == objp and type_kinds(c2.args[1]) == {"dict"}
                    for c2 in conjuncts(n.ast)
                )
                ok, why = edge_always_raises(g, n, "F")
                r3.ob(ok and has_dict and objp is not None, f"{f.qualname}: gate on {objp} required={req} optional={opt}")
                if objp is None:
                    rep.finding("R15.3", f, n.stmt, "hasKeys gate is not applied to a JSON value")
                if not has_dict:
                    rep.finding("R15.3", f, n.stmt, f"hasKeys gate on {objp} is not guarded by isinstance({objp}, dict)")
                if not ok:
                    rep.finding("R15.3", f, n.stmt, f"failure edge of the key-set gate on {objp} does not always raise: {why}",
                                path=f"{f.qualname}: gate at line {n.lineno} -F-> ...")
                # every required/optional key is read somewhere
                read = set()
                for e in walk_local_stmt(f.node):
                    p = jp.path(e) if isinstance(e, (ast.Subscript, ast.Call)) else None
                    if p and objp and p.startswith(objp + "[") and p.count("[") == objp.count("[") + 1:
                        read.add(p[len(objp) + 1:-1])
                for k in req + opt:
                    okk = repr(k) in read
                    r3.ob(okk, f"{f.qualname}: key {k!r} of {objp} is consumed")
                    if not okk:
                        rep.finding("R15.3", f, n.stmt, f"key {k!r} is accepted by the gate on {objp} but never read "
                                    f"(its value is silently ignored)", stmt=f"gate key {k!r} on {objp}")
                # ... and, for the gate on the fragment itself, on EVERY path that ends in a successful return (a path that skips
                # the read skips the validation of that value: anything is accepted there)
                if objp is not None and objp in f.params:
                    from ..cfg import solve_forward

                    def keys_read(node, _objp=objp):
                        out = set()
                        for e in header_exprs(node):
                            if e is None:
                                continue
                            for sub in ast.walk(e):
                                p = jp.path(sub) if isinstance(sub, (ast.Subscript, ast.Call)) else None
                                if p and p.startswith(_objp + "[") and p.count("[") == 1:
                                    out.add(p[len(_objp) + 1:-1])
                        return out

                    reads_at = {nd.id: keys_read(nd) for nd in g.nodes}
                    states = solve_forward(g, frozenset(), lambda node, st: frozenset(set(st) | reads_at[node.id]), lambda a, b: a & b)
                    for nd in g.nodes:
                        if nd.kind == "stmt" and isinstance(nd.ast, ast.Return) and nd.id in states:
                            have = set(states[nd.id]) | reads_at[nd.id]
                            skipped = [k for k in req + opt if repr(k) in read and repr(k) not in have]
                            r3.ob(not skipped, f"{f.qualname}: every gated key of {objp} is read on the paths returning at line {nd.lineno}")
                            if skipped:
                                rep.finding("R15.3", f, nd.stmt, f"a path to `{norm(nd.stmt)[:50]}` (line {nd.lineno}) never reads {skipped} of {objp}: on that path the "
                                            f"value under the key is not validated at all, so a document with any JSON value there (a list, an object, null) "
                                            f"is loaded instead of being rejected", stmt=f"path to a return skips the read of {skipped}")
                for k in read:
                    kk = ast.literal_eval(k)
                    okk = kk in req + opt
                    if not okk:
                        r3.ob(False)
                        rep.finding("R15.3", f, n.stmt, f"key {k} of {objp} is read but not admitted by the gate",
                                    stmt=f"read of ungated key {k} on {objp}")
    if expect_gate and ngates == 0:
        r3.ob(False)
        rep.finding("R15.3", f, f.node, "no hasKeys key-set gate in this reader: extra or missing keys are not rejected",
                    stmt="no gate")
    # no implicit fall-through return; every return returns a value
    ok = True
    for lab, p in g.ret.pred:
        pn = g.nodes[p]
        if not (pn.kind == "stmt" and isinstance(pn.ast, ast.Return) and pn.ast.value is not None
                and not (isinstance(pn.ast.value, ast.Constant) and pn.ast.value.value is None)):
            ok = False
            rep.finding("R15.3", f, pn.stmt if pn.stmt is not None else f.node,
                        "a path through the reader ends without `raise` and without returning a container "
                        "(falls through / returns None)", stmt=f"fall-through after {norm(pn.stmt) if pn.stmt is not None else 'entry'}")
    r3.ob(ok, f"{f.qualname}: no fall-through return")


EXEMPT_CALLS = ("JsonFormatException", "ContainerException")


def validation_facts(g, jp):
    """Forward dataflow: node id -> {json path: kinds} known at node entry (missing path = unconstrained).

    Tests refine the kinds per edge; joins take the union; rebinding a loop variable kills the facts about it.
    """
    from ..cfg import solve_forward

    def paths_in(test):
        out = set()
        for e in ast.walk(test):
            p = jp.path(e) if isinstance(e, (ast.Subscript, ast.Call, ast.Name)) else None
            if p:
                out.add(p)
        return out

    def refine(st, test, edge_true):
        d = dict(st)
        for p in paths_in(test):
            k = kinds_of(test, edge_true, p, jp)
            if k != UNIVERSE:
                d[p] = d.get(p, UNIVERSE) & k
        return tuple(sorted(d.items(), key=lambda kv: kv[0]))

    def transfer(node, st):
        if node.kind == "test":
            return {"T": refine(st, node.ast, True), "F": refine(st, node.ast, False), None: st}
        if node.kind == "iter":
            tg = {x.id for x in ast.walk(node.stmt.target) if isinstance(x, ast.Name)}
            kept = tuple((p, k) for p, k in st if p.split("[")[0] not in tg)
            return {"iter": kept, None: st}
        return st

    def join(a, b):
        da, db = dict(a), dict(b)
        out = {}
        for p in set(da) & set(db):
            u = da[p] | db[p]
            if u != UNIVERSE:
                out[p] = u
        return tuple(sorted(out.items(), key=lambda kv: kv[0]))

    res = solve_forward(g, (), transfer, join)
    return {k: dict(v) for k, v in res.items()}


def rule_validated(rep, r5, f, g, jp):
    """R15.5"""
    facts = validation_facts(g, jp)
    pm = {}
    for n in ast.walk(f.node):
        for ch in ast.iter_child_nodes(n):
            pm[ch] = n

    def local_guard_kinds(e, target, stop):
        """Validation inside the same expression: short-circuit `isinstance(x, dict) and hasKeys(x.keys(), ...)`,
        conditional expressions."""
        ks = UNIVERSE
        cur = e
        while cur in pm and cur is not stop:
            par = pm[cur]
            if isinstance(par, ast.BoolOp):
                idx = par.values.index(cur) if cur in par.values else -1
                for prev in par.values[:max(idx, 0)]:
                    ks = ks & kinds_of(prev, isinstance(par.op, ast.And), target, jp)
            elif isinstance(par, ast.IfExp) and cur is not par.test:
                ks = ks & kinds_of(par.test, cur is par.body, target, jp)
            cur = par
        return ks

    for n in g.nodes:
        if n.id not in facts:
            continue  # unreachable
        for e in header_exprs(n):
            if e is None:
                continue
            in_raise = n.kind == "stmt" and isinstance(n.ast, ast.Raise)
            for sub in ast.walk(e):
                p = jp.path(sub)
                if p is None or not isinstance(sub, (ast.Subscript, ast.Call, ast.Name)):
                    continue
                if isinstance(sub, ast.Name) and (not isinstance(sub.ctx, ast.Load) or jp.roots.get(sub.id) != "elem"):
                    continue
                par = pm.get(sub)
                # part of a longer path (json["x"]["y"] or x.get): the outer path is the value
                if isinstance(par, ast.Subscript) and par.value is sub and jp.path(par):
                    continue
                if isinstance(par, ast.Attribute) and par.value is sub and par.attr in ("get", "keys", "items", "values"):
                    if par.attr == "get":
                        continue
                    need, what = {"dict"}, f".{par.attr}()"
                elif in_raise or _inside_call(sub, pm, EXEMPT_CALLS, e):
                    continue  # error message
                elif _is_validation_position(sub, pm, e):
                    continue  # the validation itself: isinstance(x, T), x in (...), x is None
                else:
                    need, what = _sink(sub, pm, jp)
                    if need == "exempt":
                        continue
                ks = facts[n.id].get(p, UNIVERSE) & local_guard_kinds(sub, p, e)
                if ks == UNIVERSE:
                    ok, why = False, "no type validation controls this use"
                elif need is None:
                    ok, why = True, ""
                else:
                    ok = ks <= need and len(ks) > 0
                    why = f"validated as {sorted(ks)} but used as {sorted(need)}"
                r5.ob(ok, f"{f.qualname}: {p} used by {what} under validation {sorted(ks) if ks != UNIVERSE else None}")
                if not ok:
                    rep.finding("R15.5", f, n.stmt, f"JSON value {p} is used ({what}) but {why}: a value of the wrong JSON "
                                f"type can be loaded instead of being rejected", stmt=f"{p} -> {what} in {norm(n.stmt)}")


def _inside_call(sub, pm, names, stop):
    cur = sub
    while cur in pm and cur is not stop:
        cur = pm[cur]
        if isinstance(cur, ast.Call) and (call_name(cur) or "").split(".")[-1] in names:
            return True
    return False


def _is_validation_position(sub, pm, stop):
    par = pm.get(sub)
    if isinstance(par, ast.Call) and call_name(par) == "isinstance" and par.args and par.args[0] is sub:
        return True
    if isinstance(par, ast.Compare) and len(par.ops) == 1 and isinstance(par.ops[0], (ast.In, ast.NotIn, ast.Is, ast.IsNot)):
        if par.left is sub:
            return True
    return False


def _sink(sub, pm, jp):
    """(required kinds | None for 'any validated' | 'exempt', description)"""
    par = pm.get(sub)
    if isinstance(par, ast.Call) and sub in par.args:
        cn = call_name(par) or ""
        last = cn.split(".")[-1]
        if isinstance(par.func, ast.Attribute):
            last = par.func.attr
        if last == "fromJsonFragment":
            return "exempt", "child reader"
        if last in ("float", "floatOrNan"):
            return {"real", "nanstr"}, f"{last}()"
        if last == "int":
            return "exempt", "int() inside try"
        if last == "enumerate":
            return {"list"}, "iteration"
        if last == "map":
            return {"list"}, "map()"
        if last in ("len", "str", "repr"):
            return None, last
        return None, f"argument of {cn or 'call'}"
    if isinstance(par, ast.Subscript) and par.slice is sub:
        base = ast.unparse(par.value)
        if base.endswith("registered"):
            return "exempt", "registry lookup"
        return None, "index"
    if isinstance(par, (ast.For, ast.comprehension)) and par.iter is sub:
        return {"list", "dict"}, "iteration"
    if isinstance(par, ast.Attribute):
        return None, f".{par.attr}"
    if isinstance(par, ast.Compare):
        return None, "comparison"
    return None, "binding"


def rule_tag_lookup(rep, r3, f, jp):
    """R15.7: a type tag is resolved in the registry on every non-raising path - the lookup is not nested inside an
    iteration over ANOTHER JSON value (which may be empty, leaving the tag unvalidated)."""
    pm = {}
    for n in ast.walk(f.node):
        for ch in ast.iter_child_nodes(n):
            pm[ch] = n
    for n in walk_local_stmt(f.node):
        if isinstance(n, ast.Subscript) and ast.unparse(n.value).endswith("registered"):
            # which JSON path (or local bound to it) is the tag?
            tag = n.slice
            tagpath = jp.path(tag)
            if tagpath is None and isinstance(tag, ast.Name):
                for a in walk_local_stmt(f.node):
                    if isinstance(a, ast.Assign) and any(isinstance(t, ast.Name) and t.id == tag.id for t in a.targets):
                        tagpath = jp.path(a.value) or tagpath
            if tagpath is None:
                continue
            root = tagpath.split("[")[0]
            bad = None
            cur = n
            while cur in pm:
                cur = pm[cur]
                its = []
                if isinstance(cur, ast.For):
                    its = [(cur.target, cur.iter)]
                elif isinstance(cur, (ast.ListComp, ast.DictComp, ast.SetComp, ast.GeneratorExp)):
                    its = [(g.target, g.iter) for g in cur.generators]
                for tgt, it in its:
                    if any(x is n for x in ast.walk(it)):
                        continue
                    names = {x.id for x in ast.walk(tgt) if isinstance(x, ast.Name)}
                    if root not in names:
                        kind, src = jp.iter_source(it)
                        if src is not None:
                            bad = (cur, src)
            r3.ob(bad is None, f"{f.qualname}: registry lookup of {tagpath} is unconditional")
            if bad is not None:
                rep.finding("R15.3", f, n, f"the type tag {tagpath} is only looked up in the registry inside the iteration over {bad[1]}: when "
                            f"that collection is empty an unknown primitive name is accepted (and re-serialised)",
                            stmt=f"tag {tagpath} resolved per element of {bad[1]}")


def rule_ed(repo, rep, r6):
    prims, _ = primitives(repo)
    for c in prims:
        f = repo.own_method(c, "ed")
        rep.analysed_functions.add(f.construct)
        g = cfgmod.build(f.node)
        found = False
        neg_tests = []
        for n in g.nodes:
            if n.kind != "test":
                continue
            t = n.ast
            if isinstance(t, ast.Compare) and len(t.ops) == 1:
                l, op, r = t.left, t.ops[0], t.comparators[0]
                lt = ast.unparse(l)
                rt = ast.unparse(r)
                neg = (isinstance(op, ast.Lt) and lt in ("entries", "float(entries)") and rt in ("0.0", "0")) or (
                    isinstance(op, ast.Gt) and rt in ("entries", "float(entries)") and lt in ("0.0", "0")
                )
                if neg:
                    ok, why = edge_always_raises(g, n, "T")
                    if ok:
                        found = True
                        neg_tests.append(n)
        if found:
            # ... on EVERY path to a normal return (an early return in front of the check lets "-inf" through)
            dom = g.dominators()
            for rn in g.nodes:
                if rn.kind == "stmt" and isinstance(rn.ast, ast.Return) and rn.id in dom:
                    okp = any(t.id in dom[rn.id] for t in neg_tests)
                    r6.ob(okp, f"{f.qualname}: return at line {rn.lineno} behind the negative-entries check")
                    if not okp:
                        rep.finding("R15.6", f, rn.ast, f"`{norm(rn.ast)[:50]}` (line {rn.lineno}) returns a container without having passed the `entries < 0` check: on that path "
                                    f"a negative value (the string '-inf', for one) is accepted as entries", stmt="return around the negative-entries check")
        r6.ob(found, f"{f.qualname}: negative entries rejected")
        if not found:
            rep.finding("R15.6", f, f.node, "ed() does not reject negative entries with a raise", stmt="entries < 0 check")
        # reader <-> ed agreement on the representation of `entries`: where the reader hands the raw JSON value on (it may be one of
        # the strings 'nan'/'inf'/'-inf' that the reader itself admits), ed() must convert before it compares
        rd = repo.own_method(c, "fromJsonFragment")
        raw_entries = False
        for call in [x for x in walk_local_stmt(rd.node) if isinstance(x, ast.Call) and ast.unparse(x.func).endswith(".ed") and x.args]:
            a0 = call.args[0]
            if isinstance(a0, ast.Name):
                def defs_of(nm, depth=0):
                    out = []
                    for x in walk_local_stmt(rd.node):
                        if isinstance(x, ast.Assign) and any(isinstance(t, ast.Name) and t.id == nm for t in x.targets):
                            if isinstance(x.value, ast.Name) and depth < 4:
                                out += defs_of(x.value.id, depth + 1)       # a plain alias of another local
                            else:
                                out.append(x.value)
                    return out
                defs = defs_of(a0.id)
                if any(not (isinstance(d, ast.Call) and isinstance(d.func, ast.Name) and d.func.id in ("float", "floatOrNan")) for d in defs):
                    raw_entries = True
            elif not (isinstance(a0, ast.Call) and isinstance(a0.func, ast.Name) and a0.func.id == "float"):
                raw_entries = True
        if raw_entries and f.params:
            ep = f.params[0]
            bare = [x for x in walk_local_stmt(f.node) if isinstance(x, ast.Compare) and len(x.ops) == 1 and isinstance(
                x.ops[0], (ast.Lt, ast.LtE, ast.Gt, ast.GtE)) and any(isinstance(o, ast.Name) and o.id == ep for o in [x.left, x.comparators[0]])]
            r6.ob(not bare, f"{f.qualname}: `{ep}` arrives unconverted from the reader and is compared through float()")
            for x in bare:
                rep.finding("R15.6", f, x, f"{c.name}.fromJsonFragment passes the JSON value of `{ep}` on unconverted (it may be one of the strings "
                            f"'nan'/'inf'/'-inf' that both the reader and ed() admit), but ed() evaluates `{ast.unparse(x)}` on it: a document that "
                            f"toJson itself produces for non-finite entries is rejected with TypeError", stmt=f"ed compares raw {ep}: {ast.unparse(x)}")
        # class-specific range re-validation, derived from __init__: every `if <cmp on params>: raise ValueError` of
        # __init__ on a parameter that ed() also takes must be present in ed() as well
        init = repo.own_method(c, "__init__")
        gi = cfgmod.build(init.node)
        edparams = set(f.params)
        for n in gi.nodes:
            if n.kind != "test" or not isinstance(n.ast, ast.Compare):
                continue
            names = {x.id for x in ast.walk(n.ast) if isinstance(x, ast.Name)}
            if not names or not names <= edparams:
                continue
            if any(isinstance(x, ast.Call) for x in ast.walk(n.ast)):
                continue
            ok, _ = edge_always_raises(gi, n, "T")
            if not ok:
                continue
            want = ast.unparse(n.ast)
            have = False
            for m in g.nodes:
                if m.kind == "test" and ast.unparse(m.ast) == want and edge_always_raises(g, m, "T")[0]:
                    have = True
            r6.ob(have, f"{f.qualname}: range check `{want}` of __init__ repeated")
            if not have:
                rep.finding("R15.6", f, f.node, f"__init__ rejects `{want}` but ed() (the JSON path) does not",
                            stmt=f"range check {want}")


def rule_version_monotone(repo, rep, r6):
    """version.compatible(document version): whatever the arithmetic, a newer document must never be MORE acceptable than an older
    one - every ordering comparison has a component of the library's own version on the greater side and a component of the
    document's version on the smaller side."""
    vm = repo.modules.get("histogrammar.version")
    if vm is None or "compatible" not in vm.functions:
        raise AnalysisError("histogrammar.version.compatible not found")
    f = vm.functions["compatible"]
    rep.analysed_functions.add(f.construct)
    param = f.params[0]
    origin = {}
    for st in walk_local_stmt(f.node):
        if isinstance(st, ast.Assign) and len(st.targets) == 1:
            src = {x.id for x in ast.walk(st.value) if isinstance(x, ast.Name)}
            who = "document" if param in src else ("library" if "version" in src or any(origin.get(x) == "library" for x in src) else None)
            if any(origin.get(x) == "document" for x in src):
                who = "document"
            if who:
                for t in ast.walk(st.targets[0]):
                    if isinstance(t, ast.Name):
                        origin[t.id] = who
    origin[param] = "document"

    def side(e):
        whos = {origin.get(x.id) for x in ast.walk(e) if isinstance(x, ast.Name)} - {None}
        return whos.pop() if len(whos) == 1 else None
    n_cmp = 0
    for n in walk_local_stmt(f.node):
        if isinstance(n, ast.Compare) and len(n.ops) == 1 and isinstance(n.ops[0], (ast.Gt, ast.GtE, ast.Lt, ast.LtE)):
            l, r = side(n.left), side(n.comparators[0])
            if {l, r} != {"library", "document"}:
                continue
            n_cmp += 1
            greater = l if isinstance(n.ops[0], (ast.Gt, ast.GtE)) else r
            ok = greater == "library"
            r6.ob(ok, f"version.compatible: `{ast.unparse(n)}` has the library's version on the greater side")
            if not ok:
                rep.finding("R15.6", f, n, f"`{ast.unparse(n)}` accepts a document when ITS version component is the greater one: documents written by a "
                            f"newer specification than this library understands are loaded instead of being refused (and the check is no longer "
                            f"monotone in the document's version)", stmt=f"version comparison reversed: {ast.unparse(n)}")
    if n_cmp == 0:
        raise AnalysisError("version.compatible: no comparison between the library's and the document's version found")


def rule_header(repo, rep, r3, r5, r6):
    fac = repo.cls("Factory", "histogrammar.defs")
    f = repo.own_method(fac, "fromJson")
    rep.analysed_functions.add(f.construct)
    g = cfgmod.build(f.node)
    jp = JsonPaths(f, f.params[0])
    # closed header key set
    gate = None
    for n in g.nodes:
        if n.kind != "test":
            continue
        cjs = conjuncts(n.ast)
        if any(isinstance(c, ast.Call) and call_name(c) == "isinstance" and len(c.args) == 2
               and jp.path(c.args[0]) == f.params[0] and type_kinds(c.args[1]) == {"dict"} for c in cjs):
            gate = n
            break
    if gate is None:
        raise AnalysisError("Factory.fromJson: header gate `isinstance(json, dict) and ...` not found")
    closed = False
    keys = set()
    for c in conjuncts(gate.ast):
        if isinstance(c, ast.Call) and call_name(c) in ("hasKeys", "histogrammar.util.hasKeys"):
            info = hasKeys_info(c)
            if info and jp.path(info[0]) == f.params[0]:
                closed = True
                keys = set(info[1]) | set(info[2])
        elif isinstance(c, ast.Compare) and len(c.ops) == 1 and isinstance(c.ops[0], ast.Eq):
            txt = ast.unparse(c)
            if "set(" in txt and f.params[0] in txt:
                closed = True
                for e in ast.walk(c):
                    if isinstance(e, ast.Constant) and isinstance(e.value, str):
                        keys.add(e.value)
        elif isinstance(c, ast.Compare) and len(c.ops) == 1 and isinstance(c.ops[0], ast.In) and isinstance(c.left, ast.Constant):
            keys.add(c.left.value)
    okF, why = edge_always_raises(g, gate, "F")
    r3.ob(closed, "Factory.fromJson: header key set is closed")
    if not closed:
        rep.finding("R15.3", f, gate.stmt, f"header gate tests membership of {sorted(keys)} only: a document with an extra "
                    f"top-level key is accepted (open key set)", stmt="header key set is open")
    r3.ob(okF, "Factory.fromJson: header gate failure raises")
    if not okF:
        rep.finding("R15.3", f, gate.stmt, f"failure edge of the header gate does not always raise: {why}")
    # writer side agreement: Container.toJson emits exactly these keys
    cont = repo.cls("Container", "histogrammar.defs")
    tj = repo.own_method(cont, "toJson")
    wkeys = None
    for n in ast.walk(tj.node):
        if isinstance(n, ast.Return) and isinstance(n.value, ast.Dict):
            wkeys = {k.value for k in n.value.keys if isinstance(k, ast.Constant)}
    if wkeys is None:
        raise AnalysisError("Container.toJson: returned dict literal not found")
    ok = wkeys == keys
    r3.ob(ok, f"header keys written {sorted(wkeys)} == demanded {sorted(keys)}")
    if not ok:
        rep.finding("R15.3", f, gate.stmt, f"toJson writes header keys {sorted(wkeys)} but fromJson demands {sorted(keys)}",
                    stmt="header writer/reader keys")
    # validated reads in the header
    rule_validated(rep, r5, f, g, jp)
    # version gate: a call to version.compatible in a test whose failing edge raises
    vg = False
    for n in g.nodes:
        if n.kind == "test":
            for cl in ast.walk(n.ast):
                if isinstance(cl, ast.Call) and (call_name(cl) or "").endswith("version.compatible"):
                    neg = isinstance(n.ast, ast.UnaryOp) and isinstance(n.ast.op, ast.Not)
                    ok, _ = edge_always_raises(g, n, "T" if neg else "F")
                    vg = vg or ok
    r6.ob(vg, "Factory.fromJson: incompatible version raises")
    if not vg:
        rep.finding("R15.6", f, f.node, "no version gate: `version.compatible(json['version'])` whose failure raises",
                    stmt="version gate")
    # unknown primitive name raises
    ug = False
    for n in g.nodes:
        if n.kind == "test" and isinstance(n.ast, ast.Compare) and len(n.ast.ops) == 1:
            if isinstance(n.ast.ops[0], ast.NotIn) and ast.unparse(n.ast.comparators[0]).endswith("registered"):
                ug = ug or edge_always_raises(g, n, "T")[0]
            if isinstance(n.ast.ops[0], ast.In) and ast.unparse(n.ast.comparators[0]).endswith("registered"):
                ug = ug or edge_always_raises(g, n, "F")[0]
    r6.ob(ug, "Factory.fromJson: unknown primitive name raises")
    if not ug:
        rep.finding("R15.6", f, f.node, "unknown container name is not rejected by a raising membership test on "
                    "Factory.registered", stmt="unknown-type gate")
    # no fall-through
    ok = all(g.nodes[p].kind == "stmt" and isinstance(g.nodes[p].ast, ast.Return) and g.nodes[p].ast.value is not None
             for _, p in g.ret.pred)
    r3.ob(ok, "Factory.fromJson: no fall-through return")
    if not ok:
        rep.finding("R15.3", f, f.node, "a path through Factory.fromJson ends without raise or a returned container",
                    stmt="fall-through")
    # version.compatible itself: returns a comparison involving the argument (not a constant)
    vm = repo.modules.get("histogrammar.version")
    if vm is None or "compatible" not in vm.functions:
        raise AnalysisError("histogrammar.version.compatible not found")
    cf = vm.functions["compatible"]
    okc = False
    for n in ast.walk(cf.node):
        if isinstance(n, ast.Return) and n.value is not None:
            names = {x.id for x in ast.walk(n.value) if isinstance(x, ast.Name)}
            if cf.params and (cf.params[0] in names or _derived_from(cf, cf.params[0]) & names):
                okc = any(isinstance(x, ast.Compare) for x in ast.walk(n.value))
    r6.ob(okc, "version.compatible compares (something derived from) its argument")
    if not okc:
        rep.finding("R15.6", cf, cf.node, "version.compatible does not return a comparison on its argument "
                    "(every version would be accepted or rejected alike)", stmt="compatible returns a comparison")


def _derived_from(f, name):
    """Names assigned (transitively) from expressions mentioning `name` inside f."""
    der = {name}
    changed = True
    while changed:
        changed = False
        for n in ast.walk(f.node):
            if isinstance(n, ast.Assign):
                if {x.id for x in ast.walk(n.value) if isinstance(x, ast.Name)} & der:
                    for t in n.targets:
                        for x in ast.walk(t):
                            if isinstance(x, ast.Name) and x.id not in der:
                                der.add(x.id)
                                changed = True
    return der


def rule_unraised(repo, rep):
    """R15.4 (whole package): an exception object built in statement position and never raised."""
    r4 = rep.rule("R15.4", "no exception is constructed in statement position without `raise`", floor=30)
    exc_names = {c.name for c in repo.exception_classes()}
    import builtins

    builtin_exc = {n for n in dir(builtins) if isinstance(getattr(builtins, n), type) and issubclass(getattr(builtins, n), BaseException)}
    # positive control: the rule must recognise the pattern on an embedded snippet on every run
    probe = ast.parse("def f(x):\n    if x:\n        ValueError('boom')\n    return x\n")
    hits = [n for n in ast.walk(probe) if isinstance(n, ast.Expr) and isinstance(n.value, ast.Call)
            and (call_name(n.value) or "").split(".")[-1] in builtin_exc]
    if len(hits) != 1:
        raise AnalysisError("R15.4 self-probe failed")
    for m in repo.modules.values():
        nraise = 0
        for n in ast.walk(m.tree):
            if isinstance(n, ast.Raise):
                nraise += 1
                r4.ob(True)
            if isinstance(n, ast.Expr) and isinstance(n.value, ast.Call):
                cn = (call_name(n.value) or "").split(".")[-1]
                is_exc = cn in builtin_exc
                if cn in exc_names:
                    r = repo.resolve_name(m, call_name(n.value))
                    is_exc = is_exc or (r is not None and getattr(r, "name", None) in exc_names)
                if is_exc:
                    r4.ob(False, f"{m.relpath}:{n.lineno} {norm(n)[:60]}")
                    func = _enclosing_func(repo, m, n)
                    rep.finding("R15.4", func if func else f"{m.relpath}::<module>", n,
                                f"`{cn}(...)` is constructed but not raised: the failed validation falls through")


def _enclosing_func(repo, m, node):
    best = None
    for f in repo.all_functions():
        if f.module is m and f.node.lineno <= node.lineno <= (f.node.end_lineno or f.node.lineno):
            if best is None or f.node.lineno >= best.node.lineno:
                best = f
    return best
