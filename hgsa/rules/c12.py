"""C12 - a fill that raises leaves the aggregator as if the record had been skipped.

Typestate on the CFG of every fill() (and the helpers it calls on self): Clean -> Dirty on the first store to the
node's own state.  In Dirty no fallible operation may follow.  User values (results of self.quantity / self.transform)
must be type-validated before they are used in Dirty state.
"""

import ast

from .. import cfg as cfgmod
from ..astutil import call_name, chain, walk_local_stmt
from ..cfg import solve_forward
from ..dataflow import header_exprs
from ..loader import AnalysisError, FuncInfo, norm, primitives

USER_FCNS = ("quantity", "transform")
# calls that cannot raise on a validated numbers.Real / validated hashable key
INFALLIBLE_CALLS = {"math.isnan", "math.isinf", "math.isfinite", "isinstance", "float", "np.isnan", "numpy.isnan", "len", "tuple",
                    "self._checkForCrossReferences"}
SINGLE_PATH = ("Bin", "SparselyBin", "CentrallyBin", "IrregularlyBin", "Categorize", "Select")
MUTATOR_METHODS = {"append", "extend", "insert", "pop", "remove", "clear", "update", "setdefault", "add", "discard",
                   "popitem", "sort", "reverse"}


# types whose instances support everything fill does with a validated value: ordering comparisons, float arithmetic,
# math.isnan/isinf (numbers.Real and narrower), or hashing / use as a dict key (strings).  `numbers.Number` and
# `numbers.Complex` are NOT in the list: a complex value passes them and `q > self.max` raises after the state changed.
SAFE_TYPES = {"numbers.Real", "numbers.Rational", "numbers.Integral", "float", "int", "bool", "basestring", "str", "unicode", "bytes",
              "numpy.ndarray", "np.ndarray"}


def safe_type(t):
    if isinstance(t, ast.Tuple):
        return all(safe_type(x) for x in t.elts)
    return ast.unparse(t) in SAFE_TYPES


def own_store_targets(stmt, selfname="self"):
    """Targets of stores into the node's own state performed by this simple statement."""
    out = []
    tg = []
    if isinstance(stmt, ast.Assign):
        tg = list(stmt.targets)
    elif isinstance(stmt, (ast.AugAssign, ast.AnnAssign)):
        tg = [stmt.target]
    elif isinstance(stmt, ast.Delete):
        tg = list(stmt.targets)
    flat = []
    for t in tg:
        if isinstance(t, (ast.Tuple, ast.List)):
            flat += list(t.elts)
        else:
            flat.append(t)
    for t in flat:
        base = t
        depth = 0
        while isinstance(base, (ast.Attribute, ast.Subscript)):
            if isinstance(base, ast.Attribute) and isinstance(base.value, ast.Name) and base.value.id == selfname:
                # `_checkedForCrossReferences` and other underscore flags are bookkeeping, not aggregated state
                if not base.attr.startswith("_"):
                    out.append((base.attr, t))
                break
            base = base.value
            depth += 1
    return out


def is_child_fill(call):
    return isinstance(call.func, ast.Attribute) and call.func.attr in ("fill", "_numpy", "fillnumpy") and not (
        isinstance(call.func.value, ast.Name) and call.func.value.id in ("np", "numpy")
    )


def is_user_call(call, selfname="self"):
    c = chain(call.func)
    return bool(c and len(c) == 2 and c[0] == selfname and c[1] in USER_FCNS)


class Summary:
    def __init__(self):
        self.dirties = False
        self.fallible = False
        self.why = ""


def helper_summary(repo, cls, name, _stack=()):
    """Does self.<name>(...) store into own state / can it raise?  (syntactic over-approximation, depth-bounded)"""
    s = Summary()
    f = repo.method(cls, name, required=False)
    if f is None or len(_stack) > 3 or name in _stack:
        s.fallible = True
        s.why = f"unresolved helper {name}"
        return s
    selfname = f.params[0] if f.params and not f.is_static else None
    for n in walk_local_stmt(f.node):
        if isinstance(n, ast.Raise):
            s.fallible = True
            s.why = f"`raise` at line {n.lineno} of {f.qualname}"
        if isinstance(n, ast.Assert):
            s.fallible = True
            s.why = f"assert in {f.qualname}"
        if isinstance(n, ast.stmt) and selfname and own_store_targets(n, selfname):
            s.dirties = True
        if isinstance(n, ast.Call):
            cn = call_name(n) or ""
            if cn in INFALLIBLE_CALLS or cn.split(".")[-1] in ("floor",) and cn.startswith("math."):
                if cn == "float" and not (n.args and isinstance(n.args[0], ast.Constant)):
                    pass
                continue
            if cn in ("int", "range", "xrange", "min", "max", "abs", "sorted", "list", "set", "dict", "zip", "enumerate"):
                continue
            c = chain(n.func)
            if c and selfname and c[0] == selfname and len(c) == 2:
                sub = helper_summary(repo, cls, c[1], _stack + (name,))
                if sub.fallible:
                    s.fallible = True
                    s.why = sub.why
                s.dirties = s.dirties or sub.dirties
                continue
            s.fallible = True
            s.why = f"call `{cn or ast.unparse(n.func)}` in {f.qualname}"
    return s


def analyse(repo, rep, rule, cls, f, validated_params=()):
    """Run the typestate over one function; returns Summary of that function as a helper."""
    g = cfgmod.build(f.node)
    selfname = f.params[0]
    rep.analysed_functions.add(f.construct)

    # user values: variables assigned from self.quantity(...)/self.transform(...), and copies/derivations of them
    user_vars = set()
    changed = True
    while changed:
        changed = False
        for n in walk_local_stmt(f.node):
            if isinstance(n, (ast.Assign, ast.AugAssign)):
                val = n.value
                src = any(isinstance(c, ast.Call) and is_user_call(c, selfname) for c in ast.walk(val)) or any(
                    isinstance(x, ast.Name) and x.id in user_vars for x in ast.walk(val)
                )
                if src:
                    for t in (n.targets if isinstance(n, ast.Assign) else [n.target]):
                        if isinstance(t, ast.Name) and t.id not in user_vars:
                            user_vars.add(t.id)
                            changed = True
    # parameters of helpers that receive user values are user values unless the caller validated them
    for p in f.params[1:]:
        if p in ("q", "x", "w") and p not in validated_params and f.name != "fill":
            user_vars.add(p)

    def validations(test, edge_true):
        """user vars validated (isinstance-checked) when `test` takes this edge"""
        out = set()
        if isinstance(test, ast.UnaryOp) and isinstance(test.op, ast.Not):
            return validations(test.operand, not edge_true)
        if isinstance(test, ast.BoolOp):
            conj = isinstance(test.op, ast.And) == edge_true
            parts = [validations(v, edge_true) for v in test.values]
            if conj:
                for p in parts:
                    out |= p
                return out
            out = set(parts[0])
            for p in parts[1:]:
                out &= p
            return out
        if isinstance(test, ast.Call) and call_name(test) == "isinstance" and len(test.args) == 2 and edge_true:
            if isinstance(test.args[0], ast.Name) and safe_type(test.args[1]):
                out.add(test.args[0].id)
        return out

    findings = []

    def fallible_ops(node, dirty, valid, report):
        """Fallible operations evaluated at this CFG node (before its own store takes effect)."""
        if not dirty:
            return
        if node.kind == "stmt" and isinstance(node.ast, ast.Raise):
            report(node, "explicit `raise`")
            return
        if node.kind == "stmt" and isinstance(node.ast, ast.Assert):
            report(node, "assert")
        for e in header_exprs(node):
            if e is None:
                continue
            for sub in ast.walk(e):
                if isinstance(sub, ast.Call):
                    cn = call_name(sub) or ""
                    if is_user_call(sub, selfname):
                        report(node, f"user function `{cn}` is called")
                    elif is_child_fill(sub):
                        report(node, f"child `{ast.unparse(sub.func)}` is called")
                    elif cn in INFALLIBLE_CALLS:
                        if cn == "float" and not (sub.args and isinstance(sub.args[0], ast.Constant)) and any(
                            isinstance(x, ast.Name) and x.id in user_vars - valid for x in ast.walk(sub)
                        ):
                            report(node, "float() of an unvalidated user value")
                    else:
                        c = chain(sub.func)
                        if c and c[0] == selfname and len(c) == 2:
                            hs = helper_summary(repo, cls, c[1])
                            if hs.fallible:
                                report(node, f"helper `{cn}` can raise ({hs.why})")
                        elif c and c[0] == selfname and len(c) == 3 and c[2] in MUTATOR_METHODS | {"get", "keys", "items", "values", "copy"}:
                            pass  # own container method
                        else:
                            report(node, f"call `{cn or ast.unparse(sub.func)}` is not known to be infallible")
                elif isinstance(sub, (ast.BinOp, ast.Compare, ast.UnaryOp)) or (
                    isinstance(sub, ast.AugAssign)
                ):
                    names = {x.id for x in ast.iter_child_nodes(sub) if isinstance(x, ast.Name)}
                    if isinstance(sub, ast.AugAssign):
                        names = {x.id for x in ast.walk(sub.value) if isinstance(x, ast.Name)}
                    bad = names & (user_vars - valid)
                    if bad:
                        report(node, f"operation on unvalidated user value `{sorted(bad)[0]}` (wrong return type raises here)")
                elif isinstance(sub, ast.Subscript) and isinstance(sub.ctx, ast.Load):
                    c = chain(sub.value)
                    if c and c[0] == selfname and not isinstance(sub.slice, ast.Constant):
                        # membership-tested key on an own dict is the accepted idiom
                        key = ast.unparse(sub.slice)
                        cont = ast.unparse(sub.value)
                        if (cont, key) not in member_facts.get(node.id, set()):
                            report(node, f"indexing `{cont}[{key}]` by a computed key can raise")

    # membership facts: (container text, key text) known present
    def mem_transfer(node, st):
        if node.kind == "test":
            t = node.ast
            pos = set()
            neg = set()
            if isinstance(t, ast.Compare) and len(t.ops) == 1 and isinstance(t.ops[0], (ast.In, ast.NotIn)):
                pair = (ast.unparse(t.comparators[0]), ast.unparse(t.left))
                (pos if isinstance(t.ops[0], ast.In) else neg).add(pair)
            return {"T": frozenset(st | pos), "F": frozenset(st | neg), None: st}
        if node.kind == "stmt" and isinstance(node.ast, ast.Assign):
            add = set()
            for t in node.ast.targets:
                if isinstance(t, ast.Subscript):
                    add.add((ast.unparse(t.value), ast.unparse(t.slice)))
            return frozenset(st | add)
        return st

    member_facts = solve_forward(g, frozenset(), mem_transfer, lambda a, b: a & b)

    # typestate: (dirty, frozenset(validated))
    def transfer(node, st):
        dirty, valid = st
        if node.kind == "test":
            return {
                "T": (dirty, valid | frozenset(validations(node.ast, True))),
                "F": (dirty, valid | frozenset(validations(node.ast, False))),
                None: st,
            }
        if node.kind == "stmt":
            a = node.ast
            d2 = dirty
            if own_store_targets(a, selfname):
                d2 = True
            for sub in ast.walk(a):
                if isinstance(sub, ast.Call):
                    c = chain(sub.func)
                    if c and c[0] == selfname and len(c) == 2 and c[1] not in USER_FCNS:
                        hs = helper_summary(repo, cls, c[1])
                        if hs.dirties:
                            d2 = True
                    if c and c[0] == selfname and len(c) == 3 and c[2] in MUTATOR_METHODS:
                        d2 = True
                    if call_name(sub) == "setattr" and sub.args and isinstance(sub.args[0], ast.Name) and sub.args[0].id == selfname:
                        d2 = True
            # re-assignment of a user var from a validating helper keeps it a user value; plain assignment copies status
            v2 = valid
            if isinstance(a, ast.Assign):
                for t in a.targets:
                    if isinstance(t, ast.Name) and t.id in user_vars:
                        srcs = {x.id for x in ast.walk(a.value) if isinstance(x, ast.Name)} & user_vars
                        is_user = any(isinstance(c2, ast.Call) and is_user_call(c2, selfname) for c2 in ast.walk(a.value))
                        if is_user:
                            v2 = v2 - {t.id}
                        elif isinstance(a.value, ast.Call) and (call_name(a.value) or "").split(".")[-1] in (
                            "floatOrNan", "float", "tuple", "str"):
                            v2 = v2 | {t.id}  # conversion either raises (in Clean) or yields a value of the right type
                        elif srcs - valid:
                            v2 = v2 - {t.id}
                        elif isinstance(a.value, ast.Constant) or (srcs and srcs <= valid):
                            v2 = v2 | {t.id}
            return (d2, v2)
        return st

    def join(a, b):
        return (a[0] or b[0], a[1] & b[1])

    init = (False, frozenset(validated_params))
    states = solve_forward(g, init, transfer, join)
    reported = set()
    unvalidated = []
    first_store_line = None
    for n in g.nodes:
        if n.id not in states:
            continue
        dirty, valid = states[n.id]

        def report(node, what, _dirty=dirty):
            key = (node.lineno, what)
            if key in reported:
                return
            reported.add(key)
            findings.append((node, what))

        fallible_ops(n, dirty, valid, report)
        if n.kind == "stmt" and isinstance(n.ast, (ast.Assign, ast.AugAssign)) and own_store_targets(n.ast, selfname):
            # a value returned by the user's function enters the node's state only after its type was validated (or converted)
            val = n.ast.value
            leak = sorted({x.id for x in ast.walk(val) if isinstance(x, ast.Name)} & (user_vars - valid))
            direct = [t for t in (n.ast.targets if isinstance(n.ast, ast.Assign) else [n.ast.target]) if isinstance(t, ast.Attribute)]
            if leak and direct and not any(isinstance(c0, ast.Call) and (call_name(c0) or "").split(".")[-1] in ("float", "floatOrNan", "int", "str", "bool") and any(
                    isinstance(x, ast.Name) and x.id in leak for x in ast.walk(c0)) for c0 in ast.walk(val)):
                unvalidated.append((n, leak[0]))
        if n.kind == "stmt" and own_store_targets(n.ast, selfname):
            if first_store_line is None or n.lineno < first_store_line:
                first_store_line = n.lineno
    # where did the state become dirty: find the earliest own-state store for the message
    for node, what in findings:
        rep.finding(
            rule.rule, f, node.stmt,
            f"after the node's own state has been modified (first own-state store at line {first_store_line}), {what}: "
            f"if it raises, fill leaves a half-updated aggregator (counter incremented or new bin inserted)",
            path=f"{f.qualname}: entry -> own-state store (line {first_store_line}) -> line {node.lineno}",
        )
    for node, nm in unvalidated:
        rep.finding(rule.rule, f, node.stmt, f"`{norm(node.stmt)[:70]}` stores the user function's return value `{nm}` into the node's own state on a path where its type "
                    f"has not been validated (no isinstance test against a number/string type holds here): a wrong-typed value is accepted silently - fill does "
                    f"not raise, entries grows, and the aggregator now holds a non-number", stmt=f"unvalidated user value stored: {norm(node.stmt)[:50]}")
    rule.ob(not findings and not unvalidated, f"{f.qualname}: {len(g.nodes)} CFG nodes, first own-state store at line {first_store_line}")
    # a handler around a child fill / user call that does not end in `raise` swallows the failure of the record
    for t in walk_local_stmt(f.node):
        if isinstance(t, ast.Try):
            inner = [c0 for b in t.body for c0 in ast.walk(b) if isinstance(c0, ast.Call) and (is_user_call(c0, selfname) or (
                isinstance(c0.func, ast.Attribute) and c0.func.attr == "fill"))]
            swallowing = [h for h in t.handlers if not (h.body and isinstance(h.body[-1], ast.Raise))]
            ok = not (inner and swallowing)
            rule.ob(ok, f"{f.qualname}: try at line {t.lineno}: failures of the record are not swallowed")
            if not ok:
                h = swallowing[0]
                rep.finding(rule.rule, f, h, f"the handler `except {ast.unparse(h.type) if h.type is not None else ''}` around `{ast.unparse(inner[0])[:50]}` does not re-raise: "
                            f"an exception of that type raised by the user's quantity anywhere below is swallowed, the record is booked (entries grows on the whole "
                            f"path to the root) and fill returns normally instead of raising", stmt=f"handler swallows failures of {ast.unparse(inner[0])[:40]}")
    return states, g, first_store_line


def validators_raise(repo, rep, r4, prims):
    """`try: q = helper(q) ... except: raise TypeError(...)` in fill/_update validates the user value only if `helper` raises for a
    value of the wrong type.  For every module-level helper used this way: the conversion of its parameter (float()/int()) must
    not sit inside a try whose handler swallows the error (returns/passes instead of raising)."""
    seen = set()
    for c in prims:
        for fname in ("fill", "_update"):
            f = repo.method(c, fname, required=False)
            if not isinstance(f, FuncInfo) or f.cls is not c:
                continue
            for t in walk_local_stmt(f.node):
                if not isinstance(t, ast.Try):
                    continue
                reraises = any(any(isinstance(x, ast.Raise) for x in ast.walk(h)) for h in t.handlers)
                if not reraises:
                    continue
                for n in ast.walk(ast.Module(body=t.body, type_ignores=[])):
                    if isinstance(n, ast.Call) and isinstance(n.func, ast.Name):
                        try:
                            h = repo.resolve_name(f.module, n.func.id)
                        except Exception:
                            h = None
                        if isinstance(h, FuncInfo) and h.cls is None and h.construct not in seen:
                            seen.add(h.construct)
                            rep.analysed_functions.add(h.construct)
                            swallowed = None
                            for tr in walk_local_stmt(h.node):
                                if isinstance(tr, ast.Try):
                                    conv = [x for x in ast.walk(ast.Module(body=tr.body, type_ignores=[])) if isinstance(x, ast.Call)
                                            and isinstance(x.func, ast.Name) and x.func.id in ("float", "int") and any(
                                                isinstance(a, ast.Name) and a.id in h.params for a in x.args)]
                                    swallowing = [hd for hd in tr.handlers if not any(isinstance(x, ast.Raise) for x in ast.walk(hd))]
                                    if conv and swallowing:
                                        swallowed = (conv[0], swallowing[0])
                            r4.ob(swallowed is None, f"{h.name} (used as a validator by {f.qualname})")
                            if swallowed is not None:
                                rep.finding("R12.4", h, swallowed[1], f"{f.qualname} relies on `{h.name}` raising to reject a value of the wrong type (its `except` "
                                            f"turns the error into the TypeError that rolls the fill back), but {h.name} catches the conversion error "
                                            f"of `{ast.unparse(swallowed[0])}` itself and returns normally: a wrong-typed value is stored and counted, "
                                            f"the node and all its ancestors change although the record is invalid",
                                            stmt=f"{h.name} swallows the conversion error")


def run(repo, rep, tier):
    rep.extra["explanation"] = (
        "Typestate analysis (Clean -> Dirty on the first store into the node's own state) over the CFG of all 19 fill() "
        "methods and the self-helpers they call: in Dirty no fallible operation (user function, child fill, helper that "
        "can raise, explicit raise, operation on a not-yet-validated user value, computed index) may follow. Plus: "
        "single-path containers fill at most one child per path (the induction step for ancestors), and the "
        "repository's own marker comment 'no possibility of exception from here on out' never follows an own-state "
        "store. Decides the ordering clause of the property for every path, not the run-time exception behaviour."
    )
    rep.extra["explanation"] += " " + (
        'Later additions: an isinstance guard validates a user value only for numbers.Real or narrower / string types; (R12.4) conversion helpers used as validators let the conversion error escape.'
    )
    rep.not_decided += ["exceptions from numpy inside _numpy (outside the property)", "asynchronous exceptions"]
    rep.assumptions += [
        "math.isnan/isinf, float('nan'), arithmetic and comparisons on a validated numbers.Real do not raise",
        "membership test and store on the node's own dict with a validated hashable key do not raise",
        "user quantity/transform functions are the only foreign code called from fill",
    ]
    prims, _ = primitives(repo)
    r1 = rep.rule("R12.1", "no fallible operation after the first own-state store in fill (typestate on the CFG)", floor=19)
    r2 = rep.rule("R12.2", "single-path containers fill at most one child on every path", floor=6)
    r3 = rep.rule("R12.3", "(informational) position of the repository's rollback marker comment relative to the first own-state store")   # no floor: comments are not behaviour
    r4 = rep.rule("R12.4", "conversion helpers that fill relies on to reject a wrong-typed value let the conversion error escape", floor=1)
    # a record that lacks a field must make the string quantity raise (and so be skipped): the evaluation namespace is built per call
    rep.borrow(repo, "C17", {"R17.4": ("R12.5", "a string quantity is evaluated in a namespace built for this record alone: a record missing a field raises instead of being aggregated with the previous record's value", 2)},
               keep=lambda f: "namespace" in (f.stmt or ""))
    # a failed evaluation must not be remembered as if it had succeeded: the memo of a cached quantity is committed after the call
    rep.borrow(repo, "C17", {"R17.2": ("R12.6", "a cached quantity that raises leaves no memo behind: the same bad record raises again instead of being aggregated with the previous result", 5)},
               keep=lambda f: "stored before" in f.message or "before the underlying" in f.message)
    validators_raise(repo, rep, r4, prims)
    for c in prims:
        f = repo.own_method(c, "fill")
        states, g, first_store = analyse(repo, rep, r1, c, f)
        # helpers on self called from fill that store into own state are analysed as functions of their own
        for n in walk_local_stmt(f.node):
            if isinstance(n, ast.Call):
                ch = chain(n.func)
                if ch and ch[0] == f.params[0] and len(ch) == 2 and ch[1] not in USER_FCNS:
                    h = repo.method(c, ch[1], required=False)
                    if isinstance(h, FuncInfo) and h.cls is c and helper_summary(repo, c, ch[1]).dirties:
                        analyse(repo, rep, r1, c, h)
        # R12.2 (decided with the routing evaluator: all regions of the datum, every path)
        if c.name in SINGLE_PATH:
            from ..interp import Unsup
            from ..routing import configs, run_fill

            worst = 0
            where = None
            for size in (1, 2, 3):
                for cfg in configs(repo, c.name, size):
                    for label, q in cfg.regions:
                        try:
                            paths = run_fill(repo, cfg, label, q, "pos")
                        except Unsup as e:
                            raise AnalysisError(f"{f.construct}: {e}")
                        for p in paths:
                            k = sum(1 for e in p.effects if e[0] == "fill")
                            if k > worst:
                                worst, where = k, (cfg.desc, label)
            r2.ob(worst <= 1, f"{f.qualname}: at most {worst} child fill(s) on any path, over all regions of the datum")
            if worst > 1:
                rep.finding("R12.2", f, f.node, f"a datum in region `{where[1]}` ({where[0]}) fills {worst} children on one path: a failure in "
                            f"a later child leaves the earlier one modified, so the subtree is not rolled back",
                            stmt="more than one child fill on a path")
        # R12.3 marker comment
        lines = [ln for ln in f.module.comment_lines("no possibility of exception from here on out")
                 if f.node.lineno <= ln <= f.node.end_lineno]
        for ln in lines:
            # informational only: where the repository's own marker sits relative to the first own-state store.  (It used to be a
            # finding; a behaviour-preserving edit that registers a freshly filled bin before the comment made it fire, and the
            # ordering clause itself is R12.1's business, so a misplaced comment is no longer reported.)
            r3.ob(True, f"{f.qualname}: marker at line {ln}, first own-state store at line {first_store}")
    # Bag's state update lives in a helper (inlined into fill by the loader, or analysed as a function of its own): either way the
    # stores into Bag's own state must have been seen
    bag = [c for c in prims if c.name == "Bag"][0]
    bf = repo.own_method(bag, "fill")
    seen_store = any(own_store_targets(n, bf.params[0]) for n in walk_local_stmt(bf.node) if isinstance(n, ast.stmt))
    if not seen_store and not any(k.endswith("Bag._update") for k in rep.analysed_functions):
        raise AnalysisError("the state update of Bag.fill (Bag._update) was not reached")
