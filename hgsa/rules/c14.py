"""C14 - DataFrame filling (narrow structural part)."""

import ast

from ..astutil import call_name, walk_local_stmt
from ..loader import AnalysisError, ClassInfo, FuncInfo, norm

DF = "histogrammar.dfinterface"


def working_frame_readonly(repo, rep, base, pdh):
    """R14.9: `idf = self.process_features(df, ...)` is the frame the bin specifications are derived from AND the frame that is
    filled.  Everything between (auto_complete_bin_specs, get_quantiles, get_nunique, fill_histograms, _fill_histogram ...) only reads
    it: a helper that 'cleans' its argument in place changes what is filled (and only when that helper runs, i.e. not for chunks
    filled with the returned specs)."""
    r9 = rep.rule("R14.9", "the working frame returned by process_features is never stored into by the functions it is handed to", floor=4)
    ex = repo.lookup(pdh, "_execute")
    if not isinstance(ex, FuncInfo):
        raise AnalysisError("HistogramFillerBase._execute not found")
    start = set()
    for n in walk_local_stmt(ex.node):
        if isinstance(n, ast.Assign) and isinstance(n.value, ast.Call) and isinstance(n.value.func, ast.Attribute) and n.value.func.attr == "process_features":
            start |= {t.id for t in n.targets if isinstance(t, ast.Name)}
    if not start:
        raise AnalysisError("_execute: no `x = self.process_features(...)` found")
    visited = set()
    work = [(ex, start)]
    while work:
        f, tainted = work.pop()
        key = (f.construct, tuple(sorted(tainted)))
        if key in visited:
            continue
        visited.add(key)
        rep.analysed_functions.add(f.construct)
        tainted = set(tainted)
        changed = True
        while changed:
            changed = False
            for n in walk_local_stmt(f.node):
                if isinstance(n, ast.Assign) and len(n.targets) == 1 and isinstance(n.targets[0], ast.Name) and isinstance(n.value, ast.Name) \
                        and n.value.id in tainted and n.targets[0].id not in tainted:
                    tainted.add(n.targets[0].id)
                    changed = True
        bad = []
        for n in walk_local_stmt(f.node):
            tg = n.targets if isinstance(n, (ast.Assign, ast.Delete)) else ([n.target] if isinstance(n, ast.AugAssign) else [])
            for t in tg:
                b = t
                while isinstance(b, (ast.Subscript, ast.Attribute)):
                    b = b.value
                if isinstance(t, (ast.Subscript, ast.Attribute)) and isinstance(b, ast.Name) and b.id in tainted:
                    bad.append((n, f"the store into `{ast.unparse(t)[:50]}`"))
            if isinstance(n, ast.Call) and isinstance(n.func, ast.Attribute):
                b = n.func.value
                while isinstance(b, (ast.Subscript, ast.Attribute)):
                    b = b.value
                if isinstance(b, ast.Name) and b.id in tainted and any(
                        kw.arg == "inplace" and isinstance(kw.value, ast.Constant) and kw.value.value is True for kw in n.keywords):
                    bad.append((n, f"`{ast.unparse(n.func)[:50]}(..., inplace=True)`"))
        r9.ob(not bad, f"{f.qualname}: working frame {sorted(tainted)} only read")
        for n, what in bad:
            rep.finding("R14.9", f, n, f"{what} modifies the working frame (`{sorted(tainted)}`) that is filled afterwards: rows are changed between deriving the "
                        f"bin specifications and filling - and only when this function runs, so chunks filled with the returned specifications see other "
                        f"values than the whole frame did (content differs from direct filling; chunks do not add up)",
                        path=f"_execute -> ... -> {f.qualname}", stmt=f"working frame modified in {f.qualname}")
        for n in walk_local_stmt(f.node):
            if not isinstance(n, ast.Call):
                continue
            idxs = [i for i, a in enumerate(n.args) if isinstance(a, ast.Name) and a.id in tainted]
            kws = [kw.arg for kw in n.keywords if kw.arg and isinstance(kw.value, ast.Name) and kw.value.id in tainted]
            if not idxs and not kws:
                continue
            tgt = None
            if isinstance(n.func, ast.Attribute) and isinstance(n.func.value, ast.Name):
                tgt = repo.lookup(pdh, n.func.attr)
            elif isinstance(n.func, ast.Name):
                r = repo.resolve_name(f.module, n.func.id)
                tgt = r if isinstance(r, FuncInfo) else None
            if isinstance(tgt, FuncInfo) and tgt.module.name.startswith(DF) and "spark" not in tgt.module.name and tgt.name != "process_features":
                off = 0 if (tgt.cls is None or tgt.is_static) else 1
                names = {tgt.params[off + i] for i in idxs if off + i < len(tgt.params)} | set(kws)
                if names:
                    work.append((tgt, names))


def empty_means_all(repo, rep, pdh):
    """R14.10: a helper that replaces an empty column selection by ALL columns (`if not columns: columns = df.columns`) returns more
    keys than were asked for when the caller's list is empty.  A caller therefore consumes the result only through the list it
    passed (subscripting with its elements / iterating that list), never by iterating the result itself."""
    r10 = rep.rule("R14.10", "results of empty-means-all column helpers are consumed through the caller's own column list", floor=1)
    helpers = {}
    for f in pdh.methods.values():
        if len(f.params) < 2:
            continue
        for n in walk_local_stmt(f.node):
            if isinstance(n, ast.If) and isinstance(n.test, ast.UnaryOp) and isinstance(n.test.op, ast.Not) and isinstance(n.test.operand, ast.Name) \
                    and n.test.operand.id in f.params:
                p = n.test.operand.id
                if any(isinstance(b, ast.Assign) and any(isinstance(t, ast.Name) and t.id == p for t in b.targets) and "columns" in ast.unparse(b.value) for b in n.body):
                    helpers[f.name] = (f, f.params.index(p) - 1)
    for f in [x for x in repo.all_functions() if x.module.name.startswith(DF) and "spark" not in x.module.name]:
        for n in walk_local_stmt(f.node):
            if not (isinstance(n, ast.Assign) and len(n.targets) == 1 and isinstance(n.targets[0], ast.Name) and isinstance(n.value, ast.Call)
                    and isinstance(n.value.func, ast.Attribute) and n.value.func.attr in helpers):
                continue
            h, idx = helpers[n.value.func.attr]
            cl = n.value
            arg = cl.args[idx] if idx < len(cl.args) else next((kw.value for kw in cl.keywords if kw.arg == h.params[idx + 1]), None)
            res = n.targets[0].id
            rep.analysed_functions.add(f.construct)
            if arg is None:
                continue        # all columns asked for explicitly
            bad = None
            for lp in walk_local_stmt(f.node):
                its = []
                if isinstance(lp, ast.For):
                    its = [(lp.iter, lp.body)]
                elif isinstance(lp, (ast.ListComp, ast.SetComp, ast.DictComp, ast.GeneratorExp)):
                    its = [(g0.iter, None) for g0 in lp.generators]
                for it, body in its:
                    core = it
                    if isinstance(core, ast.Call) and isinstance(core.func, ast.Attribute) and core.func.attr in ("items", "keys", "values") and not core.args:
                        core = core.func.value
                    if isinstance(core, ast.Call) and isinstance(core.func, ast.Name) and core.func.id in ("list", "sorted", "iter", "enumerate", "dict") and core.args:
                        core = core.args[0]
                        if isinstance(core, ast.Call) and isinstance(core.func, ast.Attribute) and core.func.attr in ("items", "keys", "values"):
                            core = core.func.value
                    if isinstance(core, ast.Name) and core.id == res:
                        # accepted when the loop itself restricts to the caller's list
                        txt = ast.unparse(arg)
                        guarded = body is not None and any(isinstance(b, ast.If) and txt in ast.unparse(b.test) for b in body[:1])
                        if not guarded:
                            bad = lp
            r10.ob(bad is None, f"{f.qualname}: `{norm(n)[:60]}` consumed through `{ast.unparse(arg)[:30]}`")
            if bad is not None:
                rep.finding("R14.10", f, bad, f"`{res}` = {h.qualname}(..., {ast.unparse(arg)[:30]}) is iterated itself (`{norm(bad)[:60]}`): {h.name} answers an EMPTY "
                            f"selection with ALL columns, so with no column of that kind in the frame the loop runs over every column - requested features "
                            f"are then dropped / treated by the wrong rule", stmt=f"result of {h.name} iterated instead of the requested columns")


def alias_agreement(repo, rep):
    """R14.11: a bin specification may spell a key in two ways (`binWidth`/`bin_width`, `origin`/`bin_offset`); the spellings are
    introduced by the nested read `d.get("A", d.get("B", default))`.  Every function of the dataframe interface that reads one
    spelling of such a pair reads the other as well (sibling agreement between the quantity helpers and get_hist_bin)."""
    r11 = rep.rule("R14.11", "both spellings of an aliased bin-spec key are read wherever one of them is", floor=4)
    fns = [x for x in repo.all_functions() if x.module.name.startswith(DF) and "spark" not in x.module.name]
    groups = set()
    reads = {}
    for f in fns:
        rd = set()
        for n in ast.walk(f.node):
            key = None
            if isinstance(n, ast.Call) and isinstance(n.func, ast.Attribute) and n.func.attr == "get" and n.args and isinstance(n.args[0], ast.Constant) and isinstance(n.args[0].value, str):
                key = n.args[0].value
                if len(n.args) == 2 and isinstance(n.args[1], ast.Call) and isinstance(n.args[1].func, ast.Attribute) and n.args[1].func.attr == "get" and n.args[1].args \
                        and isinstance(n.args[1].args[0], ast.Constant) and isinstance(n.args[1].args[0].value, str) and ast.unparse(n.func.value) == ast.unparse(n.args[1].func.value):
                    groups.add(frozenset((key, n.args[1].args[0].value)))
            elif isinstance(n, ast.Subscript) and isinstance(n.ctx, ast.Load) and isinstance(n.slice, ast.Constant) and isinstance(n.slice.value, str):
                key = n.slice.value
            if key is not None:
                rd.add(key)
        reads[f] = rd
    for grp in sorted(groups, key=sorted):
        for f in fns:
            got = reads[f] & grp
            if not got:
                continue
            ok = got == grp
            rep.analysed_functions.add(f.construct)
            r11.ob(ok, f"{f.qualname}: reads {sorted(got)} of the aliased pair {sorted(grp)}")
            if not ok:
                missing = sorted(grp - got)
                rep.finding("R14.11", f, f.node, f"{f.qualname} reads `{sorted(got)[0]}` of a bin specification but not its alternative spelling `{missing[0]}`, which the other "
                            f"consumers of the specification honour: a specification written with `{missing[0]}` is binned with the default here and with the given "
                            f"value there - the histogram is not the tree the specification describes", stmt=f"alias {missing[0]} of {sorted(got)[0]} not read")


def run(repo, rep, tier):
    rep.extra["explanation"] = (
        "Narrow structural part of the DataFrame interface: (R14.1) along the call graph from make_histograms the input "
        "frame (and plain aliases of it) is never the target of a direct store (df[...] =, df.loc[...] =, del df[...], "
        "inplace=True); writes go to the frame derived by process_features through .copy(); (R14.2) every attribute of the "
        "filler that is data-derived (assigned outside __init__) and read while histograms are constructed/filled is "
        "returned by get_features_specs, and make_histograms forwards each of its specification parameters to the filler; "
        "(R14.3) every key set produced for a bin specification is accepted by a branch of get_hist_bin, and the keys "
        "that branch subscripts are in the set; (R14.4) _fill_histogram fills through hist.fill.numpy on the selected "
        "column(s). Everything about dataframe contents, dtype inference, quantiles and chunk sums is run-time and not decided."
    )
    rep.extra["explanation"] += " " + (
        'Later additions: caller-provided spec keys are never overwritten (R14.2); (R14.5) no freshly indexed Series is assigned into the working frame; (R14.6) a function that takes an axis index reads its column list with that index.'
    )
    rep.not_decided += ["dataframe contents, dtype inference, quantiles, timestamps, chunk sums (homomorphism over row chunks)"]
    mh = repo.modules.get(f"{DF}.make_histograms")
    base_m = repo.modules.get(f"{DF}.histogram_filler_base")
    pd_m = repo.modules.get(f"{DF}.pandas_histogrammar")
    if not (mh and base_m and pd_m):
        raise AnalysisError("dfinterface modules not found")
    make = mh.functions.get("make_histograms")
    base = base_m.classes.get("HistogramFillerBase")
    pdh = pd_m.classes.get("PandasHistogrammar")
    if not (make and base and pdh):
        raise AnalysisError("make_histograms / HistogramFillerBase / PandasHistogrammar not found")
    r1 = rep.rule("R14.1", "the input frame is never the target of a direct store", floor=8)
    r2 = rep.rule("R14.2", "data-derived filler attributes are exported; make_histograms forwards its spec parameters", floor=10)
    r3 = rep.rule("R14.3", "every produced bin-spec key set is accepted by get_hist_bin", floor=12)
    r4 = rep.rule("R14.4", "_fill_histogram fills through hist.fill.numpy on the selected columns", floor=2)

    # ---------------- R14.1 : interprocedural alias propagation of the frame parameter
    visited = set()
    work = [(make, None, {make.params[0]})]
    while work:
        f, cls, tainted = work.pop()
        key = (f.construct, tuple(sorted(tainted)))
        if key in visited:
            continue
        visited.add(key)
        rep.analysed_functions.add(f.construct)
        tainted = set(tainted)
        # plain aliases; re-binding to a fresh/derived object kills the alias (flow-insensitive, conservative: never kill)
        changed = True
        while changed:
            changed = False
            for n in walk_local_stmt(f.node):
                if isinstance(n, ast.Assign) and len(n.targets) == 1 and isinstance(n.targets[0], ast.Name):
                    v = n.value
                    alias = isinstance(v, ast.Name) and v.id in tainted
                    if isinstance(v, ast.Call) and isinstance(v.func, ast.Attribute) and isinstance(v.func.value, ast.Name) and \
                            v.func.value.id == (f.params[0] if f.cls else None):
                        # self.m(df): returns its argument?
                        tgt = repo.lookup(f.cls, v.func.attr) if f.cls else None
                        if cls is not None:
                            tgt = repo.lookup(cls, v.func.attr) or tgt
                        if isinstance(tgt, FuncInfo) and any(isinstance(a, ast.Name) and a.id in tainted for a in v.args):
                            idx = [i for i, a in enumerate(v.args) if isinstance(a, ast.Name) and a.id in tainted][0]
                            pname = tgt.params[1 + idx] if len(tgt.params) > 1 + idx else None
                            if pname and any(isinstance(r, ast.Return) and isinstance(r.value, ast.Name) and r.value.id == pname
                                             for r in walk_local_stmt(tgt.node)):
                                alias = True
                    if alias and n.targets[0].id not in tainted:
                        tainted.add(n.targets[0].id)
                        changed = True
        bad = []
        for n in walk_local_stmt(f.node):
            tg = []
            if isinstance(n, ast.Assign):
                tg = n.targets
            elif isinstance(n, (ast.AugAssign,)):
                tg = [n.target]
            elif isinstance(n, ast.Delete):
                tg = n.targets
            for t in tg:
                base_e = t
                while isinstance(base_e, (ast.Subscript, ast.Attribute)):
                    base_e = base_e.value
                if isinstance(t, (ast.Subscript, ast.Attribute)) and isinstance(base_e, ast.Name) and base_e.id in tainted:
                    bad.append((n, f"store into `{ast.unparse(t)}`"))
            if isinstance(n, ast.Call) and isinstance(n.func, ast.Attribute):
                b = n.func.value
                while isinstance(b, (ast.Subscript, ast.Attribute)):
                    b = b.value
                if isinstance(b, ast.Name) and b.id in tainted:
                    if any(kw.arg == "inplace" and isinstance(kw.value, ast.Constant) and kw.value.value is True for kw in n.keywords):
                        bad.append((n, f"`{ast.unparse(n.func)}(..., inplace=True)`"))
                    if n.func.attr in ("insert", "pop", "update", "drop_duplicates") and any(
                            kw.arg == "inplace" for kw in n.keywords) is False and n.func.attr in ("insert", "pop", "update") and \
                            isinstance(n.func.value, ast.Name):
                        bad.append((n, f"mutating call `{ast.unparse(n.func)}`"))
        r1.ob(not bad, f"{f.qualname}: frame aliases {sorted(tainted)} never stored into")
        for n, what in bad:
            rep.finding("R14.1", f, n, f"{what} modifies the caller's dataframe (`{sorted(tainted)}` alias the frame passed to "
                        f"make_histograms)", path=f"make_histograms -> ... -> {f.qualname}")
        # callees receiving the frame
        for n in walk_local_stmt(f.node):
            if isinstance(n, ast.Call):
                idxs = [i for i, a in enumerate(n.args) if isinstance(a, ast.Name) and a.id in tainted]
                kws = [kw.arg for kw in n.keywords if kw.arg and isinstance(kw.value, ast.Name) and kw.value.id in tainted]
                if not idxs and not kws:
                    continue
                tgt = None
                recv_cls = cls
                if isinstance(n.func, ast.Attribute):
                    # method call on the filler (self.x or hist_filler.x): resolve in the pandas filler
                    if isinstance(n.func.value, ast.Name):
                        tgt = repo.lookup(pdh, n.func.attr)
                        recv_cls = pdh
                elif isinstance(n.func, ast.Name):
                    r = repo.resolve_name(f.module, n.func.id)
                    if isinstance(r, FuncInfo):
                        tgt = r
                        recv_cls = None
                if isinstance(tgt, FuncInfo) and tgt.module.name.startswith(DF) and "spark" not in tgt.module.name:
                    off = 0 if (tgt.cls is None or tgt.is_static) else 1
                    names = set()
                    for i in idxs:
                        if off + i < len(tgt.params):
                            names.add(tgt.params[off + i])
                    names |= set(kws)
                    if names:
                        work.append((tgt, recv_cls, names))
    # process_features derives its working frame through .copy()
    pf = repo.lookup(pdh, "process_features")
    okc = False
    if isinstance(pf, FuncInfo):
        for n in walk_local_stmt(pf.node):
            if isinstance(n, ast.Assign) and isinstance(n.value, ast.Call) and isinstance(n.value.func, ast.Attribute) and n.value.func.attr == "copy":
                okc = True
    r1.ob(okc, "process_features works on a .copy() of the selected columns")
    if not okc:
        rep.finding("R14.1", pf, pf.node, "process_features does not derive its working frame with .copy()", stmt="working frame copy")

    # ---------------- R14.9: the working frame process_features returns is read-only until it is filled
    working_frame_readonly(repo, rep, base, pdh)

    # ---------------- R14.10: "empty selection means all columns" helpers
    empty_means_all(repo, rep, pdh)

    # ---------------- R14.11: alternative spellings of a bin-spec key are honoured by every consumer of that key
    alias_agreement(repo, rep)

    # ---------------- R14.2
    derived = {}
    init_attrs = set()
    for k in (base, pdh):
        for f in k.methods.values():
            if not f.params:
                continue
            sn = f.params[0]
            for n in walk_local_stmt(f.node):
                tg = n.targets if isinstance(n, ast.Assign) else ([n.target] if isinstance(n, ast.AugAssign) else [])
                for t in tg:
                    b = t
                    sub = False
                    while isinstance(b, ast.Subscript):
                        b = b.value
                        sub = True
                    if isinstance(b, ast.Attribute) and isinstance(b.value, ast.Name) and b.value.id == sn:
                        if f.name == "__init__":
                            init_attrs.add(b.attr)
                        else:
                            derived.setdefault(b.attr, f)
    path_funcs = []
    for nm in ("construct_empty_hist", "get_hist_bin", "var_bin_specs", "fill_histograms", "_auto_n_bins"):
        f = repo.lookup(pdh, nm)
        if not isinstance(f, FuncInfo):
            raise AnalysisError(f"PandasHistogrammar.{nm} not found")
        path_funcs.append(f)
    read = set()
    for f in path_funcs:
        sn = f.params[0]
        for n in walk_local_stmt(f.node):
            if isinstance(n, ast.Attribute) and isinstance(n.value, ast.Name) and n.value.id == sn and isinstance(n.ctx, ast.Load):
                read.add(n.attr)
    gfs = repo.lookup(pdh, "get_features_specs")
    if not isinstance(gfs, FuncInfo):
        raise AnalysisError("get_features_specs not found")
    exported = set()
    sn = gfs.params[0]
    locs = {}

    def self_attrs_in(e):
        return {a.attr for a in ast.walk(e) if isinstance(a, ast.Attribute) and isinstance(a.value, ast.Name) and a.value.id == sn}

    def filtered_attrs(e):
        """attributes of self that reach e only through a filtering comprehension (`{k: v for k, v in self.x.items() if ...}`)"""
        out = set()
        for c0 in ast.walk(e):
            if isinstance(c0, (ast.DictComp, ast.ListComp, ast.SetComp, ast.GeneratorExp)) and any(g0.ifs for g0 in c0.generators):
                for g0 in c0.generators:
                    if g0.ifs:
                        out |= self_attrs_in(g0.iter)
        return out
    part_locs, partial = {}, set()
    for n in walk_local_stmt(gfs.node):
        if isinstance(n, ast.Assign) and isinstance(n.targets[0], ast.Name):
            locs[n.targets[0].id] = self_attrs_in(n.value)
            part_locs[n.targets[0].id] = filtered_attrs(n.value)
    for n in walk_local_stmt(gfs.node):
        if isinstance(n, ast.Return) and n.value is not None:
            partial |= filtered_attrs(n.value)
            for e in ast.walk(n.value):
                if isinstance(e, ast.Attribute) and isinstance(e.value, ast.Name) and e.value.id == sn:
                    exported.add(e.attr)
                if isinstance(e, ast.Name) and e.id in locs:
                    exported |= locs[e.id]
                    partial |= part_locs.get(e.id, set())
    need = sorted(a for a in derived if a in read and not a.startswith("_"))
    for a in need:
        if a in exported and a in partial and a != "features":
            r2.ob(False, f"`{a}` exported through a filter")
            rep.finding("R14.2", gfs, gfs.node, f"`self.{a}` is returned by get_features_specs only through a filtering comprehension: entries the "
                        f"filter drops (e.g. the 1-dim specification of a column that only occurs inside n-dim features) are not passed on, "
                        f"so a filler built from the returned specifications bins those axes with defaults and per-chunk histograms do not "
                        f"add up", stmt=f"{a} exported in part")
            continue
        ok = a in exported
        r2.ob(ok, f"data-derived attribute `{a}` (set in {derived[a].qualname}) exported by get_features_specs")
        if not ok:
            rep.finding("R14.2", gfs, gfs.node, f"`self.{a}` is derived from the data in {derived[a].qualname} and read while histograms "
                        f"are built, but get_features_specs does not return it: the returned specifications do not reproduce the "
                        f"binning on another dataframe, so per-chunk histograms do not add up", stmt=f"{a} not exported")
    if len(need) < 3:
        raise AnalysisError(f"only {need} data-derived attributes found on the construction path (confirmed: features, bin_specs, var_dtype)")
    # make_histograms forwards its spec parameters
    ctor = None
    for n in walk_local_stmt(make.node):
        # the local that holds the filler class: assigned from an expression mentioning a *Histogrammar class, then called
        pass
    cls_locals = set()
    for n in walk_local_stmt(make.node):
        if isinstance(n, ast.Assign) and len(n.targets) == 1 and isinstance(n.targets[0], ast.Name) and any(
                isinstance(x, ast.Name) and x.id.endswith("Histogrammar") for x in ast.walk(n.value)) and not isinstance(n.value, ast.Call):
            cls_locals.add(n.targets[0].id)
    for n in walk_local_stmt(make.node):
        if isinstance(n, ast.Assign) and isinstance(n.value, ast.Call) and isinstance(n.value.func, ast.Name) and (
                n.value.func.id in cls_locals or n.value.func.id.endswith("Histogrammar")):
            ctor = n.value
    if ctor is None:
        raise AnalysisError("make_histograms: filler construction `cls(...)` not found")
    init = repo.lookup(pdh, "__init__")
    for p in ("features", "binning", "bin_specs", "time_axis", "var_dtype", "nbins_1d", "nbins_2d", "nbins_3d", "max_nunique"):
        if p not in make.params:
            continue
        ok = any(kw.arg == p and isinstance(kw.value, ast.Name) and kw.value.id == p for kw in ctor.keywords)
        r2.ob(ok, f"make_histograms forwards `{p}`")
        if not ok:
            rep.finding("R14.2", make, ctor, f"make_histograms does not forward its parameter `{p}` to the filler as `{p}={p}`: the "
                        f"specification a caller passes (e.g. one returned with ret_specs=True) is ignored", stmt=f"{p} not forwarded")
    # caller-provided bin specifications are never overwritten: every store into a bin_specs mapping is guarded by a
    # membership test on the same key (make_histograms: time axis; auto_complete_bin_specs: data-derived binning)
    from .. import cfg as cfgmod
    for f, mapping in ((make, "bin_specs"), (repo.lookup(pdh, "auto_complete_bin_specs"), "self.bin_specs")):
        if not isinstance(f, FuncInfo):
            raise AnalysisError("auto_complete_bin_specs not found")
        g = cfgmod.build(f.node)
        # locals that hold the key set of the mapping (bs_keys = list(self.bin_specs.keys()))
        keysets = {mapping}
        for n in walk_local_stmt(f.node):
            if isinstance(n, ast.Assign) and isinstance(n.targets[0], ast.Name) and mapping in ast.unparse(n.value) and "keys" in ast.unparse(n.value):
                keysets.add(n.targets[0].id)
        for n in g.nodes:
            if n.kind != "stmt" or not isinstance(n.ast, ast.Assign):
                continue
            key = None
            for t in n.ast.targets:
                if isinstance(t, ast.Subscript) and ast.unparse(t.value) == mapping:
                    key = ast.unparse(t.slice)
            if key is None and ast.unparse(n.ast.targets[0]) == mapping and isinstance(n.ast.value, ast.Dict):
                d = n.ast.value
                # {**bin_specs, k: v}: later keys override the caller's
                if any(k is None and ast.unparse(v) == mapping for k, v in zip(d.keys, d.values)):
                    for k in d.keys:
                        if k is not None:
                            key = ast.unparse(k)
            if key is None:
                continue
            # guarded: on every path to the store, `key in <mapping/keys>` has been tested False (or `not in` True)
            def transfer(node, st):
                if node.kind == "test":
                    t = node.ast
                    neg = False
                    while isinstance(t, ast.UnaryOp) and isinstance(t.op, ast.Not):
                        t = t.operand
                        neg = not neg
                    if isinstance(t, ast.Compare) and len(t.ops) == 1 and isinstance(t.ops[0], (ast.In, ast.NotIn)) and \
                            ast.unparse(t.left) == key and ast.unparse(t.comparators[0]) in keysets:
                        absent_on_true = isinstance(t.ops[0], ast.NotIn) != neg
                        return {("T" if absent_on_true else "F"): True, ("F" if absent_on_true else "T"): st, None: st}
                return st
            states = cfgmod.solve_forward(g, False, transfer, lambda a, b: a and b)
            ok = bool(states.get(n.id))
            r2.ob(ok, f"{f.qualname}: store of key `{key}` into {mapping} only when absent")
            if not ok:
                rep.finding("R14.2", f, n.stmt, f"`{norm(n.stmt)[:70]}` writes the key `{key}` into {mapping} without first establishing that the "
                            f"caller did not provide it: a binning specification passed in (e.g. one returned with ret_specs=True) is "
                            f"silently replaced, so chunks are binned differently from the whole", stmt=f"unguarded store of {key} into {mapping}")
    # ---------------- R14.3
    ghb = repo.lookup(pdh, "get_hist_bin")
    chain = None
    for n in walk_local_stmt(ghb.node):
        if isinstance(n, ast.If) and any(isinstance(x, ast.Compare) and isinstance(x.ops[0], ast.In) and isinstance(x.left, ast.Constant)
                                         for x in ast.walk(n.test)):
            if chain is None or n.lineno < chain.lineno:
                chain = n
    if chain is None:
        raise AnalysisError("get_hist_bin: key-membership chain not found")
    branches = []
    cur = chain
    while isinstance(cur, ast.If):
        branches.append((cur.test, cur.body))
        cur = cur.orelse[0] if len(cur.orelse) == 1 and isinstance(cur.orelse[0], ast.If) else None

    def accepts(test, keys):
        if isinstance(test, ast.BoolOp):
            vals = [accepts(v, keys) for v in test.values]
            return all(vals) if isinstance(test.op, ast.And) else any(vals)
        if isinstance(test, ast.Compare) and len(test.ops) == 1 and isinstance(test.ops[0], ast.In) and isinstance(test.left, ast.Constant):
            return test.left.value in keys
        return False

    produced = []
    for f in list(base.methods.values()) + list(pdh.methods.values()) + [make, mh.functions.get("_get_bin_specs")]:
        if f is None:
            continue
        for n in walk_local_stmt(f.node):
            if isinstance(n, ast.Dict) and n.keys and all(isinstance(k, ast.Constant) and isinstance(k.value, str) for k in n.keys):
                keys = [k.value for k in n.keys]
                spec_like = False
                par = getattr(n, "_parent", None)
                # dict literals that become bin specifications: appended to specs / bin_specs, assigned to *_specs
                if isinstance(par, ast.Call) and isinstance(par.func, ast.Attribute) and par.func.attr == "append" and \
                        "spec" in ast.unparse(par.func.value):
                    spec_like = True
                if isinstance(par, ast.Assign) and any("spec" in ast.unparse(t) for t in par.targets):
                    spec_like = True
                if spec_like:
                    produced.append((f, n, keys))
    for f, n, keys in produced:
        taken = None
        for test, body in branches:
            if accepts(test, set(keys)):
                taken = (test, body)
                break
        ok = taken is not None
        if ok:
            # keys subscripted directly in the taken branch are present
            for b in taken[1]:
                for s in ast.walk(b):
                    if isinstance(s, ast.Subscript) and isinstance(s.value, ast.Name) and s.value.id == "specs" and isinstance(s.slice, ast.Constant):
                        if s.slice.value not in keys:
                            ok = False
        r3.ob(ok, f"{f.qualname}: spec keys {keys} accepted by get_hist_bin")
        if not ok:
            rep.finding("R14.3", f, n, f"the bin specification with keys {keys} produced here is not accepted by any branch of "
                        f"get_hist_bin (RuntimeError: 'Do not know how to interpret bin specifications') or the accepting branch "
                        f"subscripts a missing key", stmt=f"spec keys {keys}")
    # ---------------- R14.5: columns of the working frame are derived with index-preserving operations
    r5 = rep.rule("R14.5", "no freshly indexed pd.Series is assigned into a column of the working frame", floor=2)
    for f in [x for x in repo.all_functions() if x.module.name.startswith(DF) and "spark" not in x.module.name]:
        for n in walk_local_stmt(f.node):
            if isinstance(n, ast.Assign) and any(isinstance(t, ast.Subscript) for t in n.targets):
                bad = None
                for cl in ast.walk(n.value):
                    if isinstance(cl, ast.Call) and (call_name(cl) or "").split(".")[-1] == "Series" and not any(k.arg == "index" for k in cl.keywords):
                        bad = cl
                tgt = [t for t in n.targets if isinstance(t, ast.Subscript)][0]
                frame_like = isinstance(tgt.value, ast.Name) and ("df" in tgt.value.id)
                if frame_like:
                    r5.ob(bad is None, f"{f.qualname}: `{norm(n)[:60]}`")
                    if bad is not None:
                        rep.finding("R14.5", f, n, f"`{ast.unparse(bad)[:60]}` builds a Series with a fresh 0..n-1 index and assigns it into a column of "
                                    f"`{tgt.value.id}`: pandas aligns on index labels, so for a dataframe whose index is not 0..n-1 (any row chunk) "
                                    f"the column becomes NaN / attached to the wrong rows", stmt=f"fresh-index Series into {tgt.value.id}[...]")
    # ---------------- R14.6 per-axis lookups use the axis index they were asked for
    r6 = rep.rule("R14.6", "a function that takes an axis index looks the column list up with that index, never with a literal position", floor=2)
    for f in [x for x in repo.all_functions() if x.module.name.startswith(DF)]:
        idxp = [p for p in f.params if p in ("idx", "index", "axis", "i_axis")]
        if not idxp:
            continue
        others = [p for p in f.params if p not in idxp]
        for n in walk_local_stmt(f.node):
            if isinstance(n, ast.Subscript) and isinstance(n.ctx, ast.Load) and isinstance(n.value, ast.Name) and n.value.id in others:
                by_idx = isinstance(n.slice, ast.Name) and n.slice.id in idxp
                literal = isinstance(n.slice, ast.Constant) and isinstance(n.slice.value, int)
                if not (by_idx or literal):
                    continue
                r6.ob(by_idx, f"{f.qualname}: `{ast.unparse(n)}`")
                if literal:
                    rep.finding("R14.6", f, n, f"{f.qualname} is asked for axis `{idxp[0]}` but reads `{ast.unparse(n)}` (a fixed position) from its column "
                                f"list: for a multi-dimensional feature the data type / bin specification of another axis is used, so the axis is "
                                f"binned with the wrong default and the histogram differs from filling the same tree directly",
                                stmt=f"fixed position {ast.unparse(n)} instead of [{idxp[0]}]")
    # ---------------- R14.7 every nesting primitive built for an axis wraps the histogram of the axes to its right
    r7 = rep.rule("R14.7", "get_hist_bin: a primitive with a sub-aggregator parameter receives the histogram built so far, and every primitive the axis' quantity", floor=12)
    ghb = None
    for k in repo.classes_named("HistogramFillerBase") if hasattr(repo, "classes_named") else []:
        ghb = k.methods.get("get_hist_bin") or ghb
    if ghb is None:
        for m0 in repo.modules.values():
            if m0.name.startswith(DF):
                for k in m0.classes.values():
                    if "get_hist_bin" in k.methods:
                        ghb = k.methods["get_hist_bin"]
    if ghb is None:
        raise AnalysisError("get_hist_bin not found")
    rep.analysed_functions.add(ghb.construct)
    from ..loader import primitives as _prims
    from ..model import build_models as _bm
    _pl, _ = _prims(repo)
    _models = _bm(repo)
    hist_p = ghb.params[1] if len(ghb.params) > 1 else None
    quant_p = ghb.params[3] if len(ghb.params) > 3 else None
    byname = {c.name: c for c in _pl}
    for n in walk_local_stmt(ghb.node):
        if not (isinstance(n, ast.Call) and isinstance(n.func, ast.Name) and n.func.id in byname):
            continue
        c = byname[n.func.id]
        init = repo.own_method(c, "__init__")
        ip = init.params[1:]
        bound = {}
        for pn, a in zip(ip, n.args):
            bound[pn] = a
        for kw in n.keywords:
            if kw.arg:
                bound[kw.arg] = kw.value
        tmpl = _models[c.name].template or next((s0 for s0 in _models[c.name].slots if s0 in ip and s0 in ("cut", "value")), None)
        tparam = tmpl if tmpl in ip else next((p for p in ip if p in ("value", "cut")), None)
        if tparam is not None:
            ok = tparam in bound and isinstance(bound[tparam], ast.Name) and bound[tparam].id == hist_p
            r7.ob(ok, f"get_hist_bin: {c.name}({tparam}={hist_p})")
            if not ok:
                rep.finding("R14.7", ghb, n, f"`{norm(n)[:70]}` does not pass the histogram built so far (`{hist_p}`) as `{tparam}`: every axis to the "
                            f"right of this one is replaced by the constructor's default (a plain Count), so a multi-dimensional feature no "
                            f"longer equals the tree its specification describes", stmt=f"{c.name} without {tparam}={hist_p}")
        if "quantity" in ip and quant_p:
            ok = "quantity" in bound and isinstance(bound["quantity"], ast.Name) and bound["quantity"].id == quant_p
            r7.ob(ok, f"get_hist_bin: {c.name}(quantity={quant_p})")
            if not ok:
                rep.finding("R14.7", ghb, n, f"`{norm(n)[:70]}` is not given the axis' quantity `{quant_p}`", stmt=f"{c.name} without quantity")
    # ---------------- R14.8 the timestamp converter yields integers on every path
    # process_features applies to_ns element-wise; the quantity registered for datetime64 (only_int) keeps integer columns only, so
    # a single float among the results (pandas then makes the whole column float64) sends every row of the column to nanflow
    r8 = rep.rule("R14.8", "to_ns returns an integer on every path (missing timestamps included)", floor=3)
    fu = repo.modules.get(DF + ".filling_utils") or next((m0 for m0 in repo.modules.values() if m0.name.endswith("filling_utils")), None)
    tn = fu.functions.get("to_ns") if fu is not None else None
    if tn is None:
        raise AnalysisError("filling_utils.to_ns not found")
    rep.analysed_functions.add(tn.construct)
    for n in walk_local_stmt(tn.node):
        if isinstance(n, ast.Return):
            v = n.value
            ok = (isinstance(v, ast.Constant) and type(v.value) is int) or (isinstance(v, ast.Attribute) and v.attr == "value") or (
                isinstance(v, ast.Call) and isinstance(v.func, ast.Name) and v.func.id == "int")
            r8.ob(ok, f"to_ns: `{norm(n)[:50]}`")
            if not ok:
                rep.finding("R14.8", tn, n, f"`{norm(n)[:60]}` makes to_ns return a non-integer for some timestamps: applied element-wise, one such value "
                            f"turns the whole converted column into float64, which the integer-only quantity used for timestamp columns rejects - "
                            f"every row of the column (valid timestamps included) lands in nanflow, and a chunk without such a value is filled "
                            f"normally, so chunk histograms no longer add up", stmt=f"to_ns returns {ast.unparse(v)[:30] if v is not None else 'None'}")
    # ---------------- R14.4
    fh = pd_m.functions.get("_fill_histogram")
    if fh is None:
        raise AnalysisError("_fill_histogram not found")
    calls = [n for n in walk_local_stmt(fh.node) if isinstance(n, ast.Call) and ast.unparse(n.func) == f"{fh.params[1]}.fill.numpy"]
    ok = len(calls) == 1 and len(calls[0].args) >= 1 and isinstance(calls[0].args[0], ast.Subscript) and \
        ast.unparse(calls[0].args[0].value) == fh.params[0]
    r4.ob(ok, "_fill_histogram: hist.fill.numpy(idf[clm])")
    if not ok:
        rep.finding("R14.4", fh, fh.node, "_fill_histogram does not fill with `hist.fill.numpy(idf[clm])`", stmt="fill.numpy call")
    rets = [n for n in walk_local_stmt(fh.node) if isinstance(n, ast.Return)]
    ok = bool(rets) and all(isinstance(r.value, ast.Tuple) and ast.unparse(r.value.elts[-1]) == fh.params[1] for r in rets)
    r4.ob(ok, "_fill_histogram returns (name, hist)")
    if not ok:
        rep.finding("R14.4", fh, fh.node, "_fill_histogram does not return the filled histogram", stmt="return (name, hist)")
