"""C04 - JSON serialisation is lossless, strict and yields a fully usable container (writer/reader agreement)."""

import ast

from .. import cfg as cfgmod
from ..astutil import call_name, walk_local_stmt
from ..builder import bind_call_args, bind_call_exprs
from ..jsonio import ENCODERS, ReaderModel, writer_keys
from ..loader import AnalysisError, ClassInfo, FuncInfo, norm, primitives
from ..model import USERFCN_FIELDS, build_models
from ..poly import Rat, Unsupported, formula
from ..taint import FieldTaint

BUILDERS = ("zero", "__add__", "__mul__")


def npath(p):
    return p.replace("{keys}", "").replace("[]", "")


def matches(rp, wp):
    """reader key path rp populates something written under writer key path wp"""
    r, w = npath(rp), npath(wp)
    return r == w or r.startswith(w + ".")


NP_REDUCTIONS = {"sum", "min", "max", "mean", "std", "var", "prod", "dot", "average", "nanmin", "nanmax", "nansum", "nanmean",
                 "median", "amin", "amax", "count_nonzero", "cumsum", "argmin", "argmax"}
PY_SCALAR = {"float", "int", "bool", "len", "str"}


def numpy_scalar_rule(repo, rep, r7, c, m):
    """Flow-insensitive taint inside _numpy: numpy reductions / array elements are tainted, float()/int()/.item()/.tolist()
    clean, arithmetic and min()/max() propagate.  A tainted value must not be stored into a serialised number field."""
    f = repo.own_method(c, "_numpy")
    rep.analysed_functions.add(f.construct)
    sn = f.params[0]
    arrays = {p for p in f.params[1:]}          # data, weights (arrays or scalars), shape
    tainted = set()

    def is_t(e):
        if isinstance(e, ast.Name):
            return e.id in tainted
        if isinstance(e, ast.Call):
            fn = e.func
            name = fn.id if isinstance(fn, ast.Name) else (fn.attr if isinstance(fn, ast.Attribute) else None)
            if isinstance(fn, ast.Name) and name in PY_SCALAR:
                return False
            if isinstance(fn, ast.Attribute) and name in ("item", "tolist"):
                return False
            if isinstance(fn, ast.Attribute) and name in NP_REDUCTIONS:
                return True
            if isinstance(fn, ast.Name) and name in ("min", "max", "sum", "abs", "round"):
                return any(is_t(a) for a in e.args) or (name == "sum" and True and any(isinstance(a, ast.Name) and a.id in array_names for a in e.args))
            return False
        if isinstance(e, ast.BinOp):
            return is_t(e.left) or is_t(e.right)
        if isinstance(e, ast.UnaryOp):
            return is_t(e.operand)
        if isinstance(e, ast.IfExp):
            return is_t(e.body) or is_t(e.orelse)
        if isinstance(e, ast.Subscript):
            # an element of an array is a numpy scalar
            return isinstance(e.value, ast.Name) and e.value.id in array_names and not isinstance(e.slice, ast.Slice)
        return False

    # names bound to arrays: results of self.quantity(...), numpy constructors, _makeNPWeights, comparisons/arithmetic on arrays
    array_names = set()
    changed = True
    while changed:
        changed = False
        for n in walk_local_stmt(f.node):
            if isinstance(n, ast.Assign) and len(n.targets) == 1 and isinstance(n.targets[0], ast.Name):
                t = n.targets[0].id
                v = n.value
                txt = ast.unparse(v)
                arr = (isinstance(v, ast.Call) and (txt.startswith(f"{sn}.quantity(") or txt.startswith(f"{sn}._makeNPWeights(")
                                                     or txt.split("(")[0] in ("numpy.array", "np.array", "numpy.asarray", "np.asarray",
                                                                              "numpy.ones", "np.ones", "numpy.zeros", "np.zeros",
                                                                              "numpy.isnan", "np.isnan", "numpy.floor", "np.floor"))) \
                    or (isinstance(v, (ast.BinOp, ast.Compare, ast.Subscript)) and any(isinstance(x, ast.Name) and x.id in array_names for x in ast.walk(v))
                        and not is_t(v) and not (isinstance(v, ast.Subscript) and not isinstance(v.slice, (ast.Slice, ast.Name, ast.Compare))))
                if arr and t not in array_names:
                    array_names.add(t)
                    changed = True
                if is_t(v) and t not in tainted:
                    tainted.add(t)
                    changed = True
            elif isinstance(n, ast.AugAssign) and isinstance(n.target, ast.Name):
                if is_t(n.value) and n.target.id not in tainted:
                    tainted.add(n.target.id)
                    changed = True
    number_fields = set(m.acc)
    nstores = 0
    for n in walk_local_stmt(f.node):
        tg = []
        if isinstance(n, ast.Assign):
            tg = n.targets
        elif isinstance(n, ast.AugAssign):
            tg = [n.target]
        for t in tg:
            base = t
            while isinstance(base, ast.Subscript):
                base = base.value
            if isinstance(base, ast.Attribute) and isinstance(base.value, ast.Name) and base.value.id == sn and base.attr in number_fields:
                nstores += 1
                bad = is_t(n.value)
                r7.ob(not bad, f"{c.name}._numpy: {norm(n)[:70]}")
                if bad:
                    rep.finding("R4.7", f, n, f"`{ast.unparse(n.value)[:80]}` is a numpy scalar (a reduction or an element of an array; for integer or "
                                f"float32 input not a Python float) and is stored into the serialised field `{base.attr}` without float(): "
                                f"json.dumps of toJson() then raises TypeError, and the scalar survives +, * and copy()",
                                stmt=f"{base.attr} <- numpy scalar {norm(n)[:60]}")


def bag_key_rule(repo, rep, r8):
    """Bag stores NaN under the string key "nan" (NaN is not equal to itself).  The normaliser the filling path applies to
    numeric keys must also be applied by the reader to every numeric value that becomes a key - otherwise a reloaded Bag
    holds float NaN keys: it re-serialises differently, is unequal to the original and + no longer merges the NaN cell."""
    bag = repo.cls("Bag")
    rd = repo.own_method(bag, "fromJsonFragment")
    if rd is None:
        raise AnalysisError("Bag.fromJsonFragment not found")
    # the normaliser(s) of the filling path: NaN-normalising converters applied in the definitions of the key (def-use, see C02/R2.5)
    from .c02 import key_definitions, nan_normalisers
    allnorm = nan_normalisers(repo)
    norms = set()
    for cand in ("fill", "_update"):
        f0 = repo.lookup(bag, cand)
        if f0 is None:
            continue
        for n, v in key_definitions(f0)[1]:
            for x in ast.walk(v):
                if isinstance(x, ast.Name) and x.id in allnorm:
                    norms.add(x.id)
    if not norms:
        raise AnalysisError("Bag fill path: no key normaliser found (floatOrNan expected)")
    # key variable(s) of the reader: the index of stores into the dict that becomes `values`
    keyvars = set()
    for n in walk_local_stmt(rd.node):
        if isinstance(n, ast.Assign):
            for t in n.targets:
                if isinstance(t, ast.Subscript) and isinstance(t.value, ast.Name) and isinstance(t.slice, ast.Name):
                    keyvars.add(t.slice.id)
    g = cfgmod.build(rd.node)
    tcd = g.transitive_control_deps()
    for node in g.nodes:
        n = node.ast if node.kind == "stmt" else None
        if isinstance(n, ast.Assign) and len(n.targets) == 1 and isinstance(n.targets[0], ast.Name) and n.targets[0].id in keyvars:
            v = n.value
            # string branch: the raw JSON value guarded by isinstance(..., basestring/str)
            guarded_str = any(g.nodes[tid].kind == "test" and lab == "T" and "basestring" in ast.unparse(g.nodes[tid].ast) and
                              "isinstance" in ast.unparse(g.nodes[tid].ast) and "list" not in ast.unparse(g.nodes[tid].ast)
                              for (tid, lab) in tcd[node.id])
            uses_norm = any((isinstance(c, ast.Call) and isinstance(c.func, ast.Name) and c.func.id in norms) or
                            (isinstance(c, ast.Name) and c.id in norms) for c in ast.walk(v))
            raw_float = any(isinstance(c, ast.Call) and isinstance(c.func, ast.Name) and c.func.id == "float" for c in ast.walk(v))
            ok = uses_norm and not raw_float or (guarded_str and not raw_float)
            r8.ob(ok, f"Bag.fromJsonFragment: key `{norm(n)[:60]}`")
            if not ok:
                rep.finding("R4.8", rd, n, f"the reader builds a Bag key with `{ast.unparse(v)[:70]}` but the filling path normalises numeric keys "
                            f"with {sorted(norms)} (NaN is stored under the string 'nan'): a reloaded Bag gets float NaN keys, so it "
                            f"re-serialises differently and its NaN cell no longer merges with the original's", stmt=f"bag key {norm(n)[:60]}")


def integer_key_rule(repo, rep, prims):
    """R4.10: integer dict keys are written with str(i); the only exact inverse on the whole index range (the saturated bins
    +-(2**63-1) included) is int(text).  A reader that parses the key text through float() rounds every index beyond 2**53."""
    r10 = rep.rule("R4.10", "integer keys of a JSON object are parsed with int(text) directly, never through float()", floor=1)
    for c in prims:
        rd = repo.own_method(c, "fromJsonFragment") if "fromJsonFragment" in c.methods else None
        if rd is None:
            continue
        for n in walk_local_stmt(rd.node):
            keys = []
            if isinstance(n, ast.DictComp):
                keys.append(n.key)
            elif isinstance(n, ast.Assign):
                keys += [t.slice for t in n.targets if isinstance(t, ast.Subscript)]
            for k in keys:
                for call in ast.walk(k):
                    if isinstance(call, ast.Call) and isinstance(call.func, ast.Name) and call.func.id == "int" and call.args:
                        inner = [x for x in ast.walk(call.args[0]) if isinstance(x, ast.Call) and isinstance(x.func, ast.Name)
                                 and x.func.id in ("float", "round")] + [x for x in ast.walk(call.args[0]) if isinstance(x, ast.BinOp)]
                        ok = not inner
                        r10.ob(ok, f"{c.name}.fromJsonFragment: key `{ast.unparse(k)[:50]}`")
                        if not ok:
                            rep.finding("R4.10", rd, k, f"the integer key of the reloaded dict is computed as `{ast.unparse(k)}`: going through a float "
                                        f"rounds indexes beyond 2**53 - the saturated bins +-(2**63-1) that hold +-inf come back under another "
                                        f"key (2**63, or -2**63 which is the NaN index), so the reloaded container differs from the original and "
                                        f"merges put the same data into separate bins", stmt=f"integer key through float: {ast.unparse(k)[:40]}")


def ed_accepts_reachable_states(repo, rep, prims, models):
    """R4.11: ed() is what the reader builds every reloaded aggregator with, so it must accept every state toJson can emit.
    `entries` is a sum of positive weights and may be range-checked; every other accumulator (sum, mean, variance, min, max ...)
    is the result of floating-point arithmetic - a merge of constant data leaves a variance of -1.8e-17 - and a range check on
    it in ed() makes the library refuse documents it has written itself."""
    import hgsa.cfg as cfgmod
    from .c15 import edge_always_raises
    r11 = rep.rule("R4.11", "ed() puts no range check on an accumulator other than entries (every emitted state reloads)", floor=19)
    for c in prims:
        ed = repo.own_method(c, "ed")
        m = models[c.name]
        acc = {a for a in m.acc if a != "entries"}
        # ed parameters that carry an accumulator: same name, or stored into out.<acc>
        carries = {}
        for p in ed.params:
            if p in acc:
                carries[p] = p
        for st in walk_local_stmt(ed.node):
            if isinstance(st, ast.Assign) and len(st.targets) == 1 and isinstance(st.targets[0], ast.Attribute) and st.targets[0].attr in acc:
                for x in ast.walk(st.value):
                    if isinstance(x, ast.Name) and x.id in ed.params and x.id != "entries" and x.id != (ed.params[0] if ed.params else None):
                        carries.setdefault(x.id, st.targets[0].attr)
        # properties whose setter stores an accumulator (variance -> varianceTimesEntries)
        for p in ed.params:
            if p not in carries:
                prop = repo.lookup(c, p)
                if isinstance(prop, FuncInfo) and prop.is_property and any(a in ast.unparse(prop.node) for a in acc):
                    carries[p] = p
        g = cfgmod.build(ed.node)
        bad = []
        for n in g.nodes:
            if n.kind != "test":
                continue
            for cmp in ast.walk(n.ast):
                if isinstance(cmp, ast.Compare) and len(cmp.ops) == 1 and isinstance(cmp.ops[0], (ast.Lt, ast.LtE, ast.Gt, ast.GtE)):
                    names = {x.id for x in ast.walk(cmp) if isinstance(x, ast.Name)} & set(carries)
                    if names and (edge_always_raises(g, n, "T")[0] or edge_always_raises(g, n, "F")[0]):
                        bad.append((n, cmp, sorted(names)[0]))
        r11.ob(not bad, f"{c.name}.ed: no range check on {sorted(acc) or 'accumulators'}")
        for n, cmp, p in bad:
            rep.finding("R4.11", ed, cmp, f"{c.name}.ed rejects `{ast.unparse(cmp)}`: `{p}` carries the accumulator `{carries[p]}`, which is the result of "
                        f"floating-point arithmetic (a merge of almost constant data leaves a tiny negative variance; sums and extrema have any "
                        f"sign), so toJson emits states that fromJson then refuses - the library cannot read back its own document",
                        stmt=f"ed range-checks accumulator {p}")


def attribute_probe_rule(repo, rep, prims):
    """R4.12: `getattr(child, "name", default)` relies on the child answering an unknown name with AttributeError.  A primitive
    whose __getattr__ ends in `self.__dict__[attr]` (Select forwards to its cut and then indexes its own dict) answers with
    KeyError instead, which `getattr` with a default does not catch: the writer raises and no document is produced.  For every
    probe in a toJsonFragment the classes that can still be the child at that point (those not excluded by an earlier failed
    probe `getattr(child, n, None) is not None` of an attribute that is never None for them) must define the probed name."""
    import hgsa.cfg as cfgmod
    from ..resolve import attr_universe, instance_attr_stores
    r12 = rep.rule("R4.12", "every attribute probe with a default in a writer is answered by each class that can be the child at that point", floor=15)
    stores, _ = instance_attr_stores(repo)
    fragile = {}
    for k in prims:
        ga = k.methods.get("__getattr__")
        if ga is None or len(ga.params) < 2:
            continue
        sn, an = ga.params[0], ga.params[1]
        for n in walk_local_stmt(ga.node):
            if isinstance(n, ast.Subscript) and isinstance(n.ctx, ast.Load) and isinstance(n.slice, ast.Name) and n.slice.id == an and \
                    ast.unparse(n.value) == f"{sn}.__dict__":
                fragile[k.name] = k
    if not fragile:
        r12.ob(True, "no primitive answers unknown attributes with a non-AttributeError")
        return
    universe = {k.name: attr_universe(repo, k, stores) | set(k.methods) for k in prims}

    def never_none(k, attr):
        """every store `self.attr = V` / `out.attr = V` of the class assigns the result of a call (a wrapper object), never None or a bare parameter"""
        vals = []
        for m in k.methods.values():
            for n in walk_local_stmt(m.node):
                if isinstance(n, ast.Assign):
                    for t in n.targets:
                        if isinstance(t, ast.Attribute) and t.attr == attr and isinstance(t.value, ast.Name):
                            vals.append(n.value)
        return bool(vals) and all(isinstance(v, ast.Call) for v in vals)

    for c in prims:
        w = repo.own_method(c, "toJsonFragment")
        g = cfgmod.build(w.node)

        def probe_of(e):
            if isinstance(e, ast.Call) and isinstance(e.func, ast.Name) and e.func.id == "getattr" and len(e.args) == 3 and \
                    isinstance(e.args[1], ast.Constant) and isinstance(e.args[1].value, str):
                return ast.unparse(e.args[0]), e.args[1].value
            return None
        tcd = g.transitive_control_deps()
        wdefs = {}
        for st0 in walk_local_stmt(w.node):
            if isinstance(st0, ast.Assign) and len(st0.targets) == 1 and isinstance(st0.targets[0], ast.Name):
                wdefs.setdefault(st0.targets[0].id, []).append(st0.value)

        def resolved(e):
            """a local that holds the result of one probe (`subQuantity = getattr(child, "quantity", None)`) stands for it"""
            if isinstance(e, ast.Name) and len(wdefs.get(e.id, [])) == 1:
                return wdefs[e.id][0]
            return e
        def failed_probe(t):
            """(object text, attribute) when t is `getattr(obj, attr, None) is not None` (possibly through a local)"""
            if isinstance(t, ast.Compare) and len(t.ops) == 1 and isinstance(t.ops[0], ast.IsNot) and isinstance(t.comparators[0], ast.Constant) \
                    and t.comparators[0].value is None:
                return probe_of(resolved(t.left))
            return None

        def check_probe(e, failed):
            pr = probe_of(e)
            if pr is None:
                return
            obj, name = pr
            if obj == w.params[0]:
                return                  # a probe on self
            possible = dict(fragile)
            for (o2, n2) in failed:
                if o2 == obj:
                    for kn, k in list(possible.items()):
                        if n2 in universe[kn] and never_none(k, n2):
                            possible.pop(kn)          # for this class the earlier probe cannot have failed
            bad = [kn for kn in possible if name not in universe[kn]]
            r12.ob(not bad, f"{w.qualname}: getattr({obj}, {name!r}, ...)")
            if bad:
                rep.finding("R4.12", w, e, f"`{ast.unparse(e)[:70]}` is evaluated while `{obj}` may still be a {bad[0]}: {bad[0]} does not define "
                            f"`{name}`, and its __getattr__ answers an unknown name with `self.__dict__[attr]` - a KeyError, which getattr's "
                            f"default does not catch - so toJson of a {c.name} holding a {bad[0]} raises instead of producing a document",
                            stmt=f"probe {name} may hit {bad[0]}.__getattr__")

        def walk_expr(e, failed):
            """expressions with their evaluation context: the else-part of `A if probe is not None else B` runs after a failed probe"""
            if isinstance(e, ast.IfExp):
                walk_expr(e.test, failed)
                walk_expr(e.body, failed)
                fp = failed_probe(e.test)
                walk_expr(e.orelse, failed + [fp] if fp else failed)
                return
            if isinstance(e, ast.Call):
                check_probe(e, failed)
            for ch in ast.iter_child_nodes(e):
                if isinstance(ch, (ast.expr, ast.keyword, ast.comprehension)):
                    walk_expr(ch, failed)

        from ..dataflow import header_exprs
        for n in g.nodes:
            if n.kind not in ("test", "stmt"):
                continue
            failed = []
            for (tid, lab) in tcd[n.id]:
                tn = g.nodes[tid]
                if tn.kind == "test" and lab == "F":
                    fp = failed_probe(tn.ast)
                    if fp:
                        failed.append(fp)
            for e0 in header_exprs(n):
                if e0 is not None:
                    walk_expr(e0, failed)


def type_tags_from_name(repo, rep, prims):
    """R4.13: the type tag of a child (contentType, "...type" keys, factory look-ups) is its `name` - the factory name, which the
    specialised subclasses (HistogramMethods, ...) keep as "Bin", ... - never the Python class name: specialize() re-classes the
    object, so `x.__class__.__name__` of a constructed child differs from the tag the document (and a reloaded tree) carries."""
    r13 = rep.rule("R4.13", "type tags (contentType, *:type keys) are taken from `.name`, never from the Python class name", floor=15)

    def is_classname(e):
        if isinstance(e, ast.Attribute) and e.attr in ("__name__", "__qualname__"):
            v = e.value
            if isinstance(v, ast.Attribute) and v.attr == "__class__":
                return True
            if isinstance(v, ast.Call) and isinstance(v.func, ast.Name) and v.func.id == "type" and len(v.args) == 1:
                return True
        return False

    for c in prims:
        for f in c.methods.values():
            tainted = {}
            for n in walk_local_stmt(f.node):
                if isinstance(n, ast.Assign) and len(n.targets) == 1 and isinstance(n.targets[0], ast.Name) and any(is_classname(x) for x in ast.walk(n.value)):
                    tainted[n.targets[0].id] = n

            def bad_in(e):
                for x in ast.walk(e):
                    if is_classname(x):
                        return x
                    if isinstance(x, ast.Name) and isinstance(x.ctx, ast.Load) and x.id in tainted:
                        return tainted[x.id]
                return None

            for n in walk_local_stmt(f.node):
                sinks = []
                if isinstance(n, ast.Assign):
                    for t in n.targets:
                        if (isinstance(t, ast.Attribute) and t.attr == "contentType") or (isinstance(t, ast.Name) and t.id == "contentType"):
                            sinks.append(("contentType", n.value))
                        if isinstance(t, ast.Subscript) and isinstance(t.slice, ast.Constant) and isinstance(t.slice.value, str) and t.slice.value.endswith("type"):
                            sinks.append((t.slice.value, n.value))
                if isinstance(n, ast.Dict):
                    for k, v in zip(n.keys, n.values):
                        if isinstance(k, ast.Constant) and isinstance(k.value, str) and k.value.endswith("type"):
                            sinks.append((k.value, v))
                if isinstance(n, ast.Compare) and any(isinstance(x, ast.Attribute) and x.attr in ("contentType",) for x in ast.walk(n)):
                    sinks.append(("comparison with contentType", n))
                for what, e in sinks:
                    b = bad_in(e)
                    r13.ob(b is None, f"{f.qualname}: {what} <- {ast.unparse(e)[:60]}")
                    if b is not None:
                        rep.finding("R4.13", f, b, f"the type tag `{what}` is taken from the Python class name (`{ast.unparse(b)[:60]}`): specialize() re-classes "
                                    f"constructed aggregators (a Bin of Counts is a HistogramMethods), so the tag differs from the `name` the JSON document carries - "
                                    f"original and reloaded container declare different content types and can no longer be merged", stmt=f"{what} from the class name")


def name_from_parent_used(repo, rep, prims):
    """R4.14: a container factors the common quantity name of its children out as `values:name` / `bins:name` / `sub:name` and hands
    it to each child reader as nameFromParent; a reader that stores its quantity name must take nameFromParent when the fragment has none."""
    r14 = rep.rule("R4.14", "every reader that restores a quantity name falls back to nameFromParent", floor=12)
    for c in prims:
        f = repo.own_method(c, "fromJsonFragment")
        if len(f.params) < 2:
            raise AnalysisError(f"{f.construct}: unexpected signature")
        nfp = f.params[-1]
        stores = [n for n in walk_local_stmt(f.node) if isinstance(n, ast.Assign) and any(
            isinstance(t, ast.Attribute) and t.attr == "name" and isinstance(t.value, ast.Attribute) and t.value.attr in USERFCN_FIELDS for t in n.targets)]
        if not stores:
            continue
        carriers = {nfp}
        changed = True
        while changed:
            changed = False
            for n in walk_local_stmt(f.node):
                if isinstance(n, ast.Assign) and any(isinstance(x, ast.Name) and x.id in carriers for x in ast.walk(n.value)):
                    for t in n.targets:
                        if isinstance(t, ast.Name) and t.id not in carriers:
                            carriers.add(t.id)
                            changed = True
        ok = any(isinstance(x, ast.Name) and x.id in carriers for n in stores for x in ast.walk(n.value))
        r14.ob(ok, f"{c.name}.fromJsonFragment: quantity name <- {nfp} when the fragment has no name")
        if not ok:
            rep.finding("R4.14", f, stores[0], f"{c.name}.fromJsonFragment restores the quantity name (`{norm(stores[0])[:60]}`) but never from `{nfp}`: nested under a "
                        f"container that factors the name out (values:name / bins:name / sub:name) the reloaded child is unnamed, and the re-serialised "
                        f"document loses the key", stmt=f"quantity name never taken from {nfp}")


def ambiguous_encodings(repo, rep, prims):
    """R4.15: a value whose fill-time normalisation branches on a stored tag (Bag: `range` - strings are kept for "S", numbers go
    through floatOrNan otherwise) is written by one encoder for all tags; the JSON strings 'nan'/'inf'/'-inf' are therefore ambiguous
    (a category label, or an encoded number).  The reader's decoding of such a value must be decided under the document's tag."""
    r15 = rep.rule("R4.15", "the string encodings 'nan'/'inf'/'-inf' of a tagged value are decoded under the tag that disambiguates them", floor=1)
    for c in prims:
        upd = [f for f in c.methods.values() if f.name in ("_update", "fill")]
        tag = None
        for f in upd:
            sn = f.params[0]
            for n in walk_local_stmt(f.node):
                if not (isinstance(n, ast.If) and isinstance(n.test, ast.Compare) and len(n.test.ops) == 1 and isinstance(n.test.ops[0], ast.Eq)):
                    continue
                sides = [n.test.left, n.test.comparators[0]]
                attr_side = next((x for x in sides if isinstance(x, ast.Attribute) and isinstance(x.value, ast.Name) and x.value.id == sn), None)
                const_side = next((x for x in sides if isinstance(x, ast.Constant) and isinstance(x.value, str)), None)
                if attr_side is not None and const_side is not None:
                    keeps_str = any(isinstance(x, ast.Call) and isinstance(x.func, ast.Name) and x.func.id == "isinstance" and "basestring" in ast.unparse(x) or
                                    (isinstance(x, ast.Call) and isinstance(x.func, ast.Name) and x.func.id == "isinstance" and "str" in ast.unparse(x.args[1]))
                                    for b in n.body for x in ast.walk(b))
                    converts = any(isinstance(x, ast.Call) and (call_name(x) or "").split(".")[-1] in ("floatOrNan", "float") for b in n.orelse for x in ast.walk(b))
                    if keeps_str and converts:
                        tag = attr_side.attr
        if tag is None:
            continue
        rd = repo.own_method(c, "fromJsonFragment")
        rep.analysed_functions.add(rd.construct)
        g = cfgmod.build(rd.node)
        tcd = g.transitive_control_deps()
        carriers = set()
        for n in walk_local_stmt(rd.node):
            if isinstance(n, ast.Assign) and any(isinstance(x, ast.Subscript) and isinstance(x.slice, ast.Constant) and x.slice.value == tag for x in ast.walk(n.value)):
                carriers |= {t.id for t in n.targets if isinstance(t, ast.Name)}

        def is_tag(x):
            while isinstance(x, ast.Subscript) and not (isinstance(x.slice, ast.Constant) and x.slice.value == tag):
                x = x.value         # range[0]
            return (isinstance(x, ast.Subscript) and isinstance(x.slice, ast.Constant) and x.slice.value == tag) or (isinstance(x, ast.Name) and x.id in carriers)

        def mentions_tag(e):
            """a test of the tag's VALUE (== / != / in against string constants, startswith), not its mere type validation"""
            for x in ast.walk(e):
                if isinstance(x, ast.Compare) and len(x.ops) == 1 and isinstance(x.ops[0], (ast.Eq, ast.NotEq, ast.In, ast.NotIn)):
                    sides = [x.left, x.comparators[0]]
                    if any(is_tag(sd) for sd in sides) and any(isinstance(sd, (ast.Constant, ast.Tuple, ast.List, ast.Set)) for sd in sides):
                        return True
                if isinstance(x, ast.Call) and isinstance(x.func, ast.Attribute) and x.func.attr in ("startswith", "endswith") and is_tag(x.func.value):
                    return True
            return False

        def is_enc_test(e):
            """`<elem>["v"] in ("nan", "inf", "-inf")` on a scalar element value (not the weights)"""
            for x in ast.walk(e):
                if isinstance(x, ast.Compare) and len(x.ops) == 1 and isinstance(x.ops[0], ast.In) and isinstance(x.comparators[0], (ast.Tuple, ast.List, ast.Set)):
                    vals = [getattr(k, "value", None) for k in x.comparators[0].elts]
                    if "nan" in vals and isinstance(x.left, ast.Subscript) and isinstance(x.left.slice, ast.Constant) and x.left.slice.value == "v":
                        return True
            return False

        n_sites = 0
        for nd in g.nodes:
            if nd.kind != "test" or not is_enc_test(nd.ast):
                continue
            # only where the accepted value is then converted to a number
            n_sites += 1
            ctl = [g.nodes[x[0]] for x in tcd.get(nd.id, set())]
            ok = mentions_tag(nd.ast) or any(t.ast is not None and isinstance(t.ast, ast.expr) and mentions_tag(t.ast) for t in ctl)
            r15.ob(ok, f"{c.name}.fromJsonFragment: `{norm(nd.ast)[:60]}` decided under the document's `{tag}`")
            if not ok:
                rep.finding("R4.15", rd, nd.stmt, f"`{norm(nd.ast)[:70]}` turns the strings 'nan'/'inf'/'-inf' into numbers whatever the document's `{tag}` says, "
                            f"while fill keeps strings as they are for `{tag}` == \"S\": a Bag of strings that has seen the label \"nan\" (or \"inf\") reloads with "
                            f"a float key among its strings - it is not equal to the original and toJson of the reloaded Bag raises TypeError (str vs float in sorted)",
                            stmt=f"'nan'/'inf' strings decoded without looking at {tag}")
        if n_sites == 0:
            raise AnalysisError(f"{c.name}.fromJsonFragment: the decoding test of the tagged values was not found")


def factored_name_retained(repo, rep, prims, models):
    """R4.16: a container whose children come from a template writes the children's common quantity name as `bins:name` taken from the
    TEMPLATE, i.e. also while it has no children.  The reader hands the key to the child readers only - with no children it goes
    nowhere - unless it also keeps it in the result (ed() argument or a store on the result)."""
    r16 = rep.rule("R4.16", "a factored-out child name the writer can emit without children is retained by the reader without children", floor=2)
    for c in prims:
        m = models[c.name]
        if not m.template:
            continue
        wf = repo.own_method(c, "toJsonFragment")
        rd = repo.own_method(c, "fromJsonFragment")
        sn = wf.params[0]
        # does the writer derive a ":name" value from the template?
        from_template = any(isinstance(x, ast.Attribute) and x.attr == "name" and any(
            isinstance(y, ast.Attribute) and isinstance(y.value, ast.Name) and y.value.id == sn and y.attr == m.template for y in ast.walk(x)) for x in ast.walk(wf.node))
        keys = sorted({k.value for k in ast.walk(rd.node) if isinstance(k, ast.Constant) and isinstance(k.value, str) and k.value.endswith(":name") and "." not in k.value})
        if not from_template or not keys:
            continue
        rep.analysed_functions.add(rd.construct)
        def outside_child_readers(e):
            """nodes of e that are not inside the arguments of a child reader call (what goes there is consumed by the child)"""
            if isinstance(e, ast.Call) and isinstance(e.func, ast.Attribute) and e.func.attr == "fromJsonFragment":
                return
            yield e
            for ch in ast.iter_child_nodes(e):
                yield from outside_child_readers(ch)

        for key in keys:
            carriers = set()
            changed = True
            while changed:
                changed = False
                for n in walk_local_stmt(rd.node):
                    if isinstance(n, ast.Assign) and any((isinstance(x, ast.Constant) and x.value == key) or (isinstance(x, ast.Name) and x.id in carriers) for x in outside_child_readers(n.value)):
                        for t in n.targets:
                            if isinstance(t, ast.Name) and t.id not in carriers:
                                carriers.add(t.id)
                                changed = True
            kept = None
            for n in walk_local_stmt(rd.node):
                if isinstance(n, ast.Call) and isinstance(n.func, ast.Attribute) and n.func.attr == "ed" and any(
                        isinstance(x, ast.Name) and x.id in carriers for a0 in list(n.args) + [kw.value for kw in n.keywords] for x in ast.walk(a0)):
                    kept = n
                if isinstance(n, ast.Assign) and any(isinstance(t, ast.Attribute) and not (isinstance(t.value, ast.Attribute)) for t in n.targets) and any(
                        isinstance(x, ast.Name) and x.id in carriers for x in ast.walk(n.value)):
                    kept = n
            r16.ob(kept is not None, f"{c.name}.fromJsonFragment: `{key}` kept in the result")
            if kept is None:
                rep.finding("R4.16", rd, rd.node, f"the writer takes `{key}` from the template `{sn}.{m.template}`, so an EMPTY {c.name} with a named sub-aggregator writes it; the "
                            f"reader passes it to the child readers only and keeps it nowhere: reloaded while empty, the container has lost the name "
                            f"and re-serialises without `{key}` (the document is not a fixpoint)", stmt=f"{key} dropped by the reader when there are no children")


def run(repo, rep, tier):
    rep.extra["explanation"] = (
        "Agreement analysis between each toJsonFragment (writer) and fromJsonFragment -> ed -> __init__ (reader) of the 19 "
        "primitives: (R4.1) same mandatory/optional key sets at every level, and every key round-trips to the field it "
        "was written from (def-use through ed's parameters and constructor summaries; inverse formula pairs compared "
        "as rational functions); (R4.2) where the reader accepts the encodings 'nan'/'inf'/'-inf' the writer applies the "
        "encoder and vice versa; (R4.3) every child fragment is rebuilt by the factory looked up under the type tag "
        "written for the same slot, and suppressed child names are paired with a :name key passed as nameFromParent; "
        "(R4.4) header keys, registry names and the `name` of every specialised subclass; (R4.5) typestate over the two "
        "construction modes: fields that only ed() establishes survive zero/+/* of a reloaded container, and no slot is "
        "left None; (R4.6) no JSON-derived dict is splatted into a callee with named parameters; (R4.7) in every _numpy the value "
        "stored into a serialised number field is not a raw numpy reduction/element (json.dumps rejects numpy integer and "
        "float32 scalars): it passes through float()/int(). Decides the agreement "
        "of the two code paths, not the bit-exact float text."
    )
    rep.extra["explanation"] += " " + (
        "Later additions: (R4.7) numbers stored into serialised fields by _numpy pass through float()/int(); (R4.8) Bag's reader normalises numeric keys like the filling path; (R4.9) shared rule of C06: names read from JSON are written onto a function object of the container's own."
    )
    rep.not_decided += [
        "bit-exact float text round trip (Python's json)", "equality of reloaded content for arbitrary states",
        "names of children of empty reloaded sparse containers (no object carries them)",
    ]
    prims, reg = primitives(repo)
    models = build_models(repo)
    r1 = rep.rule("R4.1", "writer and reader agree on key sets and every key round-trips to its field", floor=100)
    r2 = rep.rule("R4.2", "float-valued keys: encoder applied <=> string encodings accepted", floor=40)
    r3 = rep.rule("R4.3", "children are rebuilt by the factory of their own type tag; name suppression is paired", floor=25)
    r4 = rep.rule("R4.4", "header keys, registry names, specialised `name` properties", floor=19 + 15)
    r5 = rep.rule("R4.5", "fields established only by ed() survive zero/+/*; no slot is left None in reloaded form", floor=40)
    r6 = rep.rule("R4.6", "no JSON-derived dict is splatted into named parameters", floor=3)
    r8 = rep.rule("R4.8", "Bag: numeric keys are normalised by the same function (floatOrNan) in fill/_update and in the JSON reader", floor=3)
    bag_key_rule(repo, rep, r8)
    # the reloaded container's quantity name is written onto its own, fresh function object (never onto a shared default)
    rep.borrow(repo, "C06", {"R6.5": ("R4.9", "the name read from JSON is written onto a function object created for this container alone", 14)})
    integer_key_rule(repo, rep, prims)
    ed_accepts_reachable_states(repo, rep, prims, models)
    attribute_probe_rule(repo, rep, prims)
    r7 = rep.rule("R4.7", "numbers written into serialised fields by _numpy are Python floats (float()/int() applied to numpy reductions)", floor=20)
    for c in prims:
        numpy_scalar_rule(repo, rep, r7, c, models[c.name])
    for c in prims:
        m = models[c.name]
        wf, wft, wkeys, scalar = writer_keys(repo, c, m)
        rep.analysed_functions.add(wf.construct)
        rm = ReaderModel(repo, c, m)
        rep.analysed_functions.add(rm.f.construct)
        if scalar is not None:
            # Count: the fragment is the encoded number itself
            enc = isinstance(scalar, ast.Call) and (call_name(scalar) or "").split(".")[-1] in ENCODERS
            r2.ob(enc, f"{c.name}: scalar fragment encoded")
            if not enc:
                rep.finding("R4.2", wf, scalar, "the scalar fragment is not passed through floatToJson: a non-finite count is "
                            "emitted as a bare NaN/Infinity token", stmt="scalar fragment not encoded")
            continue
        # ---------------- R4.1 key sets per level
        levels = sorted({wk.level for wk in wkeys} | set(rm.gates))
        for lvl in levels:
            wreq = [wk.key for wk in wkeys if wk.level == lvl and not wk.optional]
            wopt = [wk.key for wk in wkeys if wk.level == lvl and wk.optional]
            if lvl not in rm.gates:
                # element dicts without their own gate: data-keyed maps (SparselyBin.bins) have no fixed keys
                if wreq or wopt:
                    r1.ob(False)
                    rep.finding("R4.1", rm.f, rm.f.node, f"the writer emits an object with keys {wreq + wopt} at `{lvl}` but the reader "
                                f"has no hasKeys gate for it", stmt=f"no gate at {lvl or 'top'}")
                continue
            req, opt = rm.gates[lvl]
            for k in sorted(set(wreq) | set(req)):
                ok = k in wreq and k in req
                r1.ob(ok, f"{c.name}: mandatory key `{lvl}{k}` written and required")
                if not ok:
                    if k in wreq:
                        rep.finding("R4.1", rm.f, rm.f.node, f"the writer always emits `{lvl}{k}` but the reader does not require it "
                                    f"({'optional' if k in opt else 'not admitted: every written document is rejected'})",
                                    stmt=f"key {lvl}{k}: written, not required")
                    else:
                        rep.finding("R4.1", wf, wf.node, f"the reader requires `{lvl}{k}` but the writer does not always emit it "
                                    f"({'only when not None' if k in wopt else 'never'}): documents produced by toJson are rejected",
                                    stmt=f"key {lvl}{k}: required, not written")
            for k in sorted(set(wopt) | set(opt)):
                if k in wreq or k in req:
                    continue
                ok = k in wopt and k in opt
                r1.ob(ok, f"{c.name}: optional key `{lvl}{k}` on both sides")
                if not ok:
                    who = "writer" if k in wopt else "reader"
                    rep.finding("R4.1", wf if who == "writer" else rm.f, (wf if who == "writer" else rm.f).node,
                                f"optional key `{lvl}{k}` is known to the {who} only", stmt=f"key {lvl}{k}: {who} only")
        # ---------------- R4.1 round trip of each data key to its field
        try:
            fkeys, edcall, ed, edenv, edexprs = rm.field_keys(m)
        except AnalysisError as e:
            raise
        rep.analysed_functions.add(ed.construct)
        for wk in wkeys:
            if wk.key.endswith(":type") or wk.key.endswith(":name") or wk.key in ("name", "type"):
                continue
            wfields = {f2 for (p, f2, fv, z) in wk.labels}
            if not wfields:
                continue
            rfields = {fld for fld, kps in fkeys.items() if any(matches(kp, wk.path) for kp in kps)}
            ok = bool(wfields & rfields)
            r1.ob(ok, f"{c.name}: key `{wk.path}` written from {sorted(wfields)} is read back into {sorted(rfields)}")
            if not ok:
                rep.finding("R4.1", rm.f, edcall, f"key `{wk.path}` is written from field(s) {sorted(wfields)} but the reader stores it into "
                            f"{sorted(rfields) or 'no field'}: the reloaded container differs from the original",
                            stmt=f"key {wk.path}: {sorted(wfields)} -> {sorted(rfields)}")
        inverse_pairs(repo, rep, r1, c, m, wf, wkeys, ed)
        # ---------------- R4.2
        for kp, (missing, nd) in sorted(getattr(rm, "partial_nanstr", {}).items()):
            r2.ob(False)
            rep.finding("R4.2", rm.f, nd, f"the reader admits only part of the string encodings for `{kp}` (`{ast.unparse(nd)[:60]}`): {missing} is what floatToJson writes for "
                        f"that non-finite value, so a document toJson produced for such a state is rejected on reload", stmt=f"key {kp}: encodings {missing} not accepted")
        for wk in wkeys:
            if wk.child_call is not None and not wk.level:
                if not any(w2.level.startswith(wk.key + "[]") for w2 in wkeys):
                    continue
            acc = any(npath(a) == npath(wk.path) or npath(a).startswith(npath(wk.path) + ".") and False for a in rm.accepts_nanstr)
            is_float_key = acc or (wk.encoded and not any(w2.level.startswith(wk.key + "[]") for w2 in wkeys))
            if not is_float_key:
                continue
            ok = acc and wk.encoded
            r2.ob(ok, f"{c.name}: key `{wk.path}` encoder={'yes' if wk.encoded else 'no'} reader accepts encodings={'yes' if acc else 'no'}")
            if acc and not wk.encoded:
                rep.finding("R4.2", wf, wk.expr, f"the reader accepts 'nan'/'inf'/'-inf' for `{wk.path}` but the writer emits the raw "
                            f"number: a non-finite value produces a document that json.dumps(allow_nan=False) rejects",
                            stmt=f"key {wk.path}: not encoded")
            elif wk.encoded and not acc:
                rep.finding("R4.2", rm.f, rm.f.node, f"the writer encodes `{wk.path}` with floatToJson but the reader does not accept the "
                            f"string encodings: a document with a non-finite `{wk.key}` cannot be reloaded",
                            stmt=f"key {wk.path}: encodings not accepted")
        # what the reader hands on must be decoded: a raw (possibly string) value passed to ed() for a float key
        for p, e in edexprs.items():
            kps = rm.K(e, rm.env)
            for kp in kps:
                if kp in rm.accepts_nanstr and (isinstance(e, ast.Name) or rm.keypath(e) == kp):
                    # find the assignment(s) of that local: must be float(json[k])
                    decoded = rm.keypath(e) != kp          # the raw read itself handed on
                    for n in walk_local_stmt(rm.f.node):
                        if isinstance(e, ast.Name) and isinstance(n, ast.Assign) and any(isinstance(t, ast.Name) and t.id == e.id for t in n.targets):
                            v = n.value
                            if rm.keypath(v) == kp:
                                decoded = False
                    edp = repo.method(c, "ed")
                    # Bag passes entries raw but ed() converts with float(); accept if ed() wraps every use in float()
                    if not decoded and not _ed_floats(ed, p):
                        r2.ob(False)
                        rep.finding("R4.2", rm.f, e, f"`{kp}` may be the string 'nan'/'inf'/'-inf' (the reader admits it) but is handed "
                                    f"to ed({p}=...) undecoded, where the numeric validation rejects it or the raw string becomes the object's state (entries == 'inf': the reloaded object fails in + and *)", stmt=f"key {kp}: not decoded")
                    else:
                        r2.ob(True, f"{c.name}: `{kp}` decoded before use")
        # ---------------- R4.3
        tags_and_names(repo, rep, r3, c, m, wf, wkeys, rm)
        # ---------------- R4.5
        mode_preservation(repo, rep, r5, c, m, repo.method(c, "ed"))
        # ---------------- R4.6
        for n in walk_local_stmt(rm.f.node):
            if isinstance(n, ast.Call):
                # JSON-keyed dicts handed over as ordinary arguments (the safe way) are counted as discharged instances
                for arg in list(n.args) + [kw.value for kw in n.keywords if kw.arg is not None]:
                    if isinstance(arg, (ast.Name, ast.DictComp)) and _dict_keyed_by_json(rm, arg):
                        r6.ob(True, f"{c.name}.fromJsonFragment: JSON-keyed dict `{ast.unparse(arg)}` passed as an ordinary argument "
                                    f"to {ast.unparse(n.func)}")
                for kw in n.keywords:
                    if kw.arg is None:
                        kps = rm.K(kw.value, rm.env)
                        from_keys = any("{keys}" in kp for kp in kps) or _dict_keyed_by_json(rm, kw.value)
                        callee = None
                        if isinstance(n.func, ast.Attribute) and isinstance(n.func.value, ast.Name):
                            k = repo.resolve_name(rm.f.module, n.func.value.id)
                            if isinstance(k, ClassInfo):
                                callee = repo.method(k, n.func.attr, required=False)
                        named = []
                        if callee is not None:
                            a = callee.node.args
                            named = [p.arg for p in a.args + a.kwonlyargs]
                            if not callee.is_static and named:
                                named = named[1:]
                        ok = not (from_keys and named)
                        r6.ob(ok, f"{c.name}.fromJsonFragment: `**{ast.unparse(kw.value)}` into {ast.unparse(n.func)}({', '.join(named)})")
                        if not ok:
                            rep.finding("R4.6", rm.f, n, f"the dict `{ast.unparse(kw.value)}` has keys taken from the JSON document and is "
                                        f"splatted into `{ast.unparse(n.func)}`, which has the named parameters {named}: a label/category "
                                        f"with one of these names makes fromJson reject (or mis-bind) a document that toJson produced",
                                        stmt=f"**{ast.unparse(kw.value)} into {ast.unparse(n.func)}")
    type_tags_from_name(repo, rep, prims)
    name_from_parent_used(repo, rep, prims)
    ambiguous_encodings(repo, rep, prims)
    factored_name_retained(repo, rep, prims, build_models(repo))
    registry_rules(repo, rep, r4, prims, reg)


def _ed_floats(ed, p):
    # ed() itself admits the string encodings for this parameter
    for n in ast.walk(ed.node):
        if isinstance(n, ast.Compare) and len(n.ops) == 1 and isinstance(n.ops[0], (ast.In, ast.NotIn)) and isinstance(
                n.left, ast.Name) and n.left.id == p and isinstance(n.comparators[0], (ast.Tuple, ast.List)):
            vals = [e.value for e in n.comparators[0].elts if isinstance(e, ast.Constant)]
            if vals and set(vals) <= {"nan", "inf", "-inf"}:
                # ... then the value it stores must be the converted one
                for st in ast.walk(ed.node):
                    if isinstance(st, ast.Assign) and isinstance(st.value, ast.Name) and st.value.id == p and any(isinstance(t, ast.Attribute) for t in st.targets):
                        return False
                return True
    uses = [n for n in ast.walk(ed.node) if isinstance(n, ast.Name) and n.id == p and isinstance(n.ctx, ast.Load)]
    pm = {}
    for n in ast.walk(ed.node):
        for ch in ast.iter_child_nodes(n):
            pm[ch] = n
    stored = False
    for u in uses:
        par = pm.get(u)
        # stored into the object / passed to the constructor un-floated?
        if isinstance(par, ast.Call) and isinstance(par.func, ast.Name) and par.func.id == "float":
            continue
        if isinstance(par, ast.Call) and isinstance(par.func, ast.Name) and par.func.id == "isinstance":
            # validation that rejects strings
            stored = True
        if isinstance(par, ast.Assign) and par.value is u and any(isinstance(t, ast.Attribute) for t in par.targets):
            # `out.entries = entries`: the raw (possibly string) value becomes the object's state
            stored = True
    return not stored


def _dict_keyed_by_json(rm, e):
    if isinstance(e, ast.Name):
        for n in walk_local_stmt(rm.f.node):
            if isinstance(n, ast.Assign) and any(isinstance(t, ast.Name) and t.id == e.id for t in n.targets):
                if isinstance(n.value, ast.DictComp):
                    return any("{keys}" in kp for kp in rm.K(n.value.key, rm.env)) or bool(rm.K(n.value.key, rm.env))
            if isinstance(n, ast.Assign):
                for t in n.targets:
                    if isinstance(t, ast.Subscript) and isinstance(t.value, ast.Name) and t.value.id == e.id:
                        if rm.K(t.slice, rm.env):
                            return True
    if isinstance(e, ast.DictComp):
        return bool(rm.K(e.key, rm.env))
    return False


def inverse_pairs(repo, rep, r1, c, m, wf, wkeys, ed):
    """A key written through an arithmetic property and read back through arithmetic in ed(): the composition is the identity."""
    sn = wf.params[0]
    for wk in wkeys:
        e = wk.expr
        inner = e.args[0] if isinstance(e, ast.Call) and e.args and (call_name(e) or "").split(".")[-1] in ENCODERS else e
        if not (isinstance(inner, ast.Attribute) and isinstance(inner.value, ast.Name) and inner.value.id == sn):
            continue
        prop = repo.lookup(c, inner.attr)
        if not (isinstance(prop, FuncInfo) and prop.is_property):
            continue
        # generic (non-empty) branch of the property: last return
        rets = [n.value for n in walk_local_stmt(prop.node) if isinstance(n, ast.Return) and n.value is not None]
        arith = [r for r in rets if isinstance(r, ast.BinOp)]
        if not arith:
            continue
        psn = prop.params[0]
        try:
            written = formula(arith[-1], {})
        except Unsupported:
            continue
        written = written.rename({s: s.replace(psn + ".", "F.") for s in written.symbols()})
        # ed(): the store whose value mentions the ed parameter bound to this key (same name as the key by convention of the call)
        for n in walk_local_stmt(ed.node):
            if isinstance(n, ast.Assign) and len(n.targets) == 1 and isinstance(n.targets[0], ast.Attribute):
                names = {x.id for x in ast.walk(n.value) if isinstance(x, ast.Name)}
                if wk.key in names:
                    fld = n.targets[0].attr
                    try:
                        back = formula(n.value, {})
                    except Unsupported:
                        continue
                    # substitute key := written formula ; other ed parameters named like fields := F.<field>
                    sub = {wk.key: written}
                    for s in back.symbols():
                        if s != wk.key:
                            sub[s] = Rat.sym("F." + s)
                    comp = back.subst(sub)
                    ok = comp.equals(Rat.sym("F." + fld))
                    r1.ob(ok, f"{c.name}: `{wk.key}` = {written!r} read back as {fld} = {back!r} is the identity")
                    if not ok:
                        rep.finding("R4.1", ed, n, f"`{wk.key}` is written as {written!r} but ed() reconstructs `{fld}` as {back!r}: the "
                                    f"composition gives {comp!r}, not `{fld}`", stmt=f"inverse pair {wk.key}/{fld}")


def tags_and_names(repo, rep, r3, c, m, wf, wkeys, rm):
    init = repo.own_method(c, "__init__")
    # same-typed slots: built from the same constructor parameter
    same = {}
    for s in m.slots:
        for rhs in m.init_fields.get(s, []):
            for n in ast.walk(rhs):
                if isinstance(n, ast.Name) and n.id in init.params:
                    same.setdefault(n.id, set()).add(s)
    groups = [g for g in same.values() if len(g) > 1]

    def same_typed(a, b):
        return bool(a & b) or any(a & g and b & g for g in groups)

    by_path = {npath(w.path): w for w in wkeys}
    for n in walk_local_stmt(rm.f.node):
        if not (isinstance(n, ast.Call) and isinstance(n.func, ast.Attribute) and n.func.attr == "fromJsonFragment"):
            continue
        fac_keys = {npath(k) for k in rm.K(n.func.value, rm.env)}
        data_keys = {npath(k) for k in (rm.K(n.args[0], rm.env) if n.args else set())}
        dws = [by_path[k] for k in data_keys if k in by_path and by_path[k].child_call is not None]
        if not dws:
            continue
        dw = dws[0]
        dslots = {f2 for (p, f2, fv, z) in dw.labels}
        tws = [by_path[k] for k in fac_keys if k in by_path]
        ok = bool(tws) and any(same_typed({f2 for (p, f2, fv, z) in tw.labels} & set(m.slots + ([m.template] if m.template else [])) or
                                          {f2 for (p, f2, fv, z) in tw.labels}, dslots) for tw in tws)
        r3.ob(ok, f"{c.name}: child under `{dw.path}` rebuilt by the factory of tag {sorted(fac_keys)}")
        if not ok:
            rep.finding("R4.3", rm.f, n, f"the child fragment `{dw.path}` (slot {sorted(dslots)}) is rebuilt with the factory looked up "
                        f"under {sorted(fac_keys) or 'no type tag'}, which the writer fills from another slot: a tree whose slots hold "
                        f"different primitive types reloads with the wrong class", stmt=f"factory of {dw.path}")
        # names
        name_arg = n.args[1] if len(n.args) > 1 else None
        if dw.suppress is True:
            nk = {npath(k) for k in rm.K(name_arg, rm.env)} if name_arg is not None else set()
            nws = [by_path[k] for k in nk if k in by_path and k.endswith(":name")]
            ok = bool(nws) and any(same_typed({f2 for (p, f2, fv, z) in w.labels} & set(m.slots + ([m.template] if m.template else [])) or
                                              {f2 for (p, f2, fv, z) in w.labels}, dslots) for w in nws)
            r3.ob(ok, f"{c.name}: `{dw.path}` written with the child's name suppressed; name restored from {sorted(nk)}")
            if not ok:
                rep.finding("R4.3", rm.f, n, f"children under `{dw.path}` are written without their quantity name (suppressName=True) "
                            f"but the reader does not pass the matching `:name` key as nameFromParent: reloaded children lose "
                            f"their names", stmt=f"name of {dw.path}")
        elif dw.suppress is False:
            ok = name_arg is None or (isinstance(name_arg, ast.Constant) and name_arg.value is None)
            r3.ob(ok, f"{c.name}: `{dw.path}` written with its own name; reader passes None")
            if not ok:
                rep.finding("R4.3", rm.f, n, f"`{dw.path}` carries its own name but the reader overrides it with `{ast.unparse(name_arg)}`",
                            stmt=f"name override of {dw.path}")
        else:
            # the writer decides at run time whether the child's name is written (e.g. forwards its own suppressName), but the
            # reader's choice (a `:name` key or None) is fixed: one of the two cases loses or overrides the name
            cc = getattr(dw, "child_call", None)
            arg = cc.args[0] if cc is not None and cc.args else None
            ok = arg is None
            r3.ob(ok, f"{c.name}: `{dw.path}`: name suppression of the child is a constant")
            if not ok:
                wf = repo.own_method(c, "toJsonFragment")
                rep.finding("R4.3", wf, cc, f"the child under `{dw.path}` is written with suppressName=`{ast.unparse(arg)}` (not a constant), but the "
                            f"reader always passes `{ast.unparse(name_arg) if name_arg is not None else 'nothing'}` as nameFromParent: when the "
                            f"argument is true the child's quantity name is dropped from the document and never restored",
                            stmt=f"name suppression of {dw.path} not constant")


def registry_rules(repo, rep, r4, prims, reg):
    # Factory.register stores under factory.__name__
    fac = repo.cls("Factory", "histogrammar.defs")
    regf = repo.own_method(fac, "register")
    ok = any(isinstance(n, ast.Assign) and isinstance(n.targets[0], ast.Subscript) and ast.unparse(n.targets[0].slice).endswith("__name__")
             for n in walk_local_stmt(regf.node))
    r4.ob(ok, "Factory.register keys the registry by class __name__")
    if not ok:
        rep.finding("R4.4", regf, regf.node, "Factory.register does not key the registry by the class name", stmt="registry key")
    cont = repo.cls("Container", "histogrammar.defs")
    nm = repo.lookup(cont, "name")
    okn = isinstance(nm, FuncInfo) and any(isinstance(n, ast.Return) and ast.unparse(n.value).endswith("__class__.__name__")
                                           for n in walk_local_stmt(nm.node))
    r4.ob(okn, "Container.name is the class name")
    if not okn:
        rep.finding("R4.4", nm if isinstance(nm, FuncInfo) else "histogrammar/defs.py::Container.name", None,
                    "Container.name is not `self.__class__.__name__`", stmt="Container.name")
    for c in prims:
        ok = c.name in reg
        r4.ob(ok, f"{c.name} registered")
        if not ok:
            rep.finding("R4.4", f"{c.module.relpath}::{c.name}", c.node, f"{c.name} is not registered with Factory.register: its documents "
                        f"cannot be read back", stmt=f"{c.name} not registered")
        own = c.methods.get("name")
        if own is not None:
            rets = [n.value for n in walk_local_stmt(own.node) if isinstance(n, ast.Return)]
            ok = all(isinstance(r, ast.Constant) and r.value == c.name for r in rets)
            r4.ob(ok, f"{c.name}.name override")
            if not ok:
                rep.finding("R4.4", own, own.node, f"{c.name}.name does not return '{c.name}'", stmt="name override")
    # specialised subclasses keep the serialised type name of their primitive base
    spec = repo.modules.get("histogrammar.specialized")
    if spec is None:
        raise AnalysisError("histogrammar.specialized not found")
    n_spec = 0
    for k in spec.classes.values():
        base = None
        for x in repo.mro(k)[1:]:
            if x in prims:
                base = x
                break
        if base is None:
            continue
        n_spec += 1
        nm = repo.lookup(k, "name")
        val = None
        if isinstance(nm, FuncInfo):
            rets = [n.value for n in walk_local_stmt(nm.node) if isinstance(n, ast.Return)]
            if len(rets) == 1 and isinstance(rets[0], ast.Constant):
                val = rets[0].value
            elif nm.cls is cont:
                val = k.name  # falls back to the class's own name
        ok = val == base.name and base.name in reg
        r4.ob(ok, f"specialized.{k.name}.name == '{base.name}'")
        if not ok:
            rep.finding("R4.4", nm if isinstance(nm, FuncInfo) else f"{spec.relpath}::{k.name}", k.node,
                        f"{k.name} (a specialisation of {base.name}) serialises its type as '{val}': specialize() changes the "
                        f"document's type, which fromJson cannot resolve to {base.name}", stmt=f"{k.name}.name")
    if n_spec < 15:
        raise AnalysisError(f"only {n_spec} specialised subclasses of primitives found in specialized.py (confirmed: 15)")
    # addImplicitMethods only swaps __class__ to such subclasses
    aim = spec.functions.get("addImplicitMethods")
    if aim is None:
        raise AnalysisError("specialized.addImplicitMethods not found")
    for n in walk_local_stmt(aim.node):
        if isinstance(n, ast.Assign) and isinstance(n.targets[0], ast.Attribute) and n.targets[0].attr == "__class__":
            k = repo.resolve_name(spec, ast.unparse(n.value)) if isinstance(n.value, (ast.Name, ast.Attribute)) else None
            ok = isinstance(k, ClassInfo) and k.module is spec
            r4.ob(ok, f"addImplicitMethods: __class__ = {ast.unparse(n.value)}")
            if not ok:
                rep.finding("R4.4", aim, n, f"__class__ is swapped to `{ast.unparse(n.value)}`, which is not one of the specialised "
                            f"subclasses whose `name` is checked", stmt=f"class swap to {ast.unparse(n.value)}")


# ------------------------------------------------------------------------------------------------ R4.5
def _is_none(e):
    return isinstance(e, ast.Constant) and e.value is None


def ctor_path_fields(init, none_params):
    """Field -> list of value exprs assigned by __init__ on the paths consistent with `P is None` for P in none_params."""
    sn = init.params[0]
    g = cfgmod.build(init.node)
    fields = {}

    def truth(t):
        if isinstance(t, ast.Compare) and len(t.ops) == 1 and isinstance(t.left, ast.Name) and _is_none(t.comparators[0]):
            if t.left.id in none_params:
                return isinstance(t.ops[0], ast.Is)
        if isinstance(t, ast.BoolOp):
            vals = [truth(v) for v in t.values]
            if isinstance(t.op, ast.And):
                if any(v is False for v in vals):
                    return False
                return True if all(v is True for v in vals) else None
            if any(v is True for v in vals):
                return True
            return False if all(v is False for v in vals) else None
        if isinstance(t, ast.UnaryOp) and isinstance(t.op, ast.Not):
            v = truth(t.operand)
            return None if v is None else not v
        return None

    seen = set()
    work = [g.entry.id]
    while work:
        nid = work.pop()
        if nid in seen:
            continue
        seen.add(nid)
        node = g.nodes[nid]
        if node.kind == "stmt" and isinstance(node.ast, ast.Assign):
            for t in node.ast.targets:
                if isinstance(t, ast.Attribute) and isinstance(t.value, ast.Name) and t.value.id == sn:
                    fields.setdefault(t.attr, []).append(node.ast.value)
        if node.kind == "test":
            v = truth(node.ast)
            for lab, s in node.succ:
                if v is None or (v and lab == "T") or (not v and lab == "F") or lab not in ("T", "F"):
                    work.append(s)
        else:
            for lab, s in node.succ:
                if lab not in ("exc", "raise"):
                    work.append(s)
    return fields


def mode_preservation(repo, rep, r5, c, m, ed):
    init = repo.own_method(c, "__init__")
    # ---- what ed() does: constructor call with None parameters, then patches
    ctor = None
    outvar = None
    for n in walk_local_stmt(ed.node):
        if isinstance(n, ast.Assign) and isinstance(n.value, ast.Call) and isinstance(n.value.func, ast.Name):
            k = repo.resolve_name(ed.module, n.value.func.id)
            if k is c and isinstance(n.targets[0], ast.Name):
                ctor, outvar = n.value, n.targets[0].id
    if ctor is None:
        raise AnalysisError(f"{ed.construct}: constructor call `out = {c.name}(...)` not found")
    exprs = bind_call_exprs(init, ctor)
    ed_none = {p for p, e in exprs.items() if _is_none(e)}
    # constructor defaults that are None-like do not count; parameters not passed keep their defaults
    ed_fields = ctor_path_fields(init, ed_none)
    ed_patched = set()
    for n in walk_local_stmt(ed.node):
        if isinstance(n, ast.Assign):
            for t in n.targets:
                if isinstance(t, ast.Attribute) and isinstance(t.value, ast.Name) and t.value.id == outvar:
                    ed_patched.add(t.attr)
                if isinstance(t, ast.Attribute) and isinstance(t.value, ast.Attribute) and isinstance(t.value.value, ast.Name) and \
                        t.value.value.id == outvar:
                    pass

    def none_like(vals, none_params):
        """every assigned value is None or a bare None-parameter"""
        return bool(vals) and all(_is_none(v) or (isinstance(v, ast.Name) and v.id in none_params) for v in vals)

    N = {f for f, vals in ed_fields.items() if none_like(vals, ed_none) and f not in ed_patched and f not in USERFCN_FIELDS}
    unset = {s for s in m.slots if s not in ed_fields and s not in ed_patched}
    if unset:
        r5.ob(False)
        rep.finding("R4.5", ed, ed.node, f"ed() never establishes the slot(s) {sorted(unset)}", stmt=f"ed leaves {sorted(unset)} unset")
    structural_patched = {f for f in ed_patched if f not in m.acc and f not in m.slots}
    for bname in BUILDERS:
        b = repo.own_method(c, bname)
        status = builder_in_ed_mode(repo, c, m, b, init, N, structural_patched)
        for fld, (ok, why, node) in sorted(status.items()):
            r5.ob(ok, f"{c.name}.{bname} on a reloaded container: `{fld}` {'kept' if ok else why}")
            if not ok:
                rep.finding("R4.5", b, node or b.node,
                            f"on a container reloaded from JSON (ed mode: {sorted(ed_none)} are None), `{fld}` of the result {why}: the "
                            f"reloaded container is not interchangeable with the original under {bname}",
                            stmt=f"{fld} in ed mode")


def ed_none_expr(e, selfname, N):
    """Is the expression None when the receiver is in ed mode (fields in N are None)?"""
    if _is_none(e):
        return True
    if isinstance(e, ast.Attribute) and isinstance(e.value, ast.Name) and e.value.id == selfname and e.attr in N:
        return True
    if isinstance(e, ast.IfExp):
        t = e.test
        if isinstance(t, ast.Compare) and len(t.ops) == 1 and _is_none(t.comparators[0]) and isinstance(t.left, ast.Attribute) and \
                isinstance(t.left.value, ast.Name) and t.left.value.id == selfname and t.left.attr in N:
            branch = e.body if isinstance(t.ops[0], ast.Is) else e.orelse
            return ed_none_expr(branch, selfname, N)
    return False


def builder_in_ed_mode(repo, c, m, b, init, N, structural_patched, _depth=0):
    """field -> (ok, why, node) for slots and ed-established structural fields of the object b returns in ed mode."""
    sn = b.params[0]
    status = {}
    ctor = None
    outvar = None
    via_zero = None
    for n in walk_local_stmt(b.node):
        call = None
        tgt = None
        if isinstance(n, ast.Assign) and isinstance(n.value, ast.Call) and isinstance(n.targets[0], ast.Name):
            call, tgt = n.value, n.targets[0].id
        elif isinstance(n, ast.Return) and isinstance(n.value, ast.Call):
            call = n.value
            while isinstance(call, ast.Call) and isinstance(call.func, ast.Attribute) and call.func.attr == "specialize":
                call = call.func.value
        if isinstance(call, ast.Call):
            if isinstance(call.func, ast.Name) and repo.resolve_name(b.module, call.func.id) is c:
                ctor, outvar = call, tgt or outvar
            elif isinstance(call.func, ast.Attribute) and call.func.attr == "zero" and isinstance(call.func.value, ast.Name) and \
                    call.func.value.id == sn and tgt is not None:
                via_zero, outvar = call, tgt
    patched = {}
    if outvar:
        for n in walk_local_stmt(b.node):
            if isinstance(n, ast.Assign):
                for t in n.targets:
                    base = t
                    while isinstance(base, ast.Subscript):
                        base = base.value
                    if isinstance(base, ast.Attribute) and isinstance(base.value, ast.Name) and base.value.id == outvar and base is t:
                        patched[base.attr] = n
    if ctor is not None:
        exprs = bind_call_exprs(init, ctor)
        none_params = {p for p, e in exprs.items() if ed_none_expr(e, sn, N)}
        fields = ctor_path_fields(init, none_params)
        for s in m.slots:
            vals = fields.get(s, [])
            if s in patched:
                status[s] = (True, "", None)
            elif not vals:
                status[s] = (False, "is never set", ctor)
            elif all(_is_none(v) for v in vals):
                status[s] = (False, "is None (the constructor's value=None mode leaves it unset and nothing patches it)", ctor)
            else:
                status[s] = (True, "", None)
        for f in structural_patched:
            vals = fields.get(f, [])
            if f in patched:
                status[f] = (True, "", None)
            elif vals and all(isinstance(v, ast.Constant) for v in vals):
                status[f] = (False, f"falls back to the constructor default {ast.unparse(vals[0])} (only ed() had set it)", ctor)
            else:
                status[f] = (True, "", None)
    elif via_zero is not None and _depth < 2:
        z = repo.own_method(c, "zero")
        sub = builder_in_ed_mode(repo, c, m, z, init, N, structural_patched, _depth + 1)
        for f, (ok, why, node) in sub.items():
            if f in patched:
                status[f] = (True, "", None)
            else:
                status[f] = (ok, why + " (inherited from self.zero())" if not ok else "", patched.get(f) or via_zero)
    else:
        raise AnalysisError(f"{b.construct}: neither a constructor call nor self.zero() builds the result")
    return status
