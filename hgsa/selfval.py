"""Self-validation of the rules (thorough tier): scratch variants of the current tree, in memory.

Each MUTANT is one realistic broken instance (still a valid program: it is compiled with compile()); the property's
rules must report it, naming the construct.  Each NEUTRAL twin is a behaviour-preserving rewrite on which the rules
must stay silent.  Variants are built by substituting a snippet of /repo's *current* source (if the snippet is no
longer present the variant is skipped and reported as such - it never fails the run).  Nothing is written to /repo.
"""

import importlib
import os
from concurrent.futures import ProcessPoolExecutor

from .loader import AnalysisError, Repo
from .report import Report

P = "histogrammar/primitives/"
PL = "histogrammar/plot/matplotlib.py"
# (property, kind, relpath, old, new, note)
VARIANTS = [
    # ---------------- C01
    ("C01", "mutant", P + "bin.py", "self.nanflow + other.nanflow,", "self.nanflow.copy(),", "forgot other.nanflow in the merge"),
    ("C01", "mutant", P + "deviate.py", "+ other.entries * other.mean * other.mean", "+ other.entries * self.mean * other.mean", "asymmetric variance merge"),
    ("C01", "mutant", P + "categorize.py", "for k in self.keySet.union(other.keySet):\n                if k in self.bins and k in other.bins:\n                    out.bins[k] = self.bins[k] + other.bins[k]",
     "for k in self.keySet:\n                if k in self.bins and k in other.bins:\n                    out.bins[k] = self.bins[k] + other.bins[k]", "right-only categories dropped by +"),
    ("C01", "mutant", P + "bin.py", "            self.low,\n            self.high,\n            self.quantity,\n            self.values[0].zero(),", "            self.low,\n            self.low + 1.0,\n            self.quantity,\n            self.values[0].zero(),", "zero() changes high"),
    ("C01", "mutant", P + "average.py", "shift = delta * weight / self.entries", "shift = delta / self.entries", "fill ignores the weight in the mean update"),
    ("C01", "mutant", "histogrammar/util.py", "    if math.isnan(x):\n        return y\n    if math.isnan(y) or x < y:\n        return x\n    return y", "    if math.isnan(x):\n        return x\n    if math.isnan(y) or x < y:\n        return x\n    return y", "minplus: NaN no longer missing"),
    ("C01", "mutant", P + "select.py", "return Select(self.quantity, self.cut.zero())", "return Select(self.quantity, self.cut)", "zero() keeps the filled cut"),
    ("C01", "mutant", P + "deviate.py", "                    + out.mean * out.mean * out.entries\n", "                    + out.mean * out.mean * out.entries\n                    + self.varianceTimesEntries * other.varianceTimesEntries\n", "symmetric cross term that vanishes on singletons: only associativity sees it"),
    ("C01", "neutral", P + "deviate.py", "out.mean = (self.entries * self.mean + other.entries * other.mean) / (self.entries + other.entries)", "out.mean = (other.entries * other.mean + self.entries * self.mean) / out.entries", "mean merge rewritten with out.entries"),
    ("C01", "neutral", P + "sum.py", "out.sum = self.sum + other.sum", "out.sum = other.sum + self.sum", "reordered summands"),
    ("C01", "neutral", "histogrammar/util.py", "    if math.isnan(y) or x < y:\n        return x\n    return y\n\n\ndef maxplus", "    if math.isnan(y) or x <= y:\n        return x\n    return y\n\n\ndef maxplus", "minplus <= instead of < (same value)"),
    ("C01", "mutant", P + "collection.py", "out = Label(**{k: self(k) + other(k) for k in self.keys})", "out = Label(**{k: x + y for k, x, y in zip(self.keys, self.values, other.values)})", "Label + pairs children by position"),
    ("C01", "mutant", P + "minmax.py", "        self.entries = both.entries\n        self.max = both.max\n        return self", "        return both", "Maximize += hands back a new object"),
    # ---------------- C02
    ("C02", "mutant", P + "bin.py", "return not math.isnan(x) and x >= self.high", "return not math.isnan(x) and x > self.high", "overflow edge"),
    ("C02", "mutant", P + "centrallybin.py", "                if x < (thisCenter + nextCenter) / 2.0:", "                if x <= (thisCenter + nextCenter) / 2.0:", "midpoint tie goes down"),
    ("C02", "mutant", P + "stack.py", "                    if q >= threshold:", "                    if q > threshold:", "threshold edge"),
    ("C02", "mutant", P + "sum.py", "        if weight > 0.0:\n            q = self.quantity(datum)", "        if not weight <= 0.0:\n            q = self.quantity(datum)", "NaN weight passes the gate"),
    ("C02", "mutant", P + "minmax.py", "if math.isnan(self.max) or q > self.max:", "if math.isnan(self.max) or q < self.max:", "max direction"),
    ("C02", "mutant", P + "irregularlybin.py", "                    if q >= low and not q >= high:", "                    if q > low and not q >= high:", "lower edge open"),
    ("C02", "mutant", P + "deviate.py", "                self.varianceTimesEntries += weight * delta * (q - self.mean)", "                self.varianceTimesEntries += delta * (q - self.mean)", "variance update drops the weight"),
    ("C02", "neutral", P + "minmax.py", "if math.isnan(self.max) or q > self.max:", "if math.isnan(self.max) or q >= self.max:", "equal value replaces max"),
    ("C02", "neutral", P + "count.py", "        if weight > 0.0:\n            t = self.transform(weight)", "        if 0.0 < weight:\n            t = self.transform(weight)", "mirrored gate"),
    ("C02", "neutral", P + "irregularlybin.py", "                        sub.fill(datum, weight)\n                        break", "                        sub.fill(datum, weight)", "break removed (intervals are disjoint)"),
    ("C02", "mutant", P + "average.py", "                if math.isinf(self.mean) and math.isinf(q) and self.mean * q < 0.0:\n                    self.mean = float(\"nan\")  # opposite-sign infinities is bad\n                elif math.isinf(q):\n                    self.mean = q  # mean becomes infinite with sign of q",
     "                if math.isinf(q):\n                    self.mean = q  # mean becomes infinite with sign of q\n                elif math.isinf(self.mean) and math.isinf(q) and self.mean * q < 0.0:\n                    self.mean = float(\"nan\")  # opposite-sign infinities is bad", "opposite infinities no longer cancel to NaN"),
    ("C02", "mutant", P + "deviate.py", "                # any infinite value makes the variance NaN\n                self.varianceTimesEntries = float(\"nan\")\n", "", "variance stays finite after an infinite datum"),
    ("C02", "neutral", P + "average.py", "                elif math.isinf(q):\n                    self.mean = q  # mean becomes infinite with sign of q\n                else:\n                    pass  # mean is already infinite", "                elif math.isinf(q):\n                    self.mean = q  # mean becomes infinite with sign of q", "empty else removed"),
    # ---------------- C03
    ("C03", "mutant", P + "sparselybin.py", "        neginfs = q <= LONG_MINUSINF\n        posinfs = q >= LONG_PLUSINF\n", "        neginfs = np.isneginf(q)\n        posinfs = np.isposinf(q)\n", "SparselyBin._numpy saturates only infinite rows again"),
    ("C03", "mutant", P + "average.py", "        elif ca_plus_cb > ca:  # the batch has positive weight (numpy.average cannot normalize a zero total)", "        elif ca_plus_cb > 0.0:", "Average._numpy averages a batch without positive weight again"),
    ("C03", "neutral", P + "average.py", "        elif ca_plus_cb > ca:  # the batch has positive weight (numpy.average cannot normalize a zero total)", "        elif ca_plus_cb - ca > 0.0:", "positive batch weight written as a difference"),
    ("C03", "mutant", P + "collection.py", "            if shape[0] is None and isinstance(x, Count):\n                waiting.append(x)\n            else:\n                x._numpy(data, weights, shape)", "            x._numpy(data, weights, shape)", "collections hand the batch to Counts before its length is known again"),
    ("C03", "mutant", P + "bin.py", "weights[q == self.high] = 0.0", "weights[q == self.high] == 0.0", "q == high counted twice in the fast path"),
    ("C03", "mutant", P + "stack.py", "            numpy.less(q, threshold, selection)", "            numpy.less_equal(q, threshold, selection)", "vectorised threshold edge"),
    ("C03", "mutant", P + "centrallybin.py", "        q = np.array(q, dtype=np.float64)\n        q[selection] = 0.0", "        q[selection] = 0.0", "writes into the caller's array"),
    ("C03", "mutant", P + "sparselybin.py", "        if n_dim == 1 and all_weights_one and isinstance(self.value, Count):", "        if n_dim == 1 and isinstance(self.value, Count):", "count fast path for non-unit weights"),
    ("C03", "mutant", P + "fraction.py", "        w[w < 0.0] = 0.0\n\n        self.numerator._numpy(data, w, shape)", "        self.numerator._numpy(data, w, shape)", "negative products reach the numerator"),
    ("C03", "mutant", P + "average.py", "self.mean = float((ca * ma + (ca_plus_cb - ca) * mb) / ca_plus_cb)", "self.mean = float((ca * ma + ca_plus_cb * mb) / ca_plus_cb)", "batch merge formula"),
    ("C03", "mutant", P + "categorize.py", "                subweights[selection] = 0.0\n                self.bins[xval]._numpy(data, subweights, shape)", "                self.bins[xval]._numpy(data, subweights, shape)", "every category receives every row"),
    ("C03", "mutant", P + "irregularlybin.py", "        weights = weights.copy()\n        weights[selection] = 0.0", "        weights = weights.copy()\n        weights[selection] = 0.0\n        newentries = weights.sum()", "entries from the masked weights"),
    ("C03", "neutral", P + "sum.py", "        numpy.bitwise_not(selection, selection)\n        numpy.bitwise_and(selection, weights > 0.0, selection)\n        q = q[selection]", "        selection = numpy.bitwise_not(selection)\n        numpy.bitwise_and(selection, weights > 0.0, selection)\n        q = q[selection]", "fresh mask instead of in-place"),
    ("C03", "mutant", P + "fraction.py", "        w = w * weights\n        w[numpy.isnan(w)] = 0.0\n        w[w < 0.0] = 0.0\n", "        w = numpy.array(w, dtype=numpy.float64)\n        w[numpy.isnan(w)] = 0.0\n        w[w < 0.0] = 0.0\n        w = w * weights\n", "inf * 0 weight reaches the numerator as NaN"),
    # ---------------- round g additions
    ("C11", "neutral", "histogrammar/util.py", "    g = dict(globals(), **refs)\n", "    g = dict(globals())\n    g.update(refs)\n", "namespace in two steps, references last"),
    ("C11", "mutant", "histogrammar/util.py", "    g = dict(globals(), **refs)\n", "    g = dict(refs, **globals())\n", "globals override the captured references"),
    ("C15", "neutral", P + "count.py", "        if entries < 0.0:\n            raise ValueError(f\"entries ({entries}) cannot be negative\")\n        out = Count()\n", "        out = Count()\n        if entries < 0.0:\n            raise ValueError(f\"entries ({entries}) cannot be negative\")\n", "result constructed before the check"),
    ("C12", "neutral", P + "minmax.py", "            self.entries += weight\n            if math.isnan(self.min) or q < self.min:\n                self.min = q\n", "            smaller = math.isnan(self.min) or q < self.min\n            self.entries += weight\n            if smaller:\n                self.min = q\n", "comparison hoisted above the increment (after validation)"),
    ("C12", "mutant", P + "minmax.py", "            if not isinstance(q, numbers.Real):\n                raise TypeError(f\"function return value ({q}) must be boolean or number\")\n\n            # no possibility of exception from here on out (for rollback)\n            self.entries += weight\n            if math.isnan(self.min) or q < self.min:", "            # no possibility of exception from here on out (for rollback)\n            self.entries += weight\n            if math.isnan(self.min) or q < self.min:", "Minimize.fill without the type validation"),
    ("C08", "mutant", P + "bag.py", "            out.values[value] = factor * count", "            out.values[str(value)] = factor * count", "Bag keys rewritten by scaling"),
    # ---------------- round f additions
    ("C03", "mutant", P + "categorize.py", "all_weights_one and isinstance(self.value, Count) and self.value.transform is identity:", "all_weights_one and isinstance(self.value, Count):", "counting fast path for a transformed Count"),
    ("C03", "mutant", P + "count.py", "t = self.transform(weights[weights > 0.0])", "t = self.transform(weights)", "zero-weight rows transformed"),
    ("C03", "neutral", P + "count.py", "                t = self.transform(weights[weights > 0.0])\n", "                counted = weights[weights > 0.0]\n                t = self.transform(counted)\n", "mask through a local"),
    ("C05", "mutant", "histogrammar/defs.py", "            weights = numpy.where(weights > 0.0, weights, 0.0)\n", "            weights = numpy.asarray(weights, dtype=numpy.float64)\n", "weight array not normalised"),
    ("C05", "mutant", "histogrammar/defs.py", "        elif not weights > 0.0:\n            return\n", "", "non-positive scalar weight reaches _numpy"),
    ("C05", "neutral", "histogrammar/defs.py", "        elif not weights > 0.0:\n            return\n        self._numpy(data, weights, shape=[None])", "        elif not 0.0 < weights:\n            return None\n        self._numpy(data, weights, shape=[None])", "mirrored test, explicit None"),
    ("C04", "mutant", P + "bag.py", '                        if range == "S" and isinstance(nv["v"], basestring):\n', '                        if False and isinstance(nv["v"], basestring):\n', "string labels decoded as numbers whatever the range"),
    ("C04", "neutral", P + "bag.py", '                        if range == "S" and isinstance(nv["v"], basestring):\n', '                        if isinstance(nv["v"], basestring) and range == "S":\n', "conjuncts swapped"),
    ("C04", "mutant", P + "categorize.py", "            self.contentType = value.name\n", "            self.contentType = type(value).__name__\n", "content type from the Python class name"),
    ("C07", "neutral", P + "bag.py", "            for value, count in other.values.items():\n                if value in self.values:\n                    self.values[value] += count\n                else:\n                    self.values[value] = count\n            return self", "            for value, count in other.values.items():\n                self.values[value] = self.values.get(value, 0.0) + count\n            return self", "get with the neutral default"),
    ("C07", "mutant", P + "bag.py", "            for value, count in other.values.items():\n                if value in self.values:\n                    self.values[value] += count\n                else:\n                    self.values[value] = count\n            return self", "            for value, count in other.values.items():\n                self.values[value] = self.values.get(value, 1.0) + count\n            return self", "get with a non-neutral default"),
    ("C09", "mutant", P + "stack.py", "all(numeq(c1, c2) and v1 == v2 for", "all(numeq(c1, c2) and v1.entries == v2.entries for", "children compared by entries only"),
    ("C13", "neutral", P + "bin.py", "            entries = [self.values[self.bin(x)].entries if self.bin(x) in self.indexes else 0.0 for x in xvalues]", "            found = [self.bin(x) for x in xvalues]\n            entries = [self.values[i].entries if i >= 0 else 0.0 for i in found]", "index looked up once, sentinel excluded by i >= 0"),
    ("C13", "mutant", P + "bin.py", "            entries = [self.values[self.bin(x)].entries if self.bin(x) in self.indexes else 0.0 for x in xvalues]", "            found = [self.bin(x) for x in xvalues]\n            entries = [self.values[i].entries if i <= self.num else 0.0 for i in found]", "sentinel not excluded"),
    ("C13", "neutral", P + "sparselybin.py", "            index * self.binWidth + self.origin,\n            (index + 1) * self.binWidth + self.origin,", "            self.origin + index * self.binWidth,\n            self.origin + (index + 1) * self.binWidth,", "commuted edge expression"),
    ("C13", "mutant", P + "sparselybin.py", "            index * self.binWidth + self.origin,\n            (index + 1) * self.binWidth + self.origin,", "            index * self.binWidth + self.origin,\n            index * self.binWidth + self.origin + self.binWidth,", "upper edge by adding the width"),
    ("C17", "neutral", "histogrammar/util.py", "                    context.update(math.__dict__)\n", "                    context.update({k: v for k, v in math.__dict__.items() if not k.startswith(\"__\")})\n", "dunder names of math filtered"),
    ("C17", "mutant", "histogrammar/util.py", "                    context.update(math.__dict__)\n", "                    context.update({k: v for k, v in math.__dict__.items() if not isinstance(v, float)})\n", "constants of math filtered"),
    ("C16", "mutant", P + "categorize.py", "        return hash((self.entries, self.quantity, tuple(sorted(self.bins.items()))))", "        return hash((self.entries, self.quantity, self.value, tuple(sorted(self.bins.items()))))", "template hashed"),
    # ---------------- C04
    ("C04", "mutant", P + "bin.py", "out = Bin.ed(low, high, entries, values, underflow, overflow, nanflow)", "out = Bin.ed(high, low, entries, values, underflow, overflow, nanflow)", "low/high swapped by the reader"),
    ("C04", "mutant", P + "sum.py", '{"entries": floatToJson(self.entries), "sum": floatToJson(self.sum)}', '{"entries": floatToJson(self.entries), "sum": self.sum}', "sum not encoded"),
    ("C04", "mutant", P + "fraction.py", 'denominator = factory.fromJsonFragment(json["denominator"], subName)', 'denominator = factory.fromJsonFragment(json["denominator"], None)', "denominator loses its name"),
    ("C04", "mutant", P + "deviate.py", "out.varianceTimesEntries = float(variance) * float(entries)", "out.varianceTimesEntries = float(variance)", "variance not multiplied back"),
    ("C04", "mutant", P + "categorize.py", "            out.contentType = self.contentType\n            out.bins = {}", "            out.bins = {}", "content type lost by + in reloaded form"),
    ("C04", "mutant", P + "stack.py", '["entries", "bins:type", "bins", "nanflow:type", "nanflow"],\n            ["name", "bins:name"],', '["entries", "bins:type", "bins", "nanflow:type", "nanflow"],\n            ["name"],', "optional key unknown to the reader"),
    ("C04", "mutant", "histogrammar/specialized.py", '    """Methods that are implicitly added to containers that look like centrally histograms."""\n\n    @property\n    def name(self):\n        return "CentrallyBin"', '    """Methods that are implicitly added to containers that look like centrally histograms."""\n\n    @property\n    def name(self):\n        return "CentrallyHistogram"', "specialised class changes the serialised type"),
    ("C04", "neutral", P + "sum.py", 'if isinstance(json, dict) and hasKeys(json.keys(), ["entries", "sum"], ["name"]):', 'if isinstance(json, dict) and hasKeys(json.keys(), ["sum", "entries"], ["name"]):', "key order"),
    ("C04", "mutant", P + "minmax.py", "self.min = min(self.min, float(q.min()))", "self.min = min(self.min, q.min())", "numpy scalar stored into a serialised field"),
    ("C04", "mutant", P + "bag.py", "v = tuple(map(floatOrNan, nv[\"v\"]))", "v = tuple(float(d) for d in nv[\"v\"])", "reader builds float NaN keys"),
    ("C04", "neutral", P + "bag.py", "v = tuple(map(floatOrNan, nv[\"v\"]))", "v = tuple(floatOrNan(d) for d in nv[\"v\"])", "map rewritten as a generator"),
    # ---------------- C05
    ("C05", "mutant", P + "bin.py", "return min(self.num - 1, int(math.floor(self.num * (x - self.low) / (self.high - self.low))))", "return int(math.floor(self.num * (x - self.low) / (self.high - self.low)))", "clamp removed"),
    ("C05", "mutant", P + "fraction.py", "self.denominator.fill(datum, weight)", "self.denominator.fill(datum, w)", "denominator receives q*weight"),
    ("C05", "mutant", P + "stack.py", "        weights = weights.copy()\n        weights[selection] = 0.0", "        weights = weights.copy()\n        weights[selection] = 0.0\n        newentries = weights.sum()", "entries from masked weights"),
    ("C05", "mutant", P + "centrallybin.py", "                    np.less(q, low, selection)\n                    np.greater_equal(q, high, selection2)", "                    np.less_equal(q, low, selection)\n                    np.greater_equal(q, high, selection2)", "midpoint lands in no bin (vectorised)"),
    ("C05", "mutant", P + "select.py", "            self.entries += weight\n\n    def _numpy", "            self.entries += w\n\n    def _numpy", "entries counts q*weight"),
    ("C05", "mutant", P + "average.py", "out.mean = self.mean\n        return out.specialize()", "out.mean = factor * self.mean\n        return out.specialize()", "mean scaled"),
    ("C05", "neutral", P + "sum.py", "            self.entries += weight\n            self.sum += q * weight", "            self.entries = self.entries + weight\n            self.sum += q * weight", "x = x + w"),
    # ---------------- C06
    ("C06", "mutant", P + "bin.py", "            out.entries = self.entries + other.entries\n            out.values", "            self.entries = self.entries + other.entries\n            out.values", "__add__ writes into self"),
    ("C06", "mutant", P + "bin.py", "        self.underflow = underflow.copy()", "        self.underflow = underflow", "constructor keeps the argument"),
    ("C06", "mutant", P + "bin.py", "self.values = [value.zero() for i in range(num)]", "self.values = [value] * num", "one object in every bin"),
    ("C06", "mutant", P + "categorize.py", "out.bins[k] = self.bins[k].copy()", "out.bins[k] = self.bins[k]", "left-only category shared"),
    ("C06", "mutant", P + "categorize.py", "newbin = self.value.zero()", "newbin = self.value", "template filled directly"),
    ("C06", "mutant", P + "bin.py", "return np.array([x.entries for x in self.values])", "xvalues.append(1); return np.array([x.entries for x in self.values])", "mutable default written"),
    ("C06", "mutant", P + "bag.py", "out.values = dict(self.values)", "out.values = self.values", "result adopts self's dict"),
    ("C06", "mutant", P + "irregularlybin.py", "[(c, v.zero()) for c, v in self.bins],\n            self.quantity,\n            None,\n            self.nanflow.zero(),", "[(c, v) for c, v in self.bins],\n            self.quantity,\n            None,\n            self.nanflow.zero(),", "zero() shares the bins"),
    ("C06", "neutral", P + "bag.py", "out.values = dict(self.values)", "out.values = self.values.copy()", "dict(x) vs x.copy()"),
    ("C06", "mutant", PL, "                if j not in h_y.bins:\n                    h_y.bins[j] = Count()\n                h_y.bins[j].entries += bi.bins[j].entries", "                if j not in h_y.bins:\n                    h_y.bins[j] = bi.bins[j]\n                else:\n                    h_y.bins[j].entries += bi.bins[j].entries", "projection adopts and then updates the histogram's own cell"),
    # ---------------- C07
    ("C07", "mutant", P + "bin.py", "            self.overflow += other.overflow\n", "", "overflow not merged in place"),
    ("C07", "mutant", P + "sparselybin.py", "self.bins[i] = v.copy()", "self.bins[i] = v", "right-only bin adopted"),
    ("C07", "mutant", P + "count.py", "self.entries += other.entries", "self.entries = other.entries", "overwrite"),
    ("C07", "mutant", P + "deviate.py", "        self.varianceTimesEntries = both.varianceTimesEntries\n", "", "field forgotten by the delegating +="),
    ("C07", "mutant", P + "collection.py", "            for x, y in zip(self.values, other.values):\n                x += y  # noqa: PLW2901\n            return self\n        raise ContainerException(f\"cannot add {self.name} and {other.name}\")\n\n    @inheritdoc(Container)\n    def __mul__(self, factor):\n        if math.isnan(factor) or factor <= 0.0:\n            return self.zero()\n        out = Index(", "            for x, y in zip(self.values, other.values):\n                x += y  # noqa: PLW2901\n            return other\n        raise ContainerException(f\"cannot add {self.name} and {other.name}\")\n\n    @inheritdoc(Container)\n    def __mul__(self, factor):\n        if math.isnan(factor) or factor <= 0.0:\n            return self.zero()\n        out = Index(", "returns other"),
    ("C07", "neutral", P + "count.py", "self.entries += other.entries", "self.entries = self.entries + other.entries", "x = x + y"),
    ("C07", "mutant", P + "collection.py", "            self.entries += other.entries\n            for k in self.keys:\n                v = self(k)\n                v += other(k)\n            return self\n        raise ContainerException(f\"cannot add {self.name} and {other.name}\")\n\n    @inheritdoc(Container)\n    def __mul__(self, factor):\n        if math.isnan(factor) or factor <= 0.0:\n            return self.zero()\n        out = self.zero()\n        out.entries = factor * self.entries\n        for k, v in self.pairs.items():",
     "            self.entries += other.entries\n            for v, w in zip(self.values, other.values):\n                v += w\n            return self\n        raise ContainerException(f\"cannot add {self.name} and {other.name}\")\n\n    @inheritdoc(Container)\n    def __mul__(self, factor):\n        if math.isnan(factor) or factor <= 0.0:\n            return self.zero()\n        out = self.zero()\n        out.entries = factor * self.entries\n        for k, v in self.pairs.items():", "Label += pairs children by position"),
    # ---------------- C08
    ("C08", "mutant", P + "bin.py", "out.overflow = self.overflow * factor", "out.overflow = self.overflow.copy()", "overflow not scaled"),
    ("C08", "mutant", P + "sum.py", "        if math.isnan(factor) or factor <= 0.0:\n            return self.zero()\n        out = self.zero()\n        out.entries = factor * self.entries\n        out.sum", "        if math.isnan(factor) or factor < 0.0:\n            return self.zero()\n        out = self.zero()\n        out.entries = factor * self.entries\n        out.sum", "factor 0"),
    ("C08", "mutant", P + "bag.py", "out.values[value] = factor * count", "out.values[value] = count", "weights not scaled"),
    ("C08", "mutant", P + "stack.py", "out.bins = tuple((c, v * factor) for (c, v) in self.bins)", "out.bins = [(c, v * factor) for (c, v) in self.bins]", "bins becomes a list"),
    ("C08", "mutant", P + "minmax.py", "        out.min = self.min\n        return out.specialize()", "        out.min = factor * self.min\n        return out.specialize()", "min scaled"),
    ("C08", "neutral", P + "sum.py", "out.sum = factor * self.sum", "out.sum = self.sum * factor", "commuted product"),
    ("C08", "mutant", P + "collection.py", "        out = Branch(*[x * factor for x in self.values])\n        out.entries = factor * self.entries", "        out = self.zero()\n        out.entries = factor * self.entries\n        out.values = tuple(x * factor for x in self.values)", "scaled Branch keeps stale i0..iN"),
    # ---------------- C09
    ("C09", "mutant", P + "bin.py", "            and numeq(self.high, other.high)\n", "", "high not compared"),
    ("C09", "mutant", P + "sparselybin.py", "and self.bins == other.bins", "and sorted(self.bins) == sorted(other.bins)", "keys only"),
    ("C09", "mutant", P + "stack.py", "            and len(self.bins) == len(other.bins)\n", "", "zip without length"),
    ("C09", "mutant", P + "average.py", "and numeq(self.mean, other.mean)", "and self.mean == other.mean", "== on a NaN field"),
    ("C09", "mutant", P + "sum.py", "    def __ne__(self, other):\n        return not self == other\n\n    def __hash__(self):\n        return hash((self.quantity, self.entries, self.sum))", "    def __ne__(self, other):\n        return self is not other\n\n    def __hash__(self):\n        return hash((self.quantity, self.entries, self.sum))", "__ne__ by identity"),
    ("C09", "mutant", "histogrammar/util.py", "    if relativeTolerance > 0.0:\n        return abs(x - y) <= relativeTolerance * max(abs(x), abs(y))", "    if relativeTolerance >= 0.0:\n        return abs(x - y) <= relativeTolerance * max(abs(x), abs(y))", "tolerance branch taken at 0"),
    ("C09", "neutral", P + "sum.py", "            and numeq(self.entries, other.entries)\n            and numeq(self.sum, other.sum)", "            and numeq(self.sum, other.sum)\n            and numeq(self.entries, other.entries)", "reordered conjuncts"),
    ("C09", "mutant", P + "stack.py", "and all(numeq(c1, c2) and v1 == v2 for (c1, v1), (c2, v2) in zip(self.bins, other.bins))", "and all(numeq(c1, c2) and v1 == v2 for (c1, v1), (c2, v2) in zip(self.bins[1:], other.bins[1:]))", "first cumulative bin not compared"),
    ("C09", "mutant", "histogrammar/util.py", "            out = out and (self.expr == other.expr)", "            out = self.expr == other.expr", "UserFcn == forgets the name"),
    ("C09", "mutant", P + "select.py", "            and self.quantity == other.quantity\n            and self.cut == other.cut", "            and self.cut == other.cut", "Select == ignores its quantity"),
    ("C09", "neutral", "histogrammar/util.py", "            out = out and (self.expr == other.expr)\n\n        return out", "            return out and (self.expr == other.expr)\n\n        return out", "early return of the same conjunction"),
    ("C09", "mutant", "histogrammar/util.py", "        return (x > 0.0) == (y > 0.0)", "        return True", "+inf equals -inf"),
    ("C09", "neutral", "histogrammar/util.py", "        return (x > 0.0) == (y > 0.0)", "        return (x < 0.0) == (y < 0.0)", "sign test mirrored"),
    ("C09", "neutral", "histogrammar/util.py",
     "    if relativeTolerance > 0.0 and absoluteTolerance > 0.0:\n        return abs(x - y) <= max(relativeTolerance * max(abs(x), abs(y)), absoluteTolerance)\n    if relativeTolerance > 0.0:\n        return abs(x - y) <= relativeTolerance * max(abs(x), abs(y))\n    if absoluteTolerance > 0.0:\n        return abs(x - y) <= absoluteTolerance\n",
     "    tolerance = max(relativeTolerance * max(abs(x), abs(y)), absoluteTolerance)\n    if tolerance > 0.0:\n        return abs(x - y) <= tolerance\n",
     "the three tolerance branches merged into one bound (a switched-off tolerance contributes 0)"),
    ("C09", "mutant", "histogrammar/util.py",
     "    if relativeTolerance > 0.0 and absoluteTolerance > 0.0:\n        return abs(x - y) <= max(relativeTolerance * max(abs(x), abs(y)), absoluteTolerance)\n    if relativeTolerance > 0.0:\n        return abs(x - y) <= relativeTolerance * max(abs(x), abs(y))\n    if absoluteTolerance > 0.0:\n        return abs(x - y) <= absoluteTolerance\n",
     "    tolerance = min(relativeTolerance * max(abs(x), abs(y)), absoluteTolerance)\n    if tolerance > 0.0 or absoluteTolerance > 0.0:\n        return abs(x - y) <= tolerance\n",
     "merged bound that a zero tolerance takes part in"),
    ("C09", "neutral", "histogrammar/util.py", "    if math.isnan(x) and math.isnan(y):\n        return True", "    if math.isnan(y) and math.isnan(x):\n        return True", "operands of the NaN test swapped"),
    # ---------------- C10
    ("C10", "mutant", P + "centrallybin.py", "    def __add__(self, other):\n        if not isinstance(other, CentrallyBin):\n            raise ContainerException(f\"cannot add {self.name} and {other.name}\")\n", "    def __add__(self, other):\n", "CentrallyBin.__add__ without its isinstance guard (Select forwards attributes)"),
    ("C10", "mutant", P + "bin.py", "            if self.high != other.high:\n                raise ContainerException(f\"cannot add Bins because high differs ({self.high} vs {other.high})\")\n            if len(self.values) != len(other.values):\n                raise ContainerException(\n                    f\"cannot add Bins because nubmer of values differs ({len(self.values)} vs {len(other.values)})\"\n                )\n            if len(self.values) == 0:\n                raise ContainerException(\"cannot add Bins because number of values is zero\")\n\n            out", "            if len(self.values) != len(other.values):\n                raise ContainerException(\n                    f\"cannot add Bins because nubmer of values differs ({len(self.values)} vs {len(other.values)})\"\n                )\n            if len(self.values) == 0:\n                raise ContainerException(\"cannot add Bins because number of values is zero\")\n\n            out", "high guard dropped from +"),
    ("C10", "mutant", P + "collection.py", "if self.size != other.size:", "if self.size < other.size:", "one-sided size guard"),
    ("C10", "mutant", P + "count.py", "    def __iadd__(self, other):\n        if isinstance(other, Count):\n            self.entries += other.entries\n            return self\n        raise ContainerException(f\"cannot add {self.name} and {other.name}\")", "    def __iadd__(self, other):\n        self.entries += other.entries\n        return self", "no type guard in +="),
    ("C10", "mutant", P + "irregularlybin.py", "            if self.thresholds != other.thresholds:\n                raise ContainerException(\"cannot add IrregularlyBin because cut thresholds differ\")\n\n            out", "            if len(self.thresholds) != len(other.thresholds):\n                raise ContainerException(\"cannot add IrregularlyBin because cut thresholds differ\")\n\n            out", "only the number of thresholds compared"),
    ("C10", "neutral", P + "bin.py", "            if self.low != other.low:\n                raise ContainerException(f\"cannot add Bins because low differs ({self.low} vs {other.low})\")\n            if self.high != other.high:\n                raise ContainerException(f\"cannot add Bins because high differs ({self.high} vs {other.high})\")\n            if len(self.values) != len(other.values):\n                raise ContainerException(\n                    f\"cannot add Bins because nubmer of values differs ({len(self.values)} vs {len(other.values)})\"\n                )\n            if len(self.values) == 0:\n                raise ContainerException(\"cannot add Bins because number of values is zero\")\n\n            out", "            if self.low != other.low or self.high != other.high:\n                raise ContainerException(f\"cannot add Bins because range differs\")\n            if len(self.values) != len(other.values):\n                raise ContainerException(\n                    f\"cannot add Bins because nubmer of values differs ({len(self.values)} vs {len(other.values)})\"\n                )\n            if len(self.values) == 0:\n                raise ContainerException(\"cannot add Bins because number of values is zero\")\n\n            out", "guards combined with or"),
    # ---------------- C11
    ("C11", "mutant", "histogrammar/defs.py", '        for s in ["fill", "plot"]:', '        for s in ["fill"]:', "plot wrapper not stripped"),
    ("C11", "mutant", "histogrammar/defs.py", "        self.__dict__ = dict\n        self.fill = FillMethod(self, self.fill)", "        self.fill = FillMethod(self, self.fill)\n        self.__dict__ = dict", "wrapped before __dict__ is restored"),
    ("C11", "mutant", "histogrammar/util.py", "    out = cls.__new__(cls)\n    out.expr = expr\n    out.name = name\n    return out", "    out = cls.__new__(cls)\n    out.expr = expr\n    return out", "deserializeString forgets the name"),
    ("C11", "mutant", P + "select.py", 'if attr not in self.__dict__ and hasattr(self.__dict__["cut"], attr):', 'if attr not in self.__dict__ and hasattr(self.cut, attr):', "plain attribute access in __getattr__"),
    ("C11", "neutral", "histogrammar/defs.py", '        for s in ["fill", "plot"]:', '        for s in ("fill", "plot"):', "tuple instead of list"),
    # ---------------- C12
    ("C12", "mutant", P + "bin.py", "            if self.under(q):\n                self.underflow.fill(datum, weight)", "            self.entries += weight\n            if self.under(q):\n                self.underflow.fill(datum, weight)", "counter incremented before the child fill"),
    ("C12", "mutant", P + "sparselybin.py", "                    newbin = self.value.copy()\n                    newbin.fill(datum, weight)", "                    newbin = self.value.copy()\n                    self.bins[b] = newbin\n                    newbin.fill(datum, weight)", "bin inserted before it is filled"),
    ("C12", "mutant", P + "sum.py", "            if not isinstance(q, numbers.Real):\n                raise TypeError(f\"function return value ({q}) must be boolean or number\")\n\n            # no possibility of exception from here on out (for rollback)\n            self.entries += weight\n            self.sum += q * weight", "            self.entries += weight\n            self.sum += q * weight", "no type validation before the update"),
    ("C12", "neutral", P + "sum.py", "            self.entries += weight\n            self.sum += q * weight", "            self.sum += q * weight\n            self.entries += weight", "reordered infallible updates"),
    ("C12", "mutant", P + "minmax.py", "            if not isinstance(q, numbers.Real):\n                raise TypeError(f\"function return value ({q}) must be boolean or number\")\n\n            # no possibility of exception from here on out (for rollback)\n            self.entries += weight\n            if math.isnan(self.max) or q > self.max:", "            if not isinstance(q, numbers.Number):\n                raise TypeError(f\"function return value ({q}) must be boolean or number\")\n\n            # no possibility of exception from here on out (for rollback)\n            self.entries += weight\n            if math.isnan(self.max) or q > self.max:", "guard admits complex numbers"),
    # ---------------- C13
    ("C13", "mutant", P + "bin.py", "            return (self.low + bw / 2.0) + np.arange(len(self.values)) * bw", "            return np.arange(self.low + bw / 2.0, self.high + bw / 2.0, bw)", "bin_centers takes its length from a float-stepped arange again"),
    ("C13", "neutral", P + "bin.py", "            return (self.low + bw / 2.0) + np.arange(len(self.values)) * bw", "            return (self.low + bw / 2.0) + np.arange(0, len(self.values), 1) * bw", "integer arange written with start and step"),
    ("C13", "mutant", P + "bin.py", "return np.linspace(self.low, self.high, num_bins + 1)", "return np.linspace(self.low, self.high, num_bins)", "one edge too few"),
    ("C13", "mutant", P + "centrallybin.py", "return np.array(self.centers[lidx : hidx + 1])", "return np.array(self.centers[lidx : hidx])", "one centre too few"),
    ("C13", "mutant", P + "sparselybin.py", "numBins = maxBin + 1 - minBin", "numBins = maxBin - minBin", "numBins off by one"),
    ("C13", "mutant", P + "sparselybin.py", "entries = [self.bins[self.bin(x)].entries if self.bin(x) in self.bins else 0.0 for x in xvalues]", "entries = [self.bins[int(math.floor(x / self.binWidth))].entries if int(math.floor(x / self.binWidth)) in self.bins else 0.0 for x in xvalues]", "accessor re-implements the index"),
    ("C13", "mutant", P + "irregularlybin.py", "return np.array([(self.bins[self._lower_index(x)])[1].entries for x in xvalues])", "return np.array([(self.bins[self.lower_index(x)])[1].entries for x in xvalues])", "helper renamed at one call site only"),
    ("C13", "neutral", P + "bin.py", "        return (self.high - self.low) / len(self.values)", "        width = self.high - self.low\n        return width / len(self.values)", "local introduced"),
    ("C13", "mutant", P + "centrallybin.py", "            return np.array([(self.bins[self.index(x)])[1].entries for x in xvalues])", "            centers = np.array(self.centers)\n            closest = np.abs(np.subtract.outer(np.asarray(xvalues, dtype=float), centers)).argmin(axis=1)\n            return np.array([(self.bins[i])[1].entries for i in closest])", "inline nearest-centre lookup"),
    ("C13", "mutant", PL, "                if j not in h_y.bins:\n                    h_y.bins[j] = Count()\n                h_y.bins[j].entries += bi.bins[j].entries", "                if j not in h_y.bins:\n                    h_y.bins[j] = bi.bins[j]\n                else:\n                    h_y.bins[j].entries += bi.bins[j].entries", "projection adopts and then updates the histogram's own cell"),
    # ---------------- C14
    ("C14", "mutant", "histogrammar/dfinterface/pandas_histogrammar.py", 'idf = df[list(cols_by_type["num"]) + list(cols_by_type["str"]) + list(cols_by_type["bool"])].copy()', "idf = df", "works on the caller's frame"),
    ("C14", "mutant", "histogrammar/dfinterface/histogram_filler_base.py", "return features, self.bin_specs, self.var_dtype, self.time_axis", "return features, self.bin_specs, {}, self.time_axis", "var_dtype not exported"),
    ("C14", "mutant", "histogrammar/dfinterface/make_histograms.py", "        var_dtype=var_dtype,\n", "", "var_dtype not forwarded"),
    ("C14", "mutant", "histogrammar/dfinterface/histogram_filler_base.py", 'specs.append({"num": n_bins, "low": low, "high": high})', 'specs.append({"n_bins": n_bins, "low": low, "high": high})', "unknown spec key"),
    ("C14", "neutral", "histogrammar/dfinterface/pandas_histogrammar.py", "        return idf\n\n    def fill_histograms", "        result = idf\n        return result\n\n    def fill_histograms", "local alias of the derived frame"),
    # ---------------- C15
    ("C15", "mutant", P + "centrallybin.py", "                            raise JsonFormatException(\n                                binpair[\"center\"],", "                            JsonFormatException(\n                                binpair[\"center\"],", "raise deleted"),
    ("C15", "mutant", P + "collection.py", "                    else:\n                        raise JsonFormatException(x, f\"Branch.data {i}\")\n", "                    else:\n                        continue\n", "bad element skipped"),
    ("C15", "mutant", P + "sum.py", 'if json["entries"] in ("nan", "inf", "-inf") or isinstance(json["entries"], numbers.Real):\n                entries = float(json["entries"])\n            else:\n                raise JsonFormatException(json["entries"], "Sum.entries")', 'entries = float(json["entries"])', "entries not validated"),
    ("C15", "mutant", P + "stack.py", "                    else:\n                        raise JsonFormatException(json, f\"Stack.bins {i}\")\n", "", "malformed level skipped"),
    ("C15", "mutant", P + "average.py", "        if entries < 0.0:\n            raise ValueError(f\"entries ({entries}) cannot be negative\")\n        out = Average(None)", "        out = Average(None)", "negative entries accepted"),
    ("C15", "mutant", "histogrammar/defs.py", 'if isinstance(json, dict) and hasKeys(json.keys(), ["type", "data", "version"]):', 'if isinstance(json, dict) and "type" in json and "data" in json and "version" in json:', "open header key set"),
    ("C15", "neutral", P + "sum.py", 'if json["entries"] in ("nan", "inf", "-inf") or isinstance(json["entries"], numbers.Real):\n                entries = float(json["entries"])\n            else:\n                raise JsonFormatException(json["entries"], "Sum.entries")', 'if not (json["entries"] in ("nan", "inf", "-inf") or isinstance(json["entries"], numbers.Real)):\n                raise JsonFormatException(json["entries"], "Sum.entries")\n            entries = float(json["entries"])', "if not ok: raise"),
    # ---------------- C16
    ("C16", "mutant", P + "select.py", "    def fill(self, datum, weight=1.0):\n        self._checkForCrossReferences()\n", "    def fill(self, datum, weight=1.0):\n", "guard call deleted from one fill"),
    ("C16", "mutant", P + "bin.py", "return [self.underflow, self.overflow, self.nanflow] + self.values", "return [self.underflow, self.overflow] + self.values", "slot dropped from children"),
    ("C16", "mutant", "histogrammar/defs.py", "                raise ContainerException(f\"cannot fill a tree that contains the same aggregator twice: {self}\")\n            memo.add(self)", "                return\n            memo.add(self)", "shared node silently accepted"),
    ("C16", "neutral", P + "bin.py", "return [self.underflow, self.overflow, self.nanflow] + self.values", "return [self.nanflow, self.underflow, self.overflow] + self.values", "children reordered"),
    # ---------------- C17
    ("C17", "mutant", "histogrammar/util.py", "        self.lastKwds = kwds\n", "", "lastKwds never stored"),
    ("C17", "mutant", "histogrammar/util.py", "    if isinstance(fcn, CachedFcn):\n        return CachedFcn(fcn.expr, name)\n    if isinstance(fcn, UserFcn):\n        return UserFcn(fcn.expr, name)", "    if isinstance(fcn, UserFcn):\n        return UserFcn(fcn.expr, name)\n    if isinstance(fcn, CachedFcn):\n        return CachedFcn(fcn.expr, name)", "base class tested first"),
    ("C17", "mutant", "histogrammar/util.py", "        return CachedFcn(fcn.expr, fcn.name)", "        return CachedFcn(fcn.expr)", "cached() drops the name"),
    ("C17", "mutant", "histogrammar/util.py", "            and len(args) == len(self.lastArgs)\n", "", "zip without length"),
    ("C17", "neutral", "histogrammar/util.py", "        self.lastArgs = args\n        self.lastKwds = kwds\n", "        self.lastKwds = kwds\n        self.lastArgs = args\n", "stores reordered"),
]


_BASE = {}


def base_keys(prop, root):
    """finding keys of the unchanged tree for this property (computed once per worker process)"""
    k = (prop, root)
    if k not in _BASE:
        mod = importlib.import_module(f"hgsa.rules.{prop.lower()}")
        base = Report(prop, "quick")
        mod.run(Repo(root), base, "quick")
        _BASE[k] = {f.key for f in base.findings}
    return _BASE[k]


def _run_one(args):
    prop, kind, rel, old, new, note, root = args
    path = os.path.join(root, rel)
    try:
        src = open(path, encoding="utf-8").read()
    except OSError:
        return (prop, kind, rel, note, "skipped", "file not found")
    if old not in src:
        return (prop, kind, rel, note, "skipped", "snippet not present in the current source")
    src2 = src.replace(old, new, 1)
    try:
        compile(src2, rel, "exec")
    except SyntaxError as e:
        return (prop, kind, rel, note, "skipped", f"variant does not compile: {e}")
    mod = importlib.import_module(f"hgsa.rules.{prop.lower()}")
    try:
        basekeys = base_keys(prop, root)
        rep = Report(prop, "quick")
        mod.run(Repo(root, overrides={rel: src2}), rep, "quick")
        newf = [f for f in rep.findings if f.key not in basekeys]
        return (prop, kind, rel, note, "reported" if newf else "silent", newf[0].text()[:200] if newf else "")
    except AnalysisError as e:
        return (prop, kind, rel, note, "analysis-error", str(e)[:200])
    except Exception as e:  # pragma: no cover
        return (prop, kind, rel, note, "analysis-error", f"{type(e).__name__}: {e}"[:200])


def parse_patch(text):
    """unified diff -> {relpath: [(old_start, old_lines, new_lines)]}"""
    files = {}
    cur = None
    hunk = None
    for line in text.rstrip("\n").split("\n"):
        if line.startswith("+++ "):
            name = line[4:].strip()
            name = name[2:] if name.startswith("b/") else name
            cur = files.setdefault(name, [])
            hunk = None
        elif line.startswith("--- ") or line.startswith("diff ") or line.startswith("index "):
            continue
        elif line.startswith("@@") and cur is not None:
            import re
            m = re.match(r"@@ -(\d+)", line)
            hunk = [int(m.group(1)), [], []]
            cur.append(hunk)
        elif hunk is not None:
            if line.startswith("+"):
                hunk[2].append(line[1:])
            elif line.startswith("-"):
                hunk[1].append(line[1:])
            elif line.startswith(" ") or line == "":
                hunk[1].append(line[1:])
                hunk[2].append(line[1:])
            elif line.startswith("\\"):
                continue
    return files


def apply_hunks(src, hunks):
    lines = src.split("\n")
    offset = 0
    for start, old, new in hunks:
        # trailing empty context produced by the final split
        while old and new and old[-1] == "" and new[-1] == "" and len(old) > 1 and (start - 1 + offset + len(old)) > len(lines):
            old, new = old[:-1], new[:-1]
        want = start - 1 + offset
        found = None
        for delta in range(0, 400):
            for pos in (want + delta, want - delta):
                if 0 <= pos <= len(lines) - len(old) and lines[pos:pos + len(old)] == old:
                    found = pos
                    break
            if found is not None:
                break
        if found is None:
            return None
        lines[found:found + len(old)] = new
        offset += len(new) - len(old)
    return "\n".join(lines)


def _run_seed(args):
    prop, name, patch_path, root = args
    try:
        files = parse_patch(open(patch_path, encoding="utf-8").read())
    except OSError:
        return (prop, "seed", name, name, "skipped", "patch not found")
    ov = {}
    for rel, hunks in files.items():
        try:
            src = open(os.path.join(root, rel), encoding="utf-8").read()
        except OSError:
            return (prop, "seed", name, name, "skipped", f"{rel} not found")
        out = apply_hunks(src, hunks)
        if out is None:
            return (prop, "seed", name, name, "skipped", f"patch does not apply to the current {rel}")
        try:
            compile(out, rel, "exec")
        except SyntaxError as e:
            return (prop, "seed", name, name, "skipped", f"patched {rel} does not compile: {e}")
        ov[rel] = out
    mod = importlib.import_module(f"hgsa.rules.{prop.lower()}")
    try:
        basekeys = base_keys(prop, root)
        rep = Report(prop, "quick")
        mod.run(Repo(root, overrides=ov), rep, "quick")
        newf = [f for f in rep.findings if f.key not in basekeys]
        return (prop, "seed", name, name, "reported" if newf else "silent", newf[0].text()[:200] if newf else "")
    except AnalysisError as e:
        return (prop, "seed", name, name, "analysis-error", str(e)[:200])
    except Exception as e:  # pragma: no cover
        return (prop, "seed", name, name, "analysis-error", f"{type(e).__name__}: {e}"[:200])


def run(prop, root, jobs=16):
    """Run the variants of one property. Returns dict summary for the evidence file."""
    todo = [(p, k, rel, old, new, note or "", root) for (p, k, rel, old, new, note) in VARIANTS if p == prop]
    results = []
    if todo:
        with ProcessPoolExecutor(max_workers=min(jobs, len(todo))) as ex:
            results = list(ex.map(_run_one, todo))
    # the confirmed seeded changes written for this property (independent sub-agents): applied in memory, must be reported
    seed_root = os.path.join(os.path.dirname(os.path.dirname(os.path.abspath(__file__))), "seeded")
    seeds = []
    if os.path.isdir(seed_root):
        for d in sorted(os.listdir(seed_root)):
            if d.startswith(prop + "-") and os.path.exists(os.path.join(seed_root, d, "patch.diff")):
                seeds.append((prop, d, os.path.join(seed_root, d, "patch.diff"), root))
    seed_results = []
    if seeds:
        with ProcessPoolExecutor(max_workers=min(jobs, len(seeds))) as ex:
            seed_results = list(ex.map(_run_seed, seeds))
    results += [(r[0], "mutant", r[2], "seeded change " + r[3], r[4], r[5]) for r in seed_results]
    # the confirmed behaviour-preserving refactorings (all properties' corpora): applied in memory, this property's rules must stay silent
    neutral_root = os.path.join(os.path.dirname(os.path.dirname(os.path.abspath(__file__))), "neutral")
    neutrals = []
    if os.path.isdir(neutral_root):
        for d in sorted(os.listdir(neutral_root)):
            if os.path.exists(os.path.join(neutral_root, d, "patch.diff")):
                neutrals.append((prop, d, os.path.join(neutral_root, d, "patch.diff"), root))
    if neutrals:
        with ProcessPoolExecutor(max_workers=min(jobs, len(neutrals))) as ex:
            nres = list(ex.map(_run_seed, neutrals))
        results += [(r[0], "neutral", r[2], "behaviour-preserving refactoring " + r[3], r[4], r[5]) for r in nres]
    mutants = [r for r in results if r[1] == "mutant" and r[4] != "skipped"]
    neutrals = [r for r in results if r[1] == "neutral" and r[4] != "skipped"]
    return {
        "mutants": len(mutants),
        "killed": sum(1 for r in mutants if r[4] == "reported"),
        "missed": [f"{r[2]}: {r[3]} -> {r[4]} {r[5]}" for r in mutants if r[4] != "reported"],
        "neutral_twins": len(neutrals),
        "neutral_silent": sum(1 for r in neutrals if r[4] == "silent"),
        "neutral_alarms": [f"{r[2]}: {r[3]} -> {r[4]} {r[5]}" for r in neutrals if r[4] != "silent"],
        "skipped": [f"{r[2]}: {r[3]} ({r[5]})" for r in results if r[4] == "skipped"],
        "details": [f"{r[1]} {r[2]}: {r[3]} -> {r[4]}" for r in results],
    }
