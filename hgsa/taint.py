"""Field-dependence labels for small methods (def-use slices through locals, comprehensions, zip, items()).

A label is (param, field, flavour, zipped): `param` is the name of a parameter (self / other / out ...), `field` a
stored attribute (properties are expanded to the stored attributes they read), flavour is
  full  - the value (or an element of it) itself
  keys  - only the keys of a dict-kind field (iterating / sorting a dict, .keys())
  len   - only its length
and zipped says whether the value passed through zip() (truncating to the shorter operand).
"""

import ast

from .loader import FuncInfo


class Labels(frozenset):
    pass


EMPTY = frozenset()


def relabel(labels, flavour=None, zipped=None):
    out = set()
    for (p, f, fl, z) in labels:
        nf = fl
        if flavour == "keys" and fl == "full":
            nf = "keys"
        elif flavour == "len":
            nf = "len"
        elif flavour == "part" and fl == "full":
            nf = "part"
        elif flavour == "full":
            nf = fl
        out.add((p, f, nf, z if zipped is None else (z or zipped)))
    return frozenset(out)


class FieldTaint:
    def __init__(self, repo, cls, func, params, dict_fields=(), extra_roots=None, init_env=None):
        """params: parameter names whose attributes are tracked (e.g. ['self', 'other']).
        dict_fields: stored attributes that are dicts (iteration yields keys only).
        extra_roots: local names to treat like parameters (e.g. 'out' for the object under construction)."""
        self.repo = repo
        self.cls = cls
        self.func = func
        self.params = set(params)
        self.dict_fields = set(dict_fields)
        self.env = {}
        self.extra_roots = set(extra_roots or ())
        self.init_env = dict(init_env or {})
        self.project_slots = set()      # child-aggregator fields: `self.slot.attr` is only a projection ("part") of the child
        self._fix()

    # ---- properties -> stored attributes
    def storage(self, attr):
        from .rules.c16 import storage_attrs

        if self.cls is None:
            return {attr}
        return storage_attrs(self.repo, self.cls, attr)

    def is_prop(self, attr):
        r = self.repo.lookup(self.cls, attr) if self.cls is not None else None
        return isinstance(r, FuncInfo) and r.is_property

    def prop_flavour(self, attr):
        """A property such as `keys`/`keySet` returning self.bins.keys() yields keys only."""
        r = self.repo.lookup(self.cls, attr) if self.cls is not None else None
        if isinstance(r, FuncInfo) and r.is_property:
            sub = FieldTaint(self.repo, self.cls, r, [r.params[0]], self.dict_fields)
            labs = EMPTY
            for n in ast.walk(r.node):
                if isinstance(n, ast.Return) and n.value is not None:
                    labs |= sub.L(n.value, sub.env)
            return {(f, fl) for (_, f, fl, _) in labs}
        return None

    # ---- expression labels
    def L(self, e, env):
        if e is None:
            return EMPTY
        if isinstance(e, ast.Name):
            return env.get(e.id, EMPTY)
        if isinstance(e, ast.Attribute):
            if isinstance(e.value, ast.Name) and (e.value.id in self.params or e.value.id in self.extra_roots):
                p = e.value.id
                pf = self.prop_flavour(e.attr)
                if pf is not None:
                    return frozenset((p, f, fl, False) for (f, fl) in pf)
                return frozenset((p, e.attr, "full", False) for _ in [0])
            base = self.L(e.value, env)
            if self.project_slots and any(f in self.project_slots and fl == "full" for (_, f, fl, _) in base):
                # one attribute of a child aggregator (`self.denominator.entries`) is not the child
                return frozenset((p, f, ("part" if (f in self.project_slots and fl == "full") else fl), z) for (p, f, fl, z) in base)
            cps = getattr(self, "container_project_slots", None)
            if cps and isinstance(e.value, (ast.Name, ast.Subscript)) and any(f in cps and fl == "full" for (_, f, fl, _) in base):
                # one attribute of an ELEMENT of a child container (`v1.entries` for v1 in self.values) is not the child
                return frozenset((p, f, ("part" if (f in cps and fl == "full") else fl), z) for (p, f, fl, z) in base)
            return base
        if isinstance(e, ast.Subscript):
            base = self.L(e.value, env)
            sl = e.slice
            if isinstance(sl, ast.Slice) and not (sl.lower is None and sl.upper is None and sl.step is None):
                # a proper slice drops elements: what flows on is only part of the field
                return relabel(base, "part") | self.L(sl, env)
            return relabel(base, "full") | self.L(e.slice, env)
        if isinstance(e, ast.Call):
            return self.call(e, env)
        if isinstance(e, (ast.ListComp, ast.SetComp, ast.GeneratorExp)):
            env2 = self.comp_env(e.generators, env)
            return self.L(e.elt, env2)
        if isinstance(e, ast.DictComp):
            env2 = self.comp_env(e.generators, env)
            return self.L(e.key, env2) | self.L(e.value, env2)
        if isinstance(e, ast.Lambda):
            return self.L(e.body, env)
        if isinstance(e, ast.IfExp):
            return self.L(e.body, env) | self.L(e.orelse, env) | relabel(self.L(e.test, env), None)
        if isinstance(e, ast.Starred):
            return self.L(e.value, env)
        out = EMPTY
        for c in ast.iter_child_nodes(e):
            if isinstance(c, ast.expr):
                out |= self.L(c, env)
        return out

    def elems(self, it, env):
        """Labels of the elements obtained by iterating `it`."""
        if isinstance(it, ast.Attribute) and isinstance(it.value, ast.Name) and it.value.id in (self.params | self.extra_roots):
            labs = self.L(it, env)
            if it.attr in self.dict_fields and not self.is_prop(it.attr):
                return relabel(labs, "keys")
            return labs
        if isinstance(it, ast.Name):
            labs = env.get(it.id, EMPTY)
            if it.id in self.dict_locals:
                return relabel(labs, "keys")
            return labs
        return self.L(it, env)

    def call(self, e, env):
        fn = e.func
        name = fn.id if isinstance(fn, ast.Name) else (fn.attr if isinstance(fn, ast.Attribute) else None)
        if isinstance(fn, ast.Name) and (fn.id in self.params or fn.id in self.extra_roots) and self.cls is not None:
            # self(k) / other(k): the class's __call__
            r = self.repo.lookup(self.cls, "__call__")
            if isinstance(r, FuncInfo):
                sub = FieldTaint(self.repo, self.cls, r, [r.params[0]], self.dict_fields)
                labs = EMPTY
                for n in ast.walk(r.node):
                    if isinstance(n, ast.Return) and n.value is not None:
                        labs |= sub.L(n.value, sub.env)
                return frozenset((fn.id, f, fl, z) for (_, f, fl, z) in labs)
        if isinstance(fn, ast.Name):
            if name in ("sorted", "list", "tuple", "set", "iter", "reversed", "enumerate", "frozenset", "min", "max", "sum", "any", "all", "map", "filter"):
                out = EMPTY
                for a in e.args:
                    out |= self.elems(a, env)
                if name in ("set", "frozenset") and getattr(self, "sets_lose_order", False):
                    # set(seq) forgets order and multiplicity of a sequence: only part of a positional layout
                    out = relabel(out, "part")
                for k in e.keywords:
                    out |= self.L(k.value, env)
                return out
            if name == "len":
                out = EMPTY
                for a in e.args:
                    out |= relabel(self.L(a, env), "len")
                return out
            if name == "zip":
                out = EMPTY
                for a in e.args:
                    out |= relabel(self.elems(a, env), None, zipped=True)
                return out
            if name == "dict":
                out = EMPTY
                for a in e.args:
                    out |= self.L(a, env)
                for k in e.keywords:
                    out |= self.L(k.value, env)
                return out
        if isinstance(fn, ast.Attribute):
            recv = self.L(fn.value, env)
            if name == "keys":
                return relabel(recv, "keys")
            if name in ("items", "values", "get", "copy", "union", "intersection"):
                out = relabel(recv, "full")
                for a in e.args:
                    out |= self.L(a, env)
                return out
        out = EMPTY
        if isinstance(fn, ast.Attribute):
            out |= self.L(fn.value, env)
        elif not isinstance(fn, ast.Name):
            out |= self.L(fn, env)
        for a in e.args:
            out |= self.L(a, env)
        for k in e.keywords:
            out |= self.L(k.value, env)
        return out

    # ---- binding
    def bind(self, target, value_labels, env, iter_expr=None):
        """Bind target names; for tuple targets over zip distribute positionally."""
        if isinstance(target, ast.Name):
            env[target.id] = env.get(target.id, EMPTY) | value_labels
        elif isinstance(target, (ast.Tuple, ast.List)):
            if iter_expr is not None and isinstance(iter_expr, ast.Call) and isinstance(iter_expr.func, ast.Name) and \
                    iter_expr.func.id == "zip" and len(iter_expr.args) == len(target.elts):
                for t, a in zip(target.elts, iter_expr.args):
                    self.bind(t, relabel(self.elems(a, env), None, zipped=True), env)
            elif iter_expr is not None and isinstance(iter_expr, ast.Call) and isinstance(iter_expr.func, ast.Name) and \
                    iter_expr.func.id == "enumerate" and len(target.elts) == 2 and iter_expr.args:
                el = self.elems(iter_expr.args[0], env)
                if getattr(self, "one_sided", False):
                    el = relabel(el, None, zipped=True)
                self.bind(target.elts[1], el, env)
                self.bind(target.elts[0], EMPTY, env)
            elif iter_expr is not None and isinstance(iter_expr, ast.Call) and isinstance(iter_expr.func, ast.Attribute) and \
                    iter_expr.func.attr == "items" and len(target.elts) == 2:
                base = self.L(iter_expr.func.value, env)
                one = bool(getattr(self, "one_sided", False))
                self.bind(target.elts[0], relabel(base, "keys"), env)
                self.bind(target.elts[1], relabel(base, "full", zipped=True) if one else relabel(base, "full"), env)
            else:
                for t in target.elts:
                    self.bind(t, value_labels, env)
        elif isinstance(target, ast.Starred):
            self.bind(target.value, value_labels, env)

    def comp_env(self, generators, env):
        env2 = dict(env)
        for g in generators:
            labs = self.elems(g.iter, env2)
            if getattr(self, "one_sided", False):
                # elements obtained by iterating ONE operand: a comparison on them sees only that operand's elements (like zip)
                labs = frozenset((p, f, fl, True) for (p, f, fl, z) in labs)
            self.bind(g.target, labs, env2, g.iter)
        return env2

    def root_of_target(self, t):
        """(root name, field) if t is root.F or root.F[...]... for a tracked root."""
        base = t
        while isinstance(base, (ast.Subscript,)):
            base = base.value
        if isinstance(base, ast.Attribute) and isinstance(base.value, ast.Name) and (
                base.value.id in self.params or base.value.id in self.extra_roots):
            return base.value.id, base.attr
        return None

    def _fix(self):
        self.dict_locals = set()
        self.field_stores = {}   # (root, field) -> [(labels of stored value, stmt node, kind)]
        env = dict(self.init_env)
        body = self.func.node
        from .astutil import walk_local_stmt

        for _ in range(6):
            before = {k: v for k, v in env.items()}
            for n in walk_local_stmt(body):
                if isinstance(n, ast.Assign):
                    labs = self.L(n.value, env)
                    for t in n.targets:
                        if isinstance(t, ast.Name) and isinstance(n.value, (ast.Dict, ast.DictComp)):
                            self.dict_locals.add(t.id)
                        if isinstance(t, (ast.Name, ast.Tuple, ast.List)):
                            self.bind(t, labs, env, None)
                        elif isinstance(t, ast.Subscript) and isinstance(t.value, ast.Name):
                            # x[k] = v : v flows into x
                            env[t.value.id] = env.get(t.value.id, EMPTY) | labs | relabel(self.L(t.slice, env), None)
                elif isinstance(n, ast.AugAssign):
                    labs = self.L(n.value, env)
                    if isinstance(n.target, ast.Name):
                        env[n.target.id] = env.get(n.target.id, EMPTY) | labs
                    elif isinstance(n.target, ast.Subscript) and isinstance(n.target.value, ast.Name):
                        env[n.target.value.id] = env.get(n.target.value.id, EMPTY) | labs
                elif isinstance(n, ast.For):
                    self.bind(n.target, self.elems(n.iter, env), env, n.iter)
                elif isinstance(n, ast.Expr) and isinstance(n.value, ast.Call) and isinstance(n.value.func, ast.Attribute):
                    c = n.value
                    if c.func.attr in ("append", "extend", "add", "update", "insert") and isinstance(c.func.value, ast.Name):
                        labs = EMPTY
                        for a in c.args:
                            labs |= self.L(a, env)
                        env[c.func.value.id] = env.get(c.func.value.id, EMPTY) | labs
            if env == before:
                break
        self.env = env
        for n in walk_local_stmt(body):
            if isinstance(n, (ast.Assign, ast.AugAssign)):
                tg = n.targets if isinstance(n, ast.Assign) else [n.target]
                flat = []
                for t in tg:
                    flat += list(t.elts) if isinstance(t, (ast.Tuple, ast.List)) else [t]
                for t in flat:
                    rf = self.root_of_target(t)
                    if rf is not None:
                        kind = "aug" if isinstance(n, ast.AugAssign) else ("elem" if isinstance(t, ast.Subscript) else "set")
                        labs = self.L(n.value, env)
                        if isinstance(t, ast.Subscript):
                            labs = labs | relabel(self.L(t.slice, env), None)
                        self.field_stores.setdefault(rf, []).append((labs, n, kind))
            elif isinstance(n, ast.Expr) and isinstance(n.value, ast.Call) and isinstance(n.value.func, ast.Attribute):
                c = n.value
                if c.func.attr in ("append", "extend", "add", "update", "insert", "setdefault"):
                    rf = self.root_of_target(c.func.value)
                    if rf is not None:
                        labs = EMPTY
                        for a in c.args:
                            labs |= self.L(a, env)
                        self.field_stores.setdefault(rf, []).append((labs, n, "elem"))

    # ---- traversal with comprehension scopes
    def visit_exprs(self, root, fn):
        """Call fn(node, env) for every expression node under root with the environment valid at that node."""

        def rec(n, env):
            if isinstance(n, (ast.ListComp, ast.SetComp, ast.GeneratorExp, ast.DictComp)):
                env2 = self.comp_env(n.generators, env)
                fn(n, env)
                for g in n.generators:
                    rec(g.iter, env)
                    for i in g.ifs:
                        rec(i, env2)
                if isinstance(n, ast.DictComp):
                    rec(n.key, env2)
                    rec(n.value, env2)
                else:
                    rec(n.elt, env2)
                return
            if isinstance(n, (ast.FunctionDef, ast.AsyncFunctionDef, ast.ClassDef)) and n is not root:
                return
            if isinstance(n, ast.expr):
                fn(n, env)
            for c in ast.iter_child_nodes(n):
                rec(c, env)

        rec(root, self.env)
