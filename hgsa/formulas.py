"""Extraction of the accumulator formulas that the code writes (fill, __add__, _numpy, __iadd__) as rational functions."""

import ast

from .astutil import docstring_stripped
from .poly import Rat, Scenario, Unsupported, formula, straightline


class LeafScenario(Scenario):
    """Finite datum and state; emptiness of the operands is given explicitly."""

    def __init__(self, self_empty=False, other_empty=False, selfname="self", othername="other"):
        super().__init__()
        self.self_empty = self_empty
        self.other_empty = other_empty
        self.sn = selfname
        self.on = othername

    def sign_of(self, e, env):
        """+1 / 0 / None: sign of a numeric expression in this scenario, decided on its VALUE (so local aliases such as
        `ca = self.entries` or `ca_plus_cb = ca + float(weights.sum())` need no name conventions)."""
        try:
            v = formula(e, env, opaque_user)
        except Unsupported:
            return None
        positive = {"weight", "w", "W", "t"}
        zero = set()
        for who, empty in ((self.sn, self.self_empty), (self.on, self.other_empty)):
            (zero if empty else positive).add(f"{who}.entries")
        if not (len(v.d.t) == 1 and () in v.d.t and v.d.t[()] > 0):
            return None
        def is_pos(sym):
            # entries of any non-empty operand (also the operands A, B, C of composed merges) are positive
            return sym in positive or (sym.endswith(".entries") and sym not in zero)
        terms = {}
        for m, c in v.n.t.items():
            if any(s in zero for s, _ in m):
                continue
            terms[m] = c
        if not terms:
            return 0
        if all(c > 0 and all(is_pos(s) for s, _ in m) for m, c in terms.items()):
            return 1
        return None

    def eval(self, test, env):
        if isinstance(test, ast.Compare) and len(test.ops) == 1 and ast.unparse(test.comparators[0]) in ("0.0", "0"):
            sg = self.sign_of(test.left, env)
            if sg is not None:
                op = test.ops[0]
                table = {ast.Eq: sg == 0, ast.NotEq: sg != 0, ast.Gt: sg > 0, ast.GtE: True, ast.Lt: False, ast.LtE: sg == 0}
                if type(op) in table:
                    return table[type(op)]
        if isinstance(test, ast.Compare) and len(test.ops) == 1 and type(test.ops[0]) in (ast.Gt, ast.GtE, ast.Lt, ast.LtE, ast.Eq, ast.NotEq):
            # `L > R` between two numeric expressions: the sign of the VALUE of L - R in this scenario (`ca_plus_cb > ca`: the batch weight)
            diff = ast.BinOp(left=test.left, op=ast.Sub(), right=test.comparators[0])
            sg = self.sign_of(diff, env)
            if sg is not None:
                op = test.ops[0]
                table = {ast.Eq: sg == 0, ast.NotEq: sg != 0, ast.Gt: sg > 0, ast.GtE: True, ast.Lt: False, ast.LtE: sg == 0}
                return table[type(op)]
            rdiff = ast.BinOp(left=test.comparators[0], op=ast.Sub(), right=test.left)          # `ca < ca_plus_cb`: the mirrored spelling
            sg = self.sign_of(rdiff, env)
            if sg is not None:
                op = test.ops[0]
                table = {ast.Eq: sg == 0, ast.NotEq: sg != 0, ast.Lt: sg > 0, ast.LtE: True, ast.Gt: False, ast.GtE: sg == 0}
                return table[type(op)]
            if isinstance(test.ops[0], (ast.Eq, ast.NotEq)) and ast.unparse(test.comparators[0]) not in ("0.0", "0") and ast.unparse(test.left) not in ("0.0", "0"):
                # `other.mean != self.mean`: two different symbolic values differ in the generic case the scenario stands for;
                # identical expressions are equal
                try:
                    d = formula(diff, env, opaque_user)
                    same = d.equals(Rat.const(0))
                    return same if isinstance(test.ops[0], ast.Eq) else (not same)
                except Unsupported:
                    pass
        if isinstance(test, ast.Call):
            fn = ast.unparse(test.func)
            if fn == "isinstance":
                return True
            if fn in ("math.isnan", "math.isinf", "numpy.isnan", "np.isnan", "numpy.isinf", "np.isinf"):
                return False
            if fn in ("math.isfinite", "numpy.isfinite", "np.isfinite"):
                return True
        if isinstance(test, ast.Compare) and len(test.ops) == 1:
            l, op, r = ast.unparse(test.left), test.ops[0], ast.unparse(test.comparators[0])
            if l in ("0.0", "0") and r not in ("0.0", "0") and isinstance(op, (ast.Eq, ast.NotEq)):
                l, r = r, l          # `0.0 == x` reads as `x == 0.0`
            zero = r in ("0.0", "0")
            if zero and isinstance(op, (ast.Eq, ast.NotEq)):
                val = None
                if l in (f"{self.sn}.entries", "ca"):
                    val = self.self_empty
                elif l == f"{self.on}.entries":
                    val = self.other_empty
                if val is not None:
                    return val if isinstance(op, ast.Eq) else (not val)
            if zero and isinstance(op, ast.Gt) and l in ("weight", "w", "ca_plus_cb"):
                return True
            if zero and isinstance(op, (ast.LtE, ast.Lt)) and l in ("weight", "w"):
                return False
            if l in ("0.0", "0") and r in ("weight", "w", "ca_plus_cb"):
                if isinstance(op, (ast.Lt, ast.LtE)):
                    return True
                if isinstance(op, (ast.Gt, ast.GtE)):
                    return False
        return super().eval(test, env)


def opaque_user(e, env):
    """self.quantity(datum) -> q ; self.transform(weight) -> t ; numpy reductions -> symbols named by their text."""
    fn = ast.unparse(e.func)
    if fn.endswith(".quantity"):
        return Rat.sym("q")
    if fn.endswith(".transform"):
        return Rat.sym("t")
    if fn in ("numpy.average", "np.average"):
        # the weighted mean of squared deviations (x - m) * (x - m) or (x - m) ** 2, versus the weighted mean of x itself
        a0 = e.args[0] if e.args else None
        squared = (isinstance(a0, ast.BinOp) and isinstance(a0.op, ast.Mult) and ast.unparse(a0.left) == ast.unparse(a0.right)
                   and isinstance(a0.left, ast.BinOp) and isinstance(a0.left.op, ast.Sub)) or \
                  (isinstance(a0, ast.BinOp) and isinstance(a0.op, ast.Pow) and isinstance(a0.right, ast.Constant) and a0.right.value == 2
                   and isinstance(a0.left, ast.BinOp) and isinstance(a0.left.op, ast.Sub))
        return Rat.sym("AVG2" if squared else "MB")
    if fn.endswith(".sum") and not e.args:
        return Rat.sym("W")
    raise Unsupported(f"call `{ast.unparse(e)}` in a formula")


def symbols_for(prefix, fields):
    return {f"{prefix}.{f}": Rat.sym(f"{prefix}.{f}") for f in fields}


def run_body(f, env, scenario, opaque=opaque_user):
    rets = []
    straightline(docstring_stripped(f.node.body), env, scenario, opaque, rets)
    return env, rets


def fill_state(f, fields, scenario, init=None):
    """State (field -> Rat) after one fill(datum, weight) starting from `init` (default: symbolic state)."""
    sn = f.params[0]
    env = {}
    for fld in fields:
        env[f"{sn}.{fld}"] = (init or {}).get(fld, Rat.sym(f"{sn}.{fld}"))
    env, _ = run_body(f, env, scenario)
    return {fld: env[f"{sn}.{fld}"] for fld in fields}


def add_state(f, fields, scenario, self_state=None, other_state=None):
    """Fields of the object returned by __add__ (through the local that is returned)."""
    sn, on = f.params
    env = {}
    for fld in fields:
        env[f"{sn}.{fld}"] = (self_state or {}).get(fld, Rat.sym(f"{sn}.{fld}"))
        env[f"{on}.{fld}"] = (other_state or {}).get(fld, Rat.sym(f"{on}.{fld}"))
    env, rets = run_body(f, env, scenario)
    if not rets:
        raise Unsupported(f"{f.qualname}: no return on the selected branch")
    rv = rets[-1]
    while isinstance(rv, ast.Call) and isinstance(rv.func, ast.Attribute) and rv.func.attr == "specialize":
        rv = rv.func.value
    if not isinstance(rv, ast.Name):
        raise Unsupported(f"{f.qualname}: returned expression `{ast.unparse(rv)}` is not a local")
    out = rv.id
    res = {}
    for fld in fields:
        k = f"{out}.{fld}"
        if k not in env:
            raise Unsupported(f"{f.qualname}: `{k}` is never assigned on the selected branch")
        res[fld] = env[k]
    return res
