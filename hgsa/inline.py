"""Canonicalisation, part 2: small private helpers are inlined at their call sites (N8), early `return` guards are unfolded
(N5b) and "select an alias, then use it once" is pushed back into the branches (N9).

Why: the rules of this analyser are mostly intraprocedural.  Extracting a few lines into a private helper (or a local
function), returning early instead of nesting, or choosing a sub-aggregator into a local before one common call are
behaviour-preserving edits; after these rewrites the rules see the same statements as before such an edit.  Every rewrite
preserves the meaning of the program for the analyses (same effects in the same order on every path; only evaluation of
argument expressions may be textually duplicated).  When a helper cannot be inlined safely it is left alone.

Inlined statements carry the line number of the call site.
"""

import ast
import copy

MAX_DEPTH = 3
MAX_STMTS = 60


def _names_stored(node):
    out = set()
    for x in ast.walk(node):
        if isinstance(x, ast.Name) and isinstance(x.ctx, (ast.Store, ast.Del)):
            out.add(x.id)
    return out


def _simple_arg(e):
    if isinstance(e, (ast.Name, ast.Constant)):
        return True
    if isinstance(e, ast.Attribute):
        return _simple_arg(e.value)
    if isinstance(e, ast.UnaryOp) and isinstance(e.op, ast.USub):
        return _simple_arg(e.operand)
    return False


PURE_FUNCS = {"len", "set", "frozenset", "list", "tuple", "sorted", "dict", "zip", "enumerate", "abs", "min", "max", "float", "int", "str", "bool",
              "isinstance", "hasattr", "getattr", "all", "any", "sum", "reversed", "range"}
PURE_METHODS = {"keys", "values", "items", "get", "copy"}


def _pure_arg(e):
    """an argument expression that may be evaluated several times without changing the meaning for the analyses"""
    for x in ast.walk(e):
        if isinstance(x, (ast.Await, ast.Yield, ast.YieldFrom, ast.NamedExpr, ast.Lambda)):
            return False
        if isinstance(x, ast.Call):
            f = x.func
            if isinstance(f, ast.Name) and f.id in PURE_FUNCS:
                continue
            if isinstance(f, ast.Attribute) and f.attr in PURE_METHODS:
                continue
            return False
    return True


NEG = {ast.Eq: ast.NotEq, ast.NotEq: ast.Eq, ast.Is: ast.IsNot, ast.IsNot: ast.Is, ast.In: ast.NotIn, ast.NotIn: ast.In}


def negate(e):
    if isinstance(e, ast.UnaryOp) and isinstance(e.op, ast.Not):
        return e.operand
    if isinstance(e, ast.Compare) and len(e.ops) == 1 and type(e.ops[0]) in NEG:
        return ast.Compare(left=e.left, ops=[NEG[type(e.ops[0])]()], comparators=e.comparators)
    if isinstance(e, ast.Constant) and isinstance(e.value, bool):
        return ast.Constant(value=not e.value)
    return ast.UnaryOp(op=ast.Not(), operand=e)


def _and(a, b):
    vals = (a.values if isinstance(a, ast.BoolOp) and isinstance(a.op, ast.And) else [a]) + \
           (b.values if isinstance(b, ast.BoolOp) and isinstance(b.op, ast.And) else [b])
    return ast.BoolOp(op=ast.And(), values=vals)


def _or(a, b):
    vals = (a.values if isinstance(a, ast.BoolOp) and isinstance(a.op, ast.Or) else [a]) + \
           (b.values if isinstance(b, ast.BoolOp) and isinstance(b.op, ast.Or) else [b])
    return ast.BoolOp(op=ast.Or(), values=vals)


def boolify(e):
    """a conditional expression used only for its truth value, written with and/or/not"""
    if isinstance(e, ast.IfExp):
        c, a, b = boolify(e.test), boolify(e.body), boolify(e.orelse)
        if isinstance(a, ast.Constant) and a.value is True:
            return _or(c, b)
        if isinstance(a, ast.Constant) and a.value is False:
            return _and(negate(c), b)
        if isinstance(b, ast.Constant) and b.value is True:
            return _or(negate(c), a)
        if isinstance(b, ast.Constant) and b.value is False:
            return _and(c, a)
        return _or(_and(c, a), _and(negate(c), b))
    if isinstance(e, ast.UnaryOp) and isinstance(e.op, ast.Not):
        return negate(boolify(e.operand))
    if isinstance(e, ast.BoolOp):
        return ast.BoolOp(op=e.op, values=[boolify(v) for v in e.values])
    return e


def always_exits(stmts):
    if not stmts:
        return False
    last = stmts[-1]
    if isinstance(last, (ast.Return, ast.Raise)):
        return True
    if isinstance(last, ast.If):
        return bool(last.orelse) and always_exits(last.body) and always_exits(last.orelse)
    return False


def _has_return(node):
    for x in ast.walk(node):
        if isinstance(x, ast.Return):
            return True
    return False


class GiveUp(Exception):
    pass


def lower_returns(stmts, ret):
    """Rewrite a statement list so that instead of `return E` the name `ret` is assigned and control reaches the end of the
    list.  Supports returns in if-chains and in for/while loops without own breaks (via the loop's else clause)."""
    out = []
    for i, st in enumerate(stmts):
        rest = stmts[i + 1:]
        if isinstance(st, ast.Return):
            val = st.value if st.value is not None else ast.Constant(value=None)
            out.append(ast.Assign(targets=[ast.Name(id=ret, ctx=ast.Store())], value=val))
            return out
        if not _has_return(st):
            out.append(st)
            continue
        if isinstance(st, ast.If):
            body_rest = [] if always_exits(st.body) else copy.deepcopy(rest)
            else_rest = [] if (st.orelse and always_exits(st.orelse)) else rest
            new = ast.If(test=st.test, body=lower_returns(st.body + body_rest, ret), orelse=lower_returns(list(st.orelse) + else_rest, ret))
            out.append(new)
            return out
        if isinstance(st, (ast.For, ast.While)):
            if any(isinstance(x, (ast.Break, ast.Continue)) for x in ast.walk(st)) or st.orelse:
                raise GiveUp("loop with break/continue/else and return")
            for x in ast.walk(st):
                if x is not st and isinstance(x, (ast.For, ast.While)) and _has_return(x):
                    raise GiveUp("return in a nested loop")
            new = copy.copy(st)
            new.body = _returns_to_breaks(st.body, ret)
            new.orelse = lower_returns(rest, ret)
            out.append(new)
            return out
        raise GiveUp(f"return inside {type(st).__name__}")
    out.append(ast.Assign(targets=[ast.Name(id=ret, ctx=ast.Store())], value=ast.Constant(value=None)))
    return out


def _returns_to_breaks(stmts, ret):
    out = []
    for st in stmts:
        if isinstance(st, ast.Return):
            val = st.value if st.value is not None else ast.Constant(value=None)
            out.append(ast.Assign(targets=[ast.Name(id=ret, ctx=ast.Store())], value=val))
            out.append(ast.Break())
            return out
        if isinstance(st, ast.If) and _has_return(st):
            new = ast.If(test=st.test, body=_returns_to_breaks(st.body, ret), orelse=_returns_to_breaks(st.orelse, ret))
            out.append(new)
        elif _has_return(st):
            raise GiveUp(f"return inside {type(st).__name__} in a loop")
        else:
            out.append(st)
    return out


def as_expression(stmts):
    """A body made only of if/return chains (every path returns) as one conditional expression; None otherwise."""
    if not stmts:
        return None
    st = stmts[0]
    rest = stmts[1:]
    if isinstance(st, ast.Return):
        return st.value if st.value is not None else ast.Constant(value=None)
    if isinstance(st, ast.For) and not st.orelse and len(rest) == 1 and isinstance(rest[0], ast.Return) and isinstance(rest[0].value, ast.Constant) \
            and rest[0].value.value is True and st.body and all(
                isinstance(b, ast.If) and not b.orelse and len(b.body) == 1 and isinstance(b.body[0], ast.Return) and isinstance(b.body[0].value, ast.Constant)
                and b.body[0].value.value is False for b in st.body):
        # for x in xs: if c1: return False ; if c2: return False ... ; return True      ==      all(not c1 and not c2 for x in xs)
        conds = [negate(b.test) for b in st.body]
        elt = conds[0] if len(conds) == 1 else ast.BoolOp(op=ast.And(), values=conds)
        gen = ast.GeneratorExp(elt=elt, generators=[ast.comprehension(target=st.target, iter=st.iter, ifs=[], is_async=0)])
        return ast.Call(func=ast.Name(id="all", ctx=ast.Load()), args=[gen], keywords=[])
    if isinstance(st, ast.If):
        body_rest = [] if always_exits(st.body) else rest
        else_rest = [] if (st.orelse and always_exits(st.orelse)) else rest
        a = as_expression(list(st.body) + body_rest)
        b = as_expression(list(st.orelse) + else_rest)
        if a is None or b is None:
            return None
        return ast.IfExp(test=st.test, body=a, orelse=b)
    return None


class _Subst(ast.NodeTransformer):
    def __init__(self, mapping, rename):
        self.mapping = mapping    # name -> expression (loads only)
        self.rename = rename      # name -> new name (all contexts)

    def visit_Name(self, n):
        if n.id in self.rename:
            return ast.copy_location(ast.Name(id=self.rename[n.id], ctx=n.ctx), n)
        if n.id in self.mapping and isinstance(n.ctx, ast.Load):
            return copy.deepcopy(self.mapping[n.id])
        return n


class Inliner:
    def __init__(self, tree):
        self.tree = tree
        self.classes = {}
        for n in tree.body:
            if isinstance(n, ast.ClassDef):
                self.classes[n.name] = n
        self.counter = 0
        # private module-level helper functions (`def _asSet(x): ...`)
        self.module_fns = {n.name: n for n in tree.body if isinstance(n, ast.FunctionDef) and n.name.startswith("_") and not n.name.startswith("__")}

    # ---- helper lookup
    def method(self, cls, name, _seen=None):
        _seen = _seen or set()
        if cls is None or cls.name in _seen:
            return None
        _seen.add(cls.name)
        for b in cls.body:
            if isinstance(b, ast.FunctionDef) and b.name == name:
                return b
        for base in cls.bases:
            if isinstance(base, ast.Name) and base.id in self.classes:
                r = self.method(self.classes[base.id], name, _seen)
                if r is not None:
                    return r
        return None

    @staticmethod
    def kind_of(fn):
        decos = [ast.unparse(d) for d in fn.decorator_list]
        if any(d not in ("staticmethod", "classmethod") for d in decos):
            return None
        if "classmethod" in decos:
            return None
        return "static" if "staticmethod" in decos else "method"

    @staticmethod
    def eligible(fn, private=True):
        if private and not (fn.name.startswith("_") and not fn.name.startswith("__")):
            return False
        a = fn.args
        if a.vararg or a.kwarg or a.kwonlyargs or a.posonlyargs:
            return False
        body = [b for b in fn.body if not (isinstance(b, ast.Expr) and isinstance(b.value, ast.Constant))]
        n = sum(1 for x in ast.walk(fn) if isinstance(x, ast.stmt))
        if n > MAX_STMTS or not body:
            return False
        for x in ast.walk(fn):
            if x is not fn and isinstance(x, (ast.FunctionDef, ast.AsyncFunctionDef, ast.ClassDef)):
                return False
            if isinstance(x, (ast.Yield, ast.YieldFrom, ast.Await, ast.Global, ast.Nonlocal)):
                return False
            if isinstance(x, (ast.Try, ast.With)) and any(isinstance(y, ast.Return) for y in ast.walk(x)):
                return False
        for d in a.defaults:
            if not isinstance(d, ast.Constant):
                return False
        # a method that calls its own name on other objects is a recursive tree walk, not a local helper
        for x in ast.walk(fn):
            if isinstance(x, ast.Call) and isinstance(x.func, ast.Attribute) and x.func.attr == fn.name:
                return False
        return True

    # ---- one call site
    def bind(self, fn, kind, call, receiver):
        """param -> argument expression (defaults included); None if the call does not fit"""
        params = [p.arg for p in fn.args.args]
        binding = {}
        if kind == "method":
            if not params:
                return None
            if receiver is not None:
                binding[params[0]] = receiver
                params = params[1:]
        if any(isinstance(a, ast.Starred) for a in call.args) or any(k.arg is None for k in call.keywords):
            return None
        if len(call.args) > len(params):
            return None
        for p, a in zip(params, call.args):
            binding[p] = a
        for k in call.keywords:
            if k.arg not in params or k.arg in binding:
                return None
            binding[k.arg] = k.value
        defaults = fn.args.defaults
        allp = [p.arg for p in fn.args.args]
        for p, d in zip(allp[len(allp) - len(defaults):], defaults):
            binding.setdefault(p, d)
        if any(p not in binding for p in params):
            return None
        return binding

    def resolve(self, call, cls, selfname, local_fns):
        f = call.func
        if isinstance(f, ast.Attribute) and isinstance(f.value, ast.Name):
            if selfname and f.value.id == selfname and cls is not None:
                fn = self.method(cls, f.attr)
                if fn is not None and self.eligible(fn):
                    k = self.kind_of(fn)
                    if k == "method":
                        return fn, k, ast.Name(id=selfname, ctx=ast.Load())
                    if k == "static":
                        return fn, k, None
            elif f.value.id in self.classes:
                fn = self.method(self.classes[f.value.id], f.attr)
                if fn is not None and self.eligible(fn):
                    k = self.kind_of(fn)
                    if k == "static":
                        return fn, k, None
                    if k == "method":
                        return fn, k, None      # explicit receiver is the first argument
        if isinstance(f, ast.Name) and f.id in local_fns:
            fn = local_fns[f.id]
            if self.eligible(fn, private=False) and not fn.decorator_list:
                return fn, "static", None
        if isinstance(f, ast.Name) and f.id in self.module_fns:
            fn = self.module_fns[f.id]
            if self.eligible(fn) and not fn.decorator_list:
                return fn, "static", None
        return None

    def instantiate(self, fn, binding, caller_fn):
        """(prelude statements, body statements, substitution) with fresh names"""
        self.counter += 1
        tag = f"_i{self.counter}_"
        body = [copy.deepcopy(b) for b in fn.body if not (isinstance(b, ast.Expr) and isinstance(b.value, ast.Constant))]
        stored = set()
        for b in body:
            stored |= _names_stored(b)
        params = set(binding)
        rename = {n: tag + n for n in stored if n not in params}
        mapping = {}
        prelude = []
        for p, a in binding.items():
            if p in stored or not (_simple_arg(a) or _pure_arg(a)):
                fresh = tag + p
                prelude.append(ast.Assign(targets=[ast.Name(id=fresh, ctx=ast.Store())], value=copy.deepcopy(a)))
                rename[p] = fresh
            else:
                mapping[p] = a
        sub = _Subst(mapping, rename)
        body = [sub.visit(b) for b in body]
        return prelude, body, tag

    # ---- statements
    def calls_in(self, st):
        """helper-call candidates in a simple statement, excluding conditionally evaluated positions"""
        out = []

        def walk(e, cond):
            if isinstance(e, (ast.Lambda, ast.ListComp, ast.SetComp, ast.DictComp, ast.GeneratorExp)):
                for ch in ast.iter_child_nodes(e):
                    walk(ch, True)
                return
            if isinstance(e, ast.BoolOp):
                walk(e.values[0], cond)
                for v in e.values[1:]:
                    walk(v, True)
                return
            if isinstance(e, ast.IfExp):
                walk(e.test, cond)
                walk(e.body, True)
                walk(e.orelse, True)
                return
            if isinstance(e, ast.Call):
                out.append((e, cond))
            for ch in ast.iter_child_nodes(e):
                walk(ch, cond)
        walk(st, False)
        return out

    def process_block(self, stmts, cls, selfname, local_fns, caller_fn, depth=0):
        out = []
        for st in stmts:
            if isinstance(st, ast.FunctionDef):
                local_fns = dict(local_fns)
                local_fns[st.name] = st
                out.append(st)
                continue
            if isinstance(st, (ast.If, ast.For, ast.While, ast.With, ast.Try)):
                for fld in ("body", "orelse", "finalbody"):
                    b = getattr(st, fld, None)
                    if isinstance(b, list) and b and isinstance(b[0], ast.stmt):
                        setattr(st, fld, self.process_block(b, cls, selfname, local_fns, caller_fn, depth))
                for h in getattr(st, "handlers", []) or []:
                    h.body = self.process_block(h.body, cls, selfname, local_fns, caller_fn, depth)
                # an `if` evaluates its test exactly once: helper calls there can be inlined in front of the statement
                if isinstance(st, ast.If) and depth < MAX_DEPTH:
                    probe = ast.Expr(value=st.test)
                    probe._keep_value = True
                    ast.copy_location(probe, st)
                    pre = self.process_block([probe], cls, selfname, local_fns, caller_fn, depth + 1)
                    if len(pre) > 1 and pre[-1] is probe:
                        st.test = probe.value
                        out += pre[:-1]
                if isinstance(st, ast.For) and depth < MAX_DEPTH:
                    probe = ast.Expr(value=st.iter)
                    probe._keep_value = True
                    ast.copy_location(probe, st)
                    pre = self.process_block([probe], cls, selfname, local_fns, caller_fn, depth + 1)
                    if len(pre) > 1 and pre[-1] is probe:
                        st.iter = probe.value
                        out += pre[:-1]
                # other helper calls in a header (while test / for iter): only expression-like helpers
                hdr = st.test if isinstance(st, (ast.If, ast.While)) else (st.iter if isinstance(st, ast.For) else None)
                if hdr is not None:
                    new = self.substitute_expressions(hdr, cls, selfname, local_fns)
                    if isinstance(st, (ast.If, ast.While)):
                        st.test = new
                    else:
                        st.iter = new
                out.append(st)
                continue
            if not isinstance(st, (ast.Expr, ast.Assign, ast.AugAssign, ast.AnnAssign, ast.Return)):
                out.append(st)
                continue
            low = self.lower_listcomp(st, cls, selfname, local_fns) if depth < MAX_DEPTH else None
            if low is not None:
                out += self.process_block(low, cls, selfname, local_fns, caller_fn, depth + 1)
                continue
            done = False
            for call, cond in self.calls_in(st):
                r = self.resolve(call, cls, selfname, local_fns)
                if r is None:
                    continue
                fn, kind, receiver = r
                if fn is caller_fn:
                    continue
                binding = self.bind(fn, kind, call, receiver)
                if binding is None:
                    continue
                body0 = [b for b in fn.body if not (isinstance(b, ast.Expr) and isinstance(b.value, ast.Constant))]
                expr = as_expression(body0)
                if cond and expr is None:
                    continue
                prelude, body, tag = self.instantiate(fn, binding, caller_fn)
                if cond and prelude:
                    continue
                new_stmts = None
                if expr is not None and not prelude:
                    e2 = as_expression(body)
                    self.replace_call(st, call, e2)
                    new_stmts = [st]
                elif not cond:
                    ret = tag + "ret"
                    try:
                        lowered = lower_returns(body, ret)
                    except GiveUp:
                        continue
                    if isinstance(st, ast.Expr) and st.value is call and not getattr(st, "_keep_value", False):
                        # a bare call: the returned value is dropped (and so is the bookkeeping assignment of a None result)
                        def strip(block):
                            out2 = []
                            for x in block:
                                if isinstance(x, ast.Assign) and len(x.targets) == 1 and isinstance(x.targets[0], ast.Name) and x.targets[0].id == ret \
                                        and isinstance(x.value, ast.Constant) and x.value.value is None:
                                    continue
                                for fld in ("body", "orelse"):
                                    b2 = getattr(x, fld, None)
                                    if isinstance(b2, list) and b2 and isinstance(b2[0], ast.stmt):
                                        nb = strip(b2)
                                        setattr(x, fld, nb if (nb or fld == "orelse") else [ast.Pass()])
                                out2.append(x)
                            return out2
                        new_stmts = prelude + strip(lowered)
                    else:
                        self.replace_call(st, call, ast.Name(id=ret, ctx=ast.Load()))
                        new_stmts = prelude + lowered + [st]
                if new_stmts is None:
                    continue
                for s2 in new_stmts:
                    if s2 is st:
                        ast.fix_missing_locations(s2)
                        continue
                    # inlined statements are reported at the call site
                    for x in ast.walk(s2):
                        if isinstance(x, (ast.stmt, ast.expr)) or hasattr(x, "lineno"):
                            x.lineno, x.col_offset = st.lineno, st.col_offset
                            x.end_lineno, x.end_col_offset = getattr(st, "end_lineno", st.lineno), getattr(st, "end_col_offset", st.col_offset)
                    ast.fix_missing_locations(s2)
                if depth < MAX_DEPTH:
                    new_stmts = self.process_block(new_stmts, cls, selfname, local_fns, caller_fn, depth + 1)
                out += new_stmts
                done = True
                break
            if not done:
                out.append(st)
        return out

    def lower_listcomp(self, st, cls, selfname, local_fns):
        """N18  v = [helper(x) for x in xs]   ->   v = [] ; for x' in xs: v.append(helper(x'))
        only when the element calls a statement-like helper (guards, raises), which can then be inlined in the loop body"""
        if not (isinstance(st, ast.Assign) and len(st.targets) == 1 and isinstance(st.targets[0], ast.Name) and isinstance(st.value, ast.ListComp)):
            return None
        comp = st.value
        if len(comp.generators) != 1 or comp.generators[0].is_async:
            return None
        gen = comp.generators[0]
        v = st.targets[0].id
        if any(isinstance(x, ast.Name) and x.id == v for x in ast.walk(comp)):
            return None
        wanted = False
        for call, cond in self.calls_in(ast.Expr(value=comp.elt)):
            if cond:
                continue
            r = self.resolve(call, cls, selfname, local_fns)
            if r is None:
                continue
            fn = r[0]
            body0 = [b for b in fn.body if not (isinstance(b, ast.Expr) and isinstance(b.value, ast.Constant))]
            if as_expression(body0) is None and self.bind(fn, r[1], call, r[2]) is not None:
                wanted = True
        if not wanted:
            return None
        self.counter += 1
        tag = f"_i{self.counter}_"
        rename = {x.id: tag + x.id for x in ast.walk(gen.target) if isinstance(x, ast.Name)}
        sub = _Subst({}, rename)
        target = sub.visit(copy.deepcopy(gen.target))
        elt = sub.visit(copy.deepcopy(comp.elt))
        ifs = [sub.visit(copy.deepcopy(c)) for c in gen.ifs]
        app = ast.Expr(value=ast.Call(func=ast.Attribute(value=ast.Name(id=v, ctx=ast.Load()), attr="append", ctx=ast.Load()), args=[elt], keywords=[]))
        body = [app]
        if ifs:
            test = ifs[0] if len(ifs) == 1 else ast.BoolOp(op=ast.And(), values=ifs)
            body = [ast.If(test=test, body=[app], orelse=[])]
        init = ast.Assign(targets=[ast.Name(id=v, ctx=ast.Store())], value=ast.List(elts=[], ctx=ast.Load()))
        loop = ast.For(target=target, iter=gen.iter, body=body, orelse=[])
        for x in (init, loop):
            for y in ast.walk(x):
                if isinstance(y, (ast.stmt, ast.expr)):
                    y.lineno, y.col_offset = st.lineno, st.col_offset
                    y.end_lineno, y.end_col_offset = getattr(st, "end_lineno", st.lineno), getattr(st, "end_col_offset", st.col_offset)
            ast.fix_missing_locations(x)
        return [init, loop]

    def substitute_expressions(self, e, cls, selfname, local_fns):
        """replace calls of expression-like helpers inside an expression"""
        inl = self

        class T(ast.NodeTransformer):
            def visit_Call(self, c):
                self.generic_visit(c)
                r = inl.resolve(c, cls, selfname, local_fns)
                if r is None:
                    return c
                fn, kind, receiver = r
                binding = inl.bind(fn, kind, c, receiver)
                if binding is None:
                    return c
                body0 = [b for b in fn.body if not (isinstance(b, ast.Expr) and isinstance(b.value, ast.Constant))]
                if as_expression(body0) is None:
                    return c
                prelude, body, tag = inl.instantiate(fn, binding, None)
                if prelude:
                    return c
                e2 = as_expression(body)
                ast.copy_location(e2, c)
                ast.fix_missing_locations(e2)
                return e2
        return T().visit(e)

    @staticmethod
    def replace_call(st, call, new):
        class R(ast.NodeTransformer):
            def visit_Call(self, c):
                if c is call:
                    return ast.copy_location(new, c)
                return self.generic_visit(c)
        for fld, val in ast.iter_fields(st):
            if isinstance(val, ast.AST):
                setattr(st, fld, R().visit(val))
            elif isinstance(val, list):
                setattr(st, fld, [R().visit(v) if isinstance(v, ast.AST) else v for v in val])

    def run(self):
        for cls in [None] + list(self.classes.values()):
            fns = [b for b in (cls.body if cls is not None else self.tree.body) if isinstance(b, ast.FunctionDef)]
            for fn in fns:
                selfname = None
                decos = [ast.unparse(d) for d in fn.decorator_list]
                if cls is not None and "staticmethod" not in decos and "classmethod" not in decos and fn.args.args:
                    selfname = fn.args.args[0].arg
                nodes0 = list(ast.walk(fn))
                lf0 = {x.name: x for x in nodes0 if isinstance(x, ast.FunctionDef) and x is not fn}
                if not self.has_candidates(nodes0, cls, selfname, lf0):
                    continue
                try:
                    fn.body = self.process_block(fn.body, cls, selfname, {}, fn)
                except RecursionError:
                    pass
                # expression-like helpers inside comprehensions etc. of simple statements
                nodes = list(ast.walk(fn))
                local_fns = {x.name: x for x in nodes if isinstance(x, ast.FunctionDef) and x is not fn}
                may_call = self.has_candidates(nodes, cls, selfname, local_fns)
                if may_call:
                    for st in nodes:
                        if isinstance(st, (ast.Expr, ast.Assign, ast.AugAssign, ast.Return)) and getattr(st, "value", None) is not None:
                            st.value = self.substitute_expressions(st.value, cls, selfname, local_fns)
                # local functions that are no longer referenced disappear
                if local_fns:
                    self.drop_unused_local_functions(fn)

    def has_candidates(self, nodes, cls, selfname, local_fns):
        """cheap pre-check: is there any call that could resolve to an inlinable helper at all?"""
        for x in nodes:
            if isinstance(x, ast.Call):
                f = x.func
                if isinstance(f, ast.Name) and (f.id in local_fns or f.id in self.module_fns):
                    return True
                if isinstance(f, ast.Attribute) and isinstance(f.value, ast.Name) and f.attr.startswith("_") and not f.attr.startswith("__"):
                    if (selfname and f.value.id == selfname) or f.value.id in self.classes:
                        return True
        return False

    @staticmethod
    def drop_unused_local_functions(fn):
        for node in ast.walk(fn):
            for fld in ("body", "orelse"):
                b = getattr(node, fld, None)
                if not (isinstance(b, list) and b and isinstance(b[0], ast.stmt)):
                    continue
                for st in list(b):
                    if isinstance(st, ast.FunctionDef) and st is not fn:
                        used = any(isinstance(x, ast.Name) and x.id == st.name and isinstance(x.ctx, ast.Load) for x in ast.walk(fn)
                                   if x is not st)
                        inside = {id(x) for x in ast.walk(st)}
                        used = any(isinstance(x, ast.Name) and x.id == st.name and isinstance(x.ctx, ast.Load) and id(x) not in inside
                                   for x in ast.walk(fn))
                        if not used and len(b) > 1:
                            b.remove(st)


# ------------------------------------------------------------------------------------------------ N5b / N9
def unfold_return_guards(fn):
    """N5b  at the top level of a function:  `if T: return` ; rest   ->   `if not T: rest`"""
    changed = True
    while changed:
        changed = False
        b = fn.body
        for i, st in enumerate(b[:-1]):
            if isinstance(st, ast.If) and not st.orelse and len(st.body) == 1 and isinstance(st.body[0], ast.Return) and (
                    st.body[0].value is None or (isinstance(st.body[0].value, ast.Constant) and st.body[0].value.value is None)):
                rest = b[i + 1:]
                if any(isinstance(x, (ast.FunctionDef, ast.ClassDef)) for x in rest):
                    continue
                t = st.test
                test = t.operand if isinstance(t, ast.UnaryOp) and isinstance(t.op, ast.Not) else ast.UnaryOp(op=ast.Not(), operand=t)
                new_if = ast.If(test=test, body=rest, orelse=[])
                ast.copy_location(new_if, st)
                ast.fix_missing_locations(new_if)
                fn.body = b[:i] + [new_if]
                changed = True
                break


def _leaves(ifst):
    """leaf blocks of an if/elif/else chain; None if there is no final else"""
    out = [ifst.body]
    if not ifst.orelse:
        return None
    if len(ifst.orelse) == 1 and isinstance(ifst.orelse[0], ast.If):
        sub = _leaves(ifst.orelse[0])
        if sub is None:
            return None
        return out + sub
    return out + [ifst.orelse]


def sink_alias_selection(tree):
    """N9  if c1: t = A  elif c2: t = B  else: t = C ;  S(t)      ->      if c1: S(A) elif c2: S(B) else: S(C)
    (t is assigned last in every branch, used by the single simple statement that follows and nowhere else afterwards)"""
    for fn in ast.walk(tree):
        if not isinstance(fn, (ast.FunctionDef, ast.AsyncFunctionDef)):
            continue
        for node in ast.walk(fn):
            for fld in ("body", "orelse"):
                b = getattr(node, fld, None)
                if not (isinstance(b, list) and len(b) >= 2 and isinstance(b[0], ast.stmt)):
                    continue
                i = 0
                while i + 1 < len(b):
                    s1, s2 = b[i], b[i + 1]
                    i += 1
                    if not isinstance(s1, ast.If) or not isinstance(s2, (ast.Expr, ast.Assign, ast.AugAssign, ast.Return)):
                        continue
                    leaves = _leaves(s1)
                    if not leaves:
                        continue
                    lasts = [lf[-1] for lf in leaves if lf]
                    if len(lasts) != len(leaves):
                        continue
                    if not all(isinstance(x, ast.Assign) and len(x.targets) == 1 and isinstance(x.targets[0], ast.Name) for x in lasts):
                        continue
                    t = lasts[0].targets[0].id
                    if any(x.targets[0].id != t for x in lasts):
                        continue
                    uses_s2 = sum(1 for x in ast.walk(s2) if isinstance(x, ast.Name) and x.id == t and isinstance(x.ctx, ast.Load))
                    if uses_s2 != 1 or any(isinstance(x, ast.Name) and x.id == t and isinstance(x.ctx, ast.Store) for x in ast.walk(s2)):
                        continue
                    later = b[i + 1:]
                    if any(isinstance(x, ast.Name) and x.id == t for st in later for x in ast.walk(st)):
                        continue
                    # t must not be read anywhere else in the function (e.g. in an enclosing loop's next iteration)
                    total_loads = sum(1 for x in ast.walk(fn) if isinstance(x, ast.Name) and x.id == t and isinstance(x.ctx, ast.Load))
                    if total_loads != 1:
                        continue
                    for lf in leaves:
                        val = lf[-1].value
                        s2c = copy.deepcopy(s2)
                        s2c = _Subst({t: val}, {}).visit(s2c)
                        ast.copy_location(s2c, lf[-1])
                        ast.fix_missing_locations(s2c)
                        lf[-1] = s2c
                    del b[i]
                    i -= 1


def _path(e):
    """('self', 'bins') for self.bins ; None if e is not a plain attribute path rooted at a name"""
    parts = []
    while True:
        if isinstance(e, ast.Attribute):
            parts.append(e.attr)
            e = e.value
        elif isinstance(e, ast.Subscript) and isinstance(e.slice, ast.Constant) and isinstance(e.slice.value, (str, int)):
            parts.append(("[]", e.slice.value))      # x["key"] / x[0]
            e = e.value
        else:
            break
    if isinstance(e, ast.Name) and parts:
        return (e.id,) + tuple(reversed(parts))
    return None


def eliminate_attribute_aliases(tree):
    """N10  `mine = self.bins` (also in tuple form), never re-bound, while `self.bins` itself is never re-bound in the function:
    every use of `mine` is written as `self.bins` and the assignment disappears."""
    for fn in ast.walk(tree):
        if not isinstance(fn, (ast.FunctionDef, ast.AsyncFunctionDef)):
            continue
        a = fn.args
        params = {x.arg for x in a.posonlyargs + a.args + a.kwonlyargs}
        stores = {}
        for x in ast.walk(fn):
            if isinstance(x, ast.Name) and isinstance(x.ctx, (ast.Store, ast.Del)):
                stores[x.id] = stores.get(x.id, 0) + 1
        # attribute paths that are (re)bound somewhere in the function
        rebound = set()
        for x in ast.walk(fn):
            tg = []
            if isinstance(x, ast.Assign):
                tg = list(x.targets)
            elif isinstance(x, (ast.AugAssign, ast.AnnAssign)):
                tg = [x.target]
            elif isinstance(x, ast.Delete):
                tg = list(x.targets)
            elif isinstance(x, (ast.For, ast.comprehension)):
                tg = [x.target]
            for t in tg:
                for y in ([t] if not isinstance(t, (ast.Tuple, ast.List)) else t.elts):
                    p = _path(y)
                    if p:
                        rebound.add(p)
        cands = {}      # local -> (path expr, assign stmt, index in tuple or None)
        for x in ast.walk(fn):
            if isinstance(x, ast.Assign) and len(x.targets) == 1:
                t, v = x.targets[0], x.value
                pairs = []
                if isinstance(t, ast.Name):
                    pairs = [(t, v, None)]
                elif isinstance(t, ast.Tuple) and isinstance(v, ast.Tuple) and len(t.elts) == len(v.elts) and all(isinstance(e, ast.Name) for e in t.elts):
                    pairs = [(tt, vv, i) for i, (tt, vv) in enumerate(zip(t.elts, v.elts))]
                for tt, vv, i in pairs:
                    p = _path(vv)
                    if p is None or tt.id in params or stores.get(tt.id) != 1:
                        continue
                    if p[0] in cands:
                        continue
                    # every (re)binding of the root must come before the alias in the text (a parameter that is normalised
                    # first, a loop variable bound by the enclosing loop); a local root must have exactly one binding
                    root_stores = [y.lineno for y in ast.walk(fn) if isinstance(y, ast.Name) and y.id == p[0] and isinstance(y.ctx, ast.Store)]
                    if p[0] not in params and len(root_stores) != 1:
                        continue
                    if any(ln >= x.lineno for ln in root_stores):
                        continue
                    if any(p[:k] in rebound for k in range(2, len(p) + 1)):
                        continue
                    cands[tt.id] = (vv, x, i)
        if not cands:
            continue
        mapping = {name: expr for name, (expr, _, _) in cands.items()}

        class Sub(ast.NodeTransformer):
            def visit_Name(self, n):
                if n.id in mapping and isinstance(n.ctx, ast.Load):
                    return ast.copy_location(copy.deepcopy(mapping[n.id]), n)
                return n
        # remove the alias assignments first (so that their own targets are not touched), then substitute
        dead = {}
        for name, (expr, st, i) in cands.items():
            dead.setdefault(id(st), (st, set()))[1].add(i)
        for node in ast.walk(fn):
            for fld in ("body", "orelse", "finalbody"):
                b = getattr(node, fld, None)
                if not (isinstance(b, list) and b and isinstance(b[0], ast.stmt)):
                    continue
                newb = []
                for st in b:
                    if id(st) in dead:
                        _, idxs = dead[id(st)]
                        if None in idxs:
                            continue
                        t, v = st.targets[0], st.value
                        keep = [i for i in range(len(t.elts)) if i not in idxs]
                        if not keep:
                            continue
                        if len(keep) == 1:
                            st.targets = [t.elts[keep[0]]]
                            st.value = v.elts[keep[0]]
                        else:
                            t.elts = [t.elts[i] for i in keep]
                            v.elts = [v.elts[i] for i in keep]
                    newb.append(st)
                if not newb:
                    newb = [ast.copy_location(ast.Pass(), b[0])]
                b[:] = newb
        Sub().visit(fn)
    ast.fix_missing_locations(tree)


class _GetAttr(ast.NodeTransformer):
    """N12  getattr(x, "name") -> x.name ; setattr(x, "name", v) as a statement -> x.name = v   (constant identifier names only)"""

    def visit_Call(self, c):
        self.generic_visit(c)
        if isinstance(c.func, ast.Name) and c.func.id == "getattr" and len(c.args) == 2 and not c.keywords and isinstance(c.args[1], ast.Constant) \
                and isinstance(c.args[1].value, str) and c.args[1].value.isidentifier():
            return ast.copy_location(ast.Attribute(value=c.args[0], attr=c.args[1].value, ctx=ast.Load()), c)
        return c

    def visit_Expr(self, st):
        self.generic_visit(st)
        c = st.value
        if isinstance(c, ast.Call) and isinstance(c.func, ast.Name) and c.func.id == "setattr" and len(c.args) == 3 and not c.keywords \
                and isinstance(c.args[1], ast.Constant) and isinstance(c.args[1].value, str) and c.args[1].value.isidentifier():
            new = ast.Assign(targets=[ast.Attribute(value=c.args[0], attr=c.args[1].value, ctx=ast.Store())], value=c.args[2])
            return ast.copy_location(new, st)
        return st


def _const_table(e, consts):
    """a literal tuple/list of constants (or of tuples of constants), possibly through a module/class-level name"""
    if isinstance(e, ast.Name) and e.id in consts:
        e = consts[e.id]
    if isinstance(e, ast.Attribute) and isinstance(e.value, ast.Name) and e.attr in consts:
        e = consts[e.attr]          # self._TABLE / Cls._TABLE
    if not isinstance(e, (ast.Tuple, ast.List)) or not (1 <= len(e.elts) <= 12):
        return None
    rows = []
    for el in e.elts:
        if isinstance(el, ast.Constant):
            rows.append(el)
        elif isinstance(el, (ast.Tuple, ast.List)) and el.elts and all(isinstance(x, ast.Constant) for x in el.elts):
            rows.append(el)
        else:
            return None
    return rows


def unroll_constant_loops(tree):
    """N11  `for a, b in TABLE: body` with a small literal table of constants is written out once per row (body-local names get a
    per-row suffix), so that table-driven guards read like the chain of tests they stand for"""
    consts = {}
    for st in tree.body:
        if isinstance(st, ast.Assign) and len(st.targets) == 1 and isinstance(st.targets[0], ast.Name) and isinstance(st.value, (ast.Tuple, ast.List)):
            consts[st.targets[0].id] = st.value
        if isinstance(st, ast.ClassDef):
            for b in st.body:
                if isinstance(b, ast.Assign) and len(b.targets) == 1 and isinstance(b.targets[0], ast.Name) and isinstance(b.value, (ast.Tuple, ast.List)):
                    consts.setdefault(b.targets[0].id, b.value)
    counter = [0]
    for fn in ast.walk(tree):
        if not isinstance(fn, (ast.FunctionDef, ast.AsyncFunctionDef)):
            continue
        for node in ast.walk(fn):
            for fld in ("body", "orelse"):
                b = getattr(node, fld, None)
                if not (isinstance(b, list) and b and isinstance(b[0], ast.stmt)):
                    continue
                i = 0
                while i < len(b):
                    st = b[i]
                    i += 1
                    if not (isinstance(st, ast.For) and not st.orelse):
                        continue
                    rows = _const_table(st.iter, consts)
                    # `... ; if T: break` as the last statement of the body: unrolled as nested `if not T:` blocks
                    tail_break = None
                    if rows is not None and st.body and isinstance(st.body[-1], ast.If) and not st.body[-1].orelse and len(st.body[-1].body) == 1 \
                            and isinstance(st.body[-1].body[0], ast.Break):
                        others = [x for s2 in st.body[:-1] for x in ast.walk(s2) if isinstance(x, (ast.Break, ast.Continue))]
                        if not others and not any(isinstance(x, (ast.Break, ast.Continue)) for x in ast.walk(st.body[-1].test)):
                            tail_break = st.body[-1]
                    if rows is None or (tail_break is None and any(isinstance(x, (ast.Break, ast.Continue)) for x in ast.walk(st))):
                        continue
                    tg = st.target
                    names = [tg] if isinstance(tg, ast.Name) else (list(tg.elts) if isinstance(tg, (ast.Tuple, ast.List)) and all(
                        isinstance(x, ast.Name) for x in tg.elts) else None)
                    if names is None:
                        continue
                    if len(names) > 1 and not all(isinstance(r, (ast.Tuple, ast.List)) and len(r.elts) == len(names) for r in rows):
                        continue
                    if len(names) == 1 and not all(isinstance(r, ast.Constant) for r in rows) and not isinstance(tg, ast.Name):
                        continue
                    loopvars = {n.id for n in names}
                    if any(isinstance(x, ast.Name) and x.id in loopvars and isinstance(x.ctx, ast.Store) for s2 in st.body for x in ast.walk(s2)):
                        continue
                    body_locals = set()
                    for s2 in st.body:
                        body_locals |= _names_stored(s2)
                    # a body-local name that is read after the loop would change meaning when suffixed: leave such loops alone
                    # (with a trailing `if T: break` such names are the running flags: they are kept unsuffixed instead)
                    after = b[i:]
                    after_names = {x.id for s2 in after for x in ast.walk(s2) if isinstance(x, ast.Name) and x.id in body_locals}
                    if after_names and tail_break is None:
                        continue
                    out = []
                    cursor = out
                    for ri, r in enumerate(rows):
                        counter[0] += 1
                        vals = [r] if len(names) == 1 else list(r.elts)
                        mapping = {n.id: v for n, v in zip(names, vals)}
                        # names that are read after the loop (a running flag such as `same`) keep their spelling
                        rename = {x: f"{x}_u{counter[0]}" for x in body_locals if not (tail_break is not None and x in after_names)}
                        body_stmts = st.body if tail_break is None else st.body[:-1]
                        for s2 in body_stmts:
                            c2 = _Subst(mapping, rename).visit(copy.deepcopy(s2))
                            ast.copy_location(c2, s2)
                            cursor.append(c2)
                        if tail_break is not None and ri < len(rows) - 1:
                            t2 = _Subst(mapping, rename).visit(copy.deepcopy(tail_break.test))
                            nxt = ast.If(test=negate(t2), body=[], orelse=[])
                            ast.copy_location(nxt, tail_break)
                            cursor.append(nxt)
                            cursor = nxt.body
                    b[i - 1:i] = out
                    i = i - 1 + len(out)
    _GetAttr().visit(tree)
    ast.fix_missing_locations(tree)


class _FoldConst(ast.NodeTransformer):
    """'underflow' + ':type' -> 'underflow:type' (string/int constants only); `A if True else B` -> A"""

    def visit_IfExp(self, n):
        self.generic_visit(n)
        if isinstance(n.test, ast.Constant) and isinstance(n.test.value, bool):
            return n.body if n.test.value else n.orelse
        return n

    def visit_BinOp(self, n):
        self.generic_visit(n)
        if isinstance(n.op, ast.Add) and isinstance(n.left, ast.Constant) and isinstance(n.right, ast.Constant):
            a, b = n.left.value, n.right.value
            if (isinstance(a, str) and isinstance(b, str)) or (type(a) is int and type(b) is int):
                return ast.copy_location(ast.Constant(value=a + b), n)
        return n


def propagate_constants(tree):
    """N19  constant folding of string/int sums, and a local that is bound once to a string/int constant (typically left behind by
    the unrolling of a table loop: `typeKey = 'underflow:type'`) is replaced by the constant"""
    _FoldConst().visit(tree)
    for fn in ast.walk(tree):
        if not isinstance(fn, (ast.FunctionDef, ast.AsyncFunctionDef)):
            continue
        params = {a.arg for a in fn.args.posonlyargs + fn.args.args + fn.args.kwonlyargs}
        changed = True
        rounds = 0
        while changed and rounds < 4:
            changed = False
            rounds += 1
            stores = {}
            for x in ast.walk(fn):
                if isinstance(x, ast.Name) and isinstance(x.ctx, (ast.Store, ast.Del)):
                    stores[x.id] = stores.get(x.id, 0) + 1
            consts = {}
            holders = {}
            for node in ast.walk(fn):
                for fld in ("body", "orelse", "finalbody"):
                    b = getattr(node, fld, None)
                    if isinstance(b, list) and b and isinstance(b[0], ast.stmt):
                        for st in b:
                            is_c = isinstance(st, ast.Assign) and isinstance(st.value, ast.Constant) and isinstance(st.value.value, (str, int)) and not isinstance(st.value.value, bool)
                            # a tuple of string/number constants (`nonFinite = ("nan", "inf", "-inf")`) is as immutable as a constant
                            is_t = isinstance(st, ast.Assign) and isinstance(st.value, ast.Tuple) and st.value.elts and all(
                                isinstance(x, ast.Constant) and isinstance(x.value, (str, int, float)) and not isinstance(x.value, bool) for x in st.value.elts)
                            if isinstance(st, ast.Assign) and len(st.targets) == 1 and isinstance(st.targets[0], ast.Name) and (is_c or is_t) \
                                    and stores.get(st.targets[0].id) == 1 and st.targets[0].id not in params:
                                consts[st.targets[0].id] = st.value
                                holders[st.targets[0].id] = (b, st)
            if not consts:
                break
            # a nested function or a global/nonlocal declaration makes the name's binding non-local: leave it
            for x in ast.walk(fn):
                if isinstance(x, (ast.Global, ast.Nonlocal)):
                    for nm in x.names:
                        consts.pop(nm, None)

            class P(ast.NodeTransformer):
                def visit_Name(self, n):
                    if isinstance(n.ctx, ast.Load) and n.id in consts:
                        if isinstance(consts[n.id], ast.Tuple):
                            import copy
                            t = copy.deepcopy(consts[n.id])
                            for x in ast.walk(t):
                                ast.copy_location(x, n)
                            return t
                        return ast.copy_location(ast.Constant(value=consts[n.id].value), n)
                    return n
            for k in list(consts):
                b, st = holders[k]
                # only when the binding comes textually before every read (straight unrolled code)
                reads = [x for x in ast.walk(fn) if isinstance(x, ast.Name) and x.id == k and isinstance(x.ctx, ast.Load)]
                if any((x.lineno, x.col_offset) < (st.lineno, st.col_offset) for x in reads) and len({x.lineno for x in reads} | {st.lineno}) > 1 \
                        and any(x.lineno < st.lineno for x in reads):
                    consts.pop(k)
            if not consts:
                break
            P().visit(fn)
            for k in consts:
                b, st = holders[k]
                if st in b and len(b) > 1:
                    b.remove(st)
            _FoldConst().visit(fn)
            changed = True
    ast.fix_missing_locations(tree)


def unpack_appended_lists(tree):
    """N20  L = [] ; ... L.append(a) ... L.append(b) ... ; x, y = L      ->      ... x = a ... y = b ...
    when L is used for nothing else, every append runs exactly once on every path that reaches the unpacking (not in a loop; the
    other branch of an enclosing `if` always exits) and the counts agree"""
    from .canon import always_exits
    for fn in ast.walk(tree):
        if not isinstance(fn, (ast.FunctionDef, ast.AsyncFunctionDef)):
            continue
        for node in ast.walk(fn):
            for fld in ("body", "orelse"):
                b = getattr(node, fld, None)
                if not (isinstance(b, list) and b and isinstance(b[0], ast.stmt)):
                    continue
                for i, st in enumerate(list(b)):
                    if not (isinstance(st, ast.Assign) and len(st.targets) == 1 and isinstance(st.targets[0], ast.Name) and isinstance(st.value, ast.List)
                            and not st.value.elts):
                        continue
                    L = st.targets[0].id
                    uses = [x for x in ast.walk(fn) if isinstance(x, ast.Name) and x.id == L]
                    # find the unpacking in the same block
                    unpack = None
                    for st2 in b[b.index(st) + 1:]:
                        if isinstance(st2, ast.Assign) and len(st2.targets) == 1 and isinstance(st2.targets[0], (ast.Tuple, ast.List)) and \
                                isinstance(st2.value, ast.Name) and st2.value.id == L and all(isinstance(t, ast.Name) for t in st2.targets[0].elts):
                            unpack = st2
                            break
                    if unpack is None:
                        continue
                    region = b[b.index(st) + 1:b.index(unpack)]
                    appends = []

                    def collect(stmts, ok_ctx, owner=None):
                        for s2 in stmts:
                            stmts_real = owner if owner is not None else stmts
                            if isinstance(s2, ast.Expr) and isinstance(s2.value, ast.Call) and isinstance(s2.value.func, ast.Attribute) and \
                                    isinstance(s2.value.func.value, ast.Name) and s2.value.func.value.id == L and s2.value.func.attr == "append" \
                                    and len(s2.value.args) == 1 and not s2.value.keywords:
                                appends.append((stmts_real, s2, ok_ctx))
                            elif isinstance(s2, ast.If):
                                collect(s2.body, ok_ctx and (always_exits(s2.orelse) if s2.orelse else False))
                                collect(s2.orelse, ok_ctx and always_exits(s2.body))
                            elif isinstance(s2, (ast.For, ast.While, ast.Try, ast.With)):
                                collect(getattr(s2, "body", []), False)
                                collect(getattr(s2, "orelse", []), False)
                    collect(region, True, owner=b)
                    n_uses_expected = 1 + len(appends) + 1
                    if len(uses) != n_uses_expected or len(appends) != len(unpack.targets[0].elts) or not appends or not all(a[2] for a in appends):
                        continue
                    for (blk, s2, _), tgt in zip(appends, unpack.targets[0].elts):
                        new = ast.Assign(targets=[ast.Name(id=tgt.id, ctx=ast.Store())], value=s2.value.args[0])
                        ast.copy_location(new, s2)
                        blk[blk.index(s2)] = new
                    b.remove(unpack)
                    if len(b) > 1:
                        b.remove(st)
    ast.fix_missing_locations(tree)


def unfold_dispatch_tables(tree):
    """N21  f = TABLE[k1, k2] ; return f(x, y)     ->     if k1 and k2: return fa(x, y) / elif k1 and not k2: return fb(x, y) / ...
    for a module-level dict literal with constant keys and function names as values (a dispatch table): the chain of tests the
    table stands for.  `bool(c)` compared with True/False becomes `c` / `not c`."""
    tables = {}
    for st in tree.body:
        if isinstance(st, ast.Assign) and len(st.targets) == 1 and isinstance(st.targets[0], ast.Name) and isinstance(st.value, ast.Dict) and st.value.keys \
                and all(k is not None and (isinstance(k, ast.Constant) or (isinstance(k, ast.Tuple) and all(isinstance(x, ast.Constant) for x in k.elts)))
                        for k in st.value.keys) and all(isinstance(v, ast.Name) for v in st.value.values) and len(st.value.keys) <= 16:
            tables[st.targets[0].id] = st.value
    if not tables:
        return
    # the table must not be rebound or mutated anywhere in the module
    for x in ast.walk(tree):
        if isinstance(x, ast.Name) and x.id in tables and isinstance(x.ctx, (ast.Store, ast.Del)):
            n = sum(1 for y in ast.walk(tree) if isinstance(y, ast.Name) and y.id == x.id and isinstance(y.ctx, (ast.Store, ast.Del)))
            if n > 1:
                tables.pop(x.id, None)
        if isinstance(x, (ast.Subscript, ast.Attribute)) and isinstance(x.ctx, (ast.Store, ast.Del)) and isinstance(x.value, ast.Name):
            tables.pop(x.value.id, None)
    if not tables:
        return

    def test_for(keyexpr, const):
        ks = list(keyexpr.elts) if isinstance(keyexpr, ast.Tuple) else [keyexpr]
        cs = list(const.elts) if isinstance(const, ast.Tuple) else [const]
        if len(ks) != len(cs):
            return None
        parts = []
        for k, c0 in zip(ks, cs):
            k = copy.deepcopy(k)
            if isinstance(c0.value, bool) and isinstance(k, ast.Call) and isinstance(k.func, ast.Name) and k.func.id == "bool" and len(k.args) == 1:
                parts.append(k.args[0] if c0.value else ast.UnaryOp(op=ast.Not(), operand=k.args[0]))
            elif isinstance(c0.value, bool) and isinstance(k, (ast.Compare, ast.BoolOp)):
                parts.append(k if c0.value else ast.UnaryOp(op=ast.Not(), operand=k))
            else:
                parts.append(ast.Compare(left=k, ops=[ast.Eq()], comparators=[ast.Constant(value=c0.value)]))
        return parts[0] if len(parts) == 1 else ast.BoolOp(op=ast.And(), values=parts)

    for fn in ast.walk(tree):
        if not isinstance(fn, (ast.FunctionDef, ast.AsyncFunctionDef)):
            continue
        for node in ast.walk(fn):
            for fld in ("body", "orelse"):
                b = getattr(node, fld, None)
                if not (isinstance(b, list) and b and isinstance(b[0], ast.stmt)):
                    continue
                i = 0
                while i + 1 < len(b):
                    st, nx = b[i], b[i + 1]
                    i += 1
                    if not (isinstance(st, ast.Assign) and len(st.targets) == 1 and isinstance(st.targets[0], ast.Name) and isinstance(st.value, ast.Subscript)
                            and isinstance(st.value.value, ast.Name) and st.value.value.id in tables):
                        continue
                    v = st.targets[0].id
                    uses = [x for x in ast.walk(fn) if isinstance(x, ast.Name) and x.id == v]
                    calls = [x for x in ast.walk(nx) if isinstance(x, ast.Call) and isinstance(x.func, ast.Name) and x.func.id == v]
                    if len(uses) != 2 or len(calls) != 1 or isinstance(nx, (ast.If, ast.For, ast.While, ast.Try, ast.With, ast.FunctionDef)):
                        continue
                    table = tables[st.value.value.id]
                    chain = None
                    ok = True
                    for k, fname in reversed(list(zip(table.keys, table.values))):
                        t = test_for(st.value.slice, k)
                        if t is None:
                            ok = False
                            break
                        body = copy.deepcopy(nx)
                        for x in ast.walk(body):
                            if isinstance(x, ast.Call) and isinstance(x.func, ast.Name) and x.func.id == v:
                                x.func = ast.Name(id=fname.id, ctx=ast.Load())
                        if chain is None:
                            miss = ast.Raise(exc=ast.Call(func=ast.Name(id="KeyError", ctx=ast.Load()), args=[copy.deepcopy(st.value.slice)], keywords=[]), cause=None)
                            chain = ast.If(test=t, body=[body], orelse=[miss])
                        else:
                            chain = ast.If(test=t, body=[body], orelse=[chain])
                    if not ok or chain is None:
                        continue
                    for x in ast.walk(chain):
                        if isinstance(x, (ast.stmt, ast.expr)):
                            x.lineno, x.col_offset = st.lineno, st.col_offset
                            x.end_lineno, x.end_col_offset = getattr(nx, "end_lineno", st.lineno), getattr(nx, "end_col_offset", st.col_offset)
                    b[i - 1:i + 1] = [chain]
    ast.fix_missing_locations(tree)


PURE_CALLS = {"math.isnan", "math.isinf", "math.isfinite", "np.isnan", "numpy.isnan", "isinstance", "len", "abs", "float", "int", "bool", "min", "max"}


def _pure_value(e):
    """an expression over local names, constants, operators and a few pure functions: its value cannot be changed by statements that
    do not assign those names (no attribute or subscript reads)"""
    for x in ast.walk(e):
        if isinstance(x, (ast.Attribute, ast.Subscript, ast.Lambda, ast.Await, ast.Yield, ast.YieldFrom, ast.NamedExpr, ast.Starred,
                          ast.ListComp, ast.SetComp, ast.DictComp, ast.GeneratorExp)):
            if isinstance(x, ast.Attribute) and ast.unparse(x) in PURE_CALLS:
                continue
            return False
        if isinstance(x, ast.Call) and ast.unparse(x.func) not in PURE_CALLS:
            return False
    return True


def split_parallel_assignments(tree):
    """N15  `a, b = x, y`  ->  `a = x ; b = y`   when no later right-hand side reads an earlier target"""
    for node in ast.walk(tree):
        for fld in ("body", "orelse", "finalbody"):
            b = getattr(node, fld, None)
            if not (isinstance(b, list) and b and isinstance(b[0], ast.stmt)):
                continue
            i = 0
            while i < len(b):
                st = b[i]
                i += 1
                # N22  a, b, c = (E(k) for k in (x, y, z))   ->   a, b, c = E(x), E(y), E(z)
                if isinstance(st, ast.Assign) and len(st.targets) == 1 and isinstance(st.targets[0], ast.Tuple) and \
                        isinstance(st.value, (ast.GeneratorExp, ast.ListComp)) and len(st.value.generators) == 1:
                    g0 = st.value.generators[0]
                    if isinstance(g0.target, ast.Name) and not g0.ifs and not g0.is_async and isinstance(g0.iter, (ast.Tuple, ast.List)) and \
                            len(g0.iter.elts) == len(st.targets[0].elts) and not any(isinstance(x, ast.Starred) for x in g0.iter.elts) and \
                            all(_simple_arg(x) or _pure_arg(x) for x in g0.iter.elts):
                        elts = [_Subst({g0.target.id: x}, {}).visit(copy.deepcopy(st.value.elt)) for x in g0.iter.elts]
                        st.value = ast.copy_location(ast.Tuple(elts=elts, ctx=ast.Load()), st.value)
                        ast.fix_missing_locations(st)
                if not (isinstance(st, ast.Assign) and len(st.targets) == 1 and isinstance(st.targets[0], ast.Tuple) and isinstance(st.value, ast.Tuple)
                        and len(st.targets[0].elts) == len(st.value.elts) and len(st.value.elts) >= 2):
                    continue
                tg, vs = st.targets[0].elts, st.value.elts
                if any(isinstance(x, ast.Starred) for x in tg + vs) or not all(isinstance(t, (ast.Name, ast.Attribute)) for t in tg):
                    continue
                texts = [ast.unparse(t) for t in tg]
                roots = [t.id if isinstance(t, ast.Name) else None for t in tg]
                safe = True
                for j in range(1, len(vs)):
                    later = ast.unparse(vs[j])
                    names_later = {x.id for x in ast.walk(vs[j]) if isinstance(x, ast.Name)}
                    for k in range(j):
                        if (roots[k] is not None and roots[k] in names_later) or (roots[k] is None and texts[k] in later):
                            safe = False
                if not safe:
                    continue
                new = []
                for t, v in zip(tg, vs):
                    a = ast.Assign(targets=[t], value=v)
                    ast.copy_location(a, st)
                    new.append(a)
                b[i - 1:i] = new
                i = i - 1 + len(new)
    ast.fix_missing_locations(tree)


def forward_pure_flags(tree):
    """N13  `flag = <pure expression over locals>` used exactly once later in the same block (typically as an `if` test): the expression
    is written at the use and the assignment disappears (no statement in between assigns a name the expression reads)"""
    for fn in ast.walk(tree):
        if not isinstance(fn, (ast.FunctionDef, ast.AsyncFunctionDef)):
            continue
        loads, stores = {}, {}
        for x in ast.walk(fn):
            if isinstance(x, ast.Name):
                d = stores if isinstance(x.ctx, (ast.Store, ast.Del)) else loads
                d[x.id] = d.get(x.id, 0) + 1
        for node in ast.walk(fn):
            for fld in ("body", "orelse"):
                b = getattr(node, fld, None)
                if not (isinstance(b, list) and len(b) >= 2 and isinstance(b[0], ast.stmt)):
                    continue
                i = 0
                while i < len(b):
                    st = b[i]
                    i += 1
                    if not (isinstance(st, ast.Assign) and len(st.targets) == 1 and isinstance(st.targets[0], ast.Name)):
                        continue
                    v = st.targets[0].id
                    if stores.get(v) != 1 or loads.get(v) != 1 or not _pure_value(st.value):
                        continue
                    if not isinstance(st.value, (ast.BoolOp, ast.UnaryOp, ast.Compare, ast.Call)):
                        continue          # only boolean-looking flags; plain copies and arithmetic temporaries are left alone
                    reads = {x.id for x in ast.walk(st.value) if isinstance(x, ast.Name)}
                    use_at = None
                    for j in range(i, len(b)):
                        s2 = b[j]
                        hdr = [s2.test] if isinstance(s2, (ast.If, ast.While)) else ([s2] if isinstance(s2, (ast.Expr, ast.Assign, ast.AugAssign, ast.Return)) else [])
                        if any(isinstance(x, ast.Name) and x.id == v and isinstance(x.ctx, ast.Load) for h in hdr for x in ast.walk(h)):
                            use_at = j
                            break
                        if _names_stored(s2) & reads or any(isinstance(x, ast.Name) and x.id == v for x in ast.walk(s2)):
                            break
                    if use_at is None or isinstance(b[use_at], ast.While):
                        continue
                    s2 = b[use_at]
                    sub = _Subst({v: st.value}, {})
                    if isinstance(s2, ast.If):
                        s2.test = sub.visit(s2.test)
                    else:
                        b[use_at] = sub.visit(s2)
                    del b[i - 1]
                    i -= 1
                    loads[v] = 0
    ast.fix_missing_locations(tree)


class _Operator(ast.NodeTransformer):
    """N14  operator.add(a, b) -> a + b (mul, sub, truediv likewise); operator.iadd(x, y) as a statement -> x += y;
    map(op, A, B) -> (a op b for a, b in zip(A, B)); map(op, A, repeat(c)) -> (a op c for a in A)"""
    OPS = {"add": ast.Add, "mul": ast.Mult, "sub": ast.Sub, "truediv": ast.Div}
    IOPS = {"iadd": ast.Add, "imul": ast.Mult, "isub": ast.Sub}

    def __init__(self, names):
        self.names = names          # local name -> operator function name ("mul", "repeat", ...)
        self.n = 0

    def opname(self, f):
        if isinstance(f, ast.Attribute) and isinstance(f.value, ast.Name) and f.value.id in ("operator", "itertools"):
            return f.attr
        if isinstance(f, ast.Name) and f.id in self.names:
            return self.names[f.id]
        return None

    def visit_Expr(self, st):
        self.generic_visit(st)
        c = st.value
        if isinstance(c, ast.Call) and self.opname(c.func) in self.IOPS and len(c.args) == 2 and isinstance(c.args[0], (ast.Name, ast.Attribute, ast.Subscript)):
            tgt = copy.deepcopy(c.args[0])
            for x in ast.walk(tgt):
                if hasattr(x, "ctx"):
                    x.ctx = ast.Load()
            tgt.ctx = ast.Store()
            return ast.copy_location(ast.AugAssign(target=tgt, op=self.IOPS[self.opname(c.func)](), value=c.args[1]), st)
        return st

    def visit_Call(self, c):
        self.generic_visit(c)
        op = self.opname(c.func)
        if op in self.OPS and len(c.args) == 2 and not c.keywords:
            return ast.copy_location(ast.BinOp(left=c.args[0], op=self.OPS[op](), right=c.args[1]), c)
        if isinstance(c.func, ast.Name) and c.func.id == "map" and len(c.args) == 3 and self.opname(c.args[0]) in self.OPS and not c.keywords:
            o = self.OPS[self.opname(c.args[0])]
            self.n += 1
            a, b2 = f"_m{self.n}_a", f"_m{self.n}_b"
            second = c.args[2]
            if isinstance(second, ast.Call) and self.opname(second.func) == "repeat" and len(second.args) == 1:
                elt = ast.BinOp(left=ast.Name(id=a, ctx=ast.Load()), op=o(), right=second.args[0])
                gen = ast.comprehension(target=ast.Name(id=a, ctx=ast.Store()), iter=c.args[1], ifs=[], is_async=0)
            else:
                elt = ast.BinOp(left=ast.Name(id=a, ctx=ast.Load()), op=o(), right=ast.Name(id=b2, ctx=ast.Load()))
                zipc = ast.Call(func=ast.Name(id="zip", ctx=ast.Load()), args=[c.args[1], second], keywords=[])
                gen = ast.comprehension(target=ast.Tuple(elts=[ast.Name(id=a, ctx=ast.Store()), ast.Name(id=b2, ctx=ast.Store())], ctx=ast.Store()),
                                        iter=zipc, ifs=[], is_async=0)
            return ast.copy_location(ast.ListComp(elt=elt, generators=[gen]), c)
        return c


def operator_idioms(tree):
    names = {}
    for st in ast.walk(tree):
        if isinstance(st, ast.ImportFrom) and st.module in ("operator", "itertools"):
            for al in st.names:
                names[al.asname or al.name] = al.name
    uses = any(isinstance(x, ast.Attribute) and isinstance(x.value, ast.Name) and x.value.id == "operator" for x in ast.walk(tree))
    if names or uses:
        _Operator(names).visit(tree)
        ast.fix_missing_locations(tree)


def boolify_tests(tree):
    for n in ast.walk(tree):
        if isinstance(n, (ast.If, ast.While)) and any(isinstance(x, ast.IfExp) for x in ast.walk(n.test)):
            new = boolify(n.test)
            ast.copy_location(new, n.test)
            n.test = new
    ast.fix_missing_locations(tree)


def fold_type_normalisations(tree):
    """N23  `if [not] isinstance(v, T): v = E`   ->   `v = E if [not] isinstance(v, T) else v`
    the type-normalisation idiom (`if isinstance(x, numpy.ndarray): x = x.tolist()`), written as the conditional expression it is:
    the statement is then on every path, and the analyses take the branch their abstract value selects"""
    for node in ast.walk(tree):
        for fld in ("body", "orelse"):
            b = getattr(node, fld, None)
            if not (isinstance(b, list) and b and isinstance(b[0], ast.stmt)):
                continue
            for i, st in enumerate(b):
                if not (isinstance(st, ast.If) and not st.orelse and len(st.body) == 1 and isinstance(st.body[0], ast.Assign)
                        and len(st.body[0].targets) == 1 and isinstance(st.body[0].targets[0], ast.Name)):
                    continue
                t = st.test
                core = t.operand if isinstance(t, ast.UnaryOp) and isinstance(t.op, ast.Not) else t
                v = st.body[0].targets[0].id
                if not (isinstance(core, ast.Call) and isinstance(core.func, ast.Name) and core.func.id == "isinstance" and len(core.args) == 2
                        and isinstance(core.args[0], ast.Name) and core.args[0].id == v):
                    continue
                new = ast.Assign(targets=[ast.Name(id=v, ctx=ast.Store())],
                                 value=ast.IfExp(test=t, body=st.body[0].value, orelse=ast.Name(id=v, ctx=ast.Load())))
                ast.copy_location(new, st)
                new.end_lineno, new.end_col_offset = getattr(st, "end_lineno", st.lineno), getattr(st, "end_col_offset", st.col_offset)
                b[i] = new
    ast.fix_missing_locations(tree)


def forward_adjacent_flags(tree):
    """N25  `flag = E` ; `if [not] flag: ...`   ->   `if [not] E: ...`     when the flag is read nowhere else: nothing happens between the
    two statements, so E may be impure.  And `if not C: A` ; rest  (A always exits)   ->   `if C: rest` / `else: A`."""
    from .canon import positive_form
    for fn in ast.walk(tree):
        if not isinstance(fn, (ast.FunctionDef, ast.AsyncFunctionDef)):
            continue
        counts = {}
        for x in ast.walk(fn):
            if isinstance(x, ast.Name):
                c0 = counts.setdefault(x.id, [0, 0])
                c0[0 if isinstance(x.ctx, ast.Store) else 1] += 1
        for node in ast.walk(fn):
            for fld in ("body", "orelse"):
                b = getattr(node, fld, None)
                if not (isinstance(b, list) and len(b) >= 2 and isinstance(b[0], ast.stmt)):
                    continue
                i = 0
                while i + 1 < len(b):
                    st, nx = b[i], b[i + 1]
                    if isinstance(st, ast.Assign) and len(st.targets) == 1 and isinstance(st.targets[0], ast.Name) and isinstance(nx, ast.If) \
                            and counts.get(st.targets[0].id) == [1, 1] and isinstance(st.value, (ast.BoolOp, ast.Compare, ast.Call, ast.UnaryOp)):
                        v = st.targets[0].id
                        t = nx.test
                        core = t.operand if isinstance(t, ast.UnaryOp) and isinstance(t.op, ast.Not) else t
                        if isinstance(core, ast.Name) and core.id == v:
                            if core is t:
                                nx.test = st.value
                            else:
                                t.operand = st.value
                            del b[i]
                            continue
                    i += 1
        for node in ast.walk(fn):
            for fld in ("body", "orelse"):
                b = getattr(node, fld, None)
                if not (isinstance(b, list) and len(b) >= 2 and isinstance(b[0], ast.stmt)):
                    continue
                for i, st in enumerate(b[:-1]):
                    if isinstance(st, ast.If) and not st.orelse and positive_form(st.test) is not None and always_exits(st.body) \
                            and not (len(st.body) == 1 and isinstance(st.body[0], ast.Raise)) and always_exits(b[i + 1:]) \
                            and not any(isinstance(x, (ast.FunctionDef, ast.ClassDef)) for x in b[i + 1:]):
                        st.test = positive_form(st.test)
                        st.orelse = st.body
                        st.body = b[i + 1:]
                        del b[i + 1:]
                        break
    ast.fix_missing_locations(tree)


def sink_flag_returns(tree):
    """N24  `if flag: B` ; `return flag`   ->   `if flag: B ; return flag` / `else: return flag`     (recursively)
    a running conjunction flag that is tested before every further comparison: with the return duplicated into the branches, the
    exit taken when the flag is already false is a separate (rejecting) exit"""
    changed = True
    rounds = 0
    while changed and rounds < 12:
        changed = False
        rounds += 1
        for node in ast.walk(tree):
            for fld in ("body", "orelse"):
                b = getattr(node, fld, None)
                if not (isinstance(b, list) and len(b) >= 2 and isinstance(b[0], ast.stmt)):
                    continue
                st, rt = b[-2], b[-1]
                if isinstance(st, ast.If) and not st.orelse and isinstance(st.test, ast.Name) and isinstance(rt, ast.Return) and \
                        isinstance(rt.value, ast.Name) and rt.value.id == st.test.id and not always_exits(st.body):
                    st.body.append(copy.deepcopy(rt))
                    st.orelse = [copy.deepcopy(rt)]
                    del b[-1]
                    changed = True
    ast.fix_missing_locations(tree)


def flatten_boolops(tree):
    """`a and (b and c)` -> `a and b and c` (same value, same evaluation order, same short circuit)"""
    changed = True
    while changed:
        changed = False
        for n in ast.walk(tree):
            if isinstance(n, ast.BoolOp) and any(isinstance(v, ast.BoolOp) and type(v.op) is type(n.op) for v in n.values):
                vals = []
                for v in n.values:
                    if isinstance(v, ast.BoolOp) and type(v.op) is type(n.op):
                        vals += v.values
                    else:
                        vals.append(v)
                n.values = vals
                changed = True


def drop_unreachable_tails(tree):
    """N26  statements that follow a `raise` / `return` / `continue` / `break` in the same block never run (left behind by the inlining
    of a helper whose last statement raises: the `result = None` of its implicit fall-through)"""
    for node in ast.walk(tree):
        for fld in ("body", "orelse", "finalbody"):
            b = getattr(node, fld, None)
            if isinstance(b, list) and b and isinstance(b[0], ast.stmt):
                for i, st in enumerate(b):
                    if isinstance(st, (ast.Raise, ast.Return, ast.Continue, ast.Break)) and i + 1 < len(b):
                        if not any(isinstance(x, (ast.FunctionDef, ast.ClassDef, ast.AsyncFunctionDef)) for t in b[i + 1:] for x in ast.walk(t)):
                            del b[i + 1:]
                        break
        for h in getattr(node, "handlers", []) or []:
            b = h.body
            for i, st in enumerate(b):
                if isinstance(st, (ast.Raise, ast.Return, ast.Continue, ast.Break)) and i + 1 < len(b):
                    del b[i + 1:]
                    break


def apply(tree, helpers=True):
    split_parallel_assignments(tree)
    unroll_constant_loops(tree)
    unfold_dispatch_tables(tree)
    propagate_constants(tree)
    unpack_appended_lists(tree)
    operator_idioms(tree)
    if helpers:
        try:
            Inliner(tree).run()
        except RecursionError:
            pass
        drop_unreachable_tails(tree)
        boolify_tests(tree)
        # constant arguments substituted into an inlined helper: getattr(x, "min") / 'a' + ':type' spellings once more
        _FoldConst().visit(tree)
        _GetAttr().visit(tree)
    from .forward import forward_param_reads
    forward_param_reads(tree)
    for fn in ast.walk(tree):
        if isinstance(fn, (ast.FunctionDef, ast.AsyncFunctionDef)):
            unfold_return_guards(fn)
    eliminate_attribute_aliases(tree)
    forward_pure_flags(tree)
    sink_alias_selection(tree)
    fold_type_normalisations(tree)
    forward_adjacent_flags(tree)
    sink_flag_returns(tree)
    flatten_boolops(tree)
    ast.fix_missing_locations(tree)
    return tree
