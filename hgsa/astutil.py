"""Small AST helpers shared by the rules."""

import ast


def chain(node):
    """['self', 'bins'] for self.bins ; None if not a pure Name/Attribute chain."""
    parts = []
    while isinstance(node, ast.Attribute):
        parts.append(node.attr)
        node = node.value
    if isinstance(node, ast.Name):
        parts.append(node.id)
        return list(reversed(parts))
    return None


def root_name(node):
    """Name at the root of an Attribute/Subscript/Call-free access path, else None."""
    while isinstance(node, (ast.Attribute, ast.Subscript, ast.Starred)):
        node = node.value
    if isinstance(node, ast.Name):
        return node.id
    return None


def access_path(node):
    """('self', 'bins', '[]') style path for Attribute/Subscript chains rooted at a Name, else None."""
    parts = []
    while True:
        if isinstance(node, ast.Attribute):
            parts.append(node.attr)
            node = node.value
        elif isinstance(node, ast.Subscript):
            parts.append("[]")
            node = node.value
        elif isinstance(node, ast.Name):
            parts.append(node.id)
            return tuple(reversed(parts))
        else:
            return None


def walk_local(node, include_lambda=True):
    """ast.walk that does not descend into nested def/class bodies (lambdas optional)."""
    stack = [node]
    first = True
    while stack:
        n = stack.pop()
        yield n
        for c in ast.iter_child_nodes(n):
            if isinstance(c, (ast.FunctionDef, ast.AsyncFunctionDef, ast.ClassDef)) and not first:
                continue
            if isinstance(c, ast.Lambda) and not include_lambda:
                continue
            stack.append(c)
        first = False


def body_walk(func, include_lambda=True):
    """Walk all nodes of a function body (not nested defs)."""
    for st in func.body:
        yield from walk_local_stmt(st, include_lambda)


def walk_local_stmt(st, include_lambda=True):
    stack = [st]
    while stack:
        n = stack.pop()
        yield n
        for c in ast.iter_child_nodes(n):
            if isinstance(c, (ast.FunctionDef, ast.AsyncFunctionDef, ast.ClassDef)):
                continue
            if isinstance(c, ast.Lambda) and not include_lambda:
                continue
            stack.append(c)


def store_targets(st):
    """Target expressions written by a simple statement (flattening tuples)."""
    out = []

    def flat(t):
        if isinstance(t, (ast.Tuple, ast.List)):
            for e in t.elts:
                flat(e)
        elif isinstance(t, ast.Starred):
            flat(t.value)
        else:
            out.append(t)

    if isinstance(st, ast.Assign):
        for t in st.targets:
            flat(t)
    elif isinstance(st, (ast.AugAssign, ast.AnnAssign)):
        flat(st.target)
    elif isinstance(st, ast.Delete):
        for t in st.targets:
            flat(t)
    elif isinstance(st, (ast.For, ast.AsyncFor)):
        flat(st.target)
    elif isinstance(st, (ast.With, ast.AsyncWith)):
        for i in st.items:
            if i.optional_vars is not None:
                flat(i.optional_vars)
    return out


def names_loaded(node):
    return {n.id for n in ast.walk(node) if isinstance(n, ast.Name) and isinstance(n.ctx, ast.Load)}


def calls(node):
    return [n for n in ast.walk(node) if isinstance(n, ast.Call)]


def call_name(call):
    """Dotted name of the callee if it is a Name/Attribute chain, else None."""
    c = chain(call.func)
    return ".".join(c) if c else None


def is_const(node, value):
    return isinstance(node, ast.Constant) and node.value == value and type(node.value) is type(value)


def is_num(node, value=None):
    if isinstance(node, ast.Constant) and isinstance(node.value, (int, float)) and not isinstance(node.value, bool):
        return value is None or node.value == value
    return False


def is_float_nan_call(node):
    """float('nan') / float("nan")"""
    return (
        isinstance(node, ast.Call)
        and isinstance(node.func, ast.Name)
        and node.func.id == "float"
        and len(node.args) == 1
        and isinstance(node.args[0], ast.Constant)
        and isinstance(node.args[0].value, str)
        and node.args[0].value.lower() in ("nan", "+nan", "-nan")
    )


def docstring_stripped(body):
    if body and isinstance(body[0], ast.Expr) and isinstance(body[0].value, ast.Constant) and isinstance(
        body[0].value.value, str
    ):
        return body[1:]
    return body


def parent_map(root):
    pm = {}
    for n in ast.walk(root):
        for c in ast.iter_child_nodes(n):
            pm[c] = n
    return pm


def enclosing_stmt(node, pm):
    while node in pm and not isinstance(node, ast.stmt):
        node = pm[node]
    return node


def self_attrs_read(node, selfname="self"):
    """Set of attribute names X such that `self.X` is loaded in node."""
    out = set()
    for n in ast.walk(node):
        if isinstance(n, ast.Attribute) and isinstance(n.value, ast.Name) and n.value.id == selfname:
            out.add(n.attr)
    return out


def attr_of(node, base):
    """If node is `<base>.X` return X else None."""
    if isinstance(node, ast.Attribute) and isinstance(node.value, ast.Name) and node.value.id == base:
        return node.attr
    return None
