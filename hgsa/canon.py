"""Canonical form of the parsed source, applied once at load time.

Every rewrite is semantics-preserving, so the rules decide the same program; it only removes spelling variation that the
rules would otherwise have to recognise one by one (and that a behaviour-preserving edit may introduce):

  N1  if not (C): A  else: B          ->  if C: B  else: A            (also for elif chains)
  N2  tmp = E ; return tmp            ->  return E                     (tmp assigned once, used only by that return)
  N3  K <op> x  with a constant K     ->  x <mirrored op> K            (==, !=, <, <=, >, >=; single comparison)
  N5  if not C: raise X ; rest        ->  if C: rest ; raise X         (rest returns/raises on every path)
  N17 `not A or not B`, `a not in S and not isinstance(a, T)` in such a guard are read as `not (A and B)`, `not (a in S or ...)`
  N6  pass next to other statements   ->  dropped
  N7  index loops                     ->  enumerate / .items() loops   (for i in range(len(S)): x = S[i] ... ; for k in D: v = D[k] ...)

Line numbers of the surviving nodes are kept, so reports still point at the right source lines.
"""

import ast

MIRROR = {ast.Lt: ast.Gt, ast.Gt: ast.Lt, ast.LtE: ast.GtE, ast.GtE: ast.LtE, ast.Eq: ast.Eq, ast.NotEq: ast.NotEq}


def _names_used(node, name):
    return sum(1 for x in ast.walk(node) if isinstance(x, ast.Name) and x.id == name)


class Canon(ast.NodeTransformer):
    def visit_If(self, n):
        self.generic_visit(n)
        t = n.test
        pos = positive_form(t) if n.orelse else None          # `not C`, or a De Morgan form of it (N17)
        if pos is not None:
            n.test = pos
            n.body, n.orelse = n.orelse, n.body
        return n

    def visit_UnaryOp(self, n):
        """N17b  `not any(not A or not B for ...)` is `all(A and B for ...)` (and `not all(not A ...)` is `any(A ...)`): the quantifier
        form of De Morgan, taken only when the element is written negatively"""
        self.generic_visit(n)
        if isinstance(n.op, ast.Not) and isinstance(n.operand, ast.Call) and isinstance(n.operand.func, ast.Name) and n.operand.func.id in ("any", "all") \
                and len(n.operand.args) == 1 and not n.operand.keywords and isinstance(n.operand.args[0], (ast.GeneratorExp, ast.ListComp)):
            comp = n.operand.args[0]
            pos = positive_form(comp.elt)
            if pos is not None:
                comp.elt = pos
                n.operand.func.id = "all" if n.operand.func.id == "any" else "any"
                return n.operand
        return n

    def visit_Compare(self, n):
        self.generic_visit(n)
        if len(n.ops) == 1 and type(n.ops[0]) in MIRROR and isinstance(n.left, ast.Constant) and not isinstance(n.comparators[0], ast.Constant) \
                and isinstance(n.left.value, (int, float)) and not isinstance(n.left.value, bool):
            n.left, n.comparators[0] = n.comparators[0], n.left
            n.ops = [MIRROR[type(n.ops[0])]()]
        return n

    def _blocks(self, n):
        for fld in ("body", "orelse", "finalbody"):
            b = getattr(n, fld, None)
            if isinstance(b, list) and b and isinstance(b[0], ast.stmt):
                yield fld, b
        for h in getattr(n, "handlers", []) or []:
            yield "body", h.body

    def fold_returns(self, func):
        """N2 inside one function"""
        counts = {}
        for x in ast.walk(func):
            if isinstance(x, ast.Name):
                counts.setdefault(x.id, [0, 0])
                counts[x.id][0 if isinstance(x.ctx, ast.Store) else 1] += 1
        pairs = {}
        for node in ast.walk(func):
            for fld in ("body", "orelse", "finalbody"):
                b = getattr(node, fld, None)
                if not (isinstance(b, list) and len(b) >= 2 and isinstance(b[0], ast.stmt)):
                    continue
                for i in range(len(b) - 1):
                    a, r = b[i], b[i + 1]
                    if isinstance(a, ast.Assign) and len(a.targets) == 1 and isinstance(a.targets[0], ast.Name) and isinstance(r, ast.Return) \
                            and isinstance(r.value, ast.Name) and r.value.id == a.targets[0].id:
                        pairs.setdefault(r.value.id, []).append((b, a, r))
        for name, lst in pairs.items():
            # the temporary is written only by these assignments and read only by these returns
            if counts.get(name) != [len(lst), len(lst)]:
                continue
            for b, a, r in lst:
                i = b.index(a)
                new = ast.Return(value=a.value)
                ast.copy_location(new, a)
                new.end_lineno, new.end_col_offset = getattr(a, "end_lineno", None), getattr(a, "end_col_offset", None)
                b[i:i + 2] = [new]


def always_exits(stmts):
    """every path through the statement list ends in return/raise"""
    if not stmts:
        return False
    last = stmts[-1]
    if isinstance(last, (ast.Return, ast.Raise)):
        return True
    if isinstance(last, ast.If):
        return bool(last.orelse) and always_exits(last.body) and always_exits(last.orelse)
    return False


_NEG_OPS = {ast.NotIn: ast.In, ast.IsNot: ast.Is, ast.NotEq: ast.Eq}


def positive_form(test):
    """N17  the condition C with `test == not C`, when test is written negatively: `not C`, or a De Morgan form whose operands
    are all negative (`not A or not B`, `a not in S and not isinstance(a, T)`) with at least one explicit `not`; else None"""
    if isinstance(test, ast.UnaryOp) and isinstance(test.op, ast.Not):
        return test.operand
    if isinstance(test, ast.BoolOp) and any(isinstance(v, ast.UnaryOp) and isinstance(v.op, ast.Not) for v in test.values):
        vals = []
        for v in test.values:
            if isinstance(v, ast.UnaryOp) and isinstance(v.op, ast.Not):
                vals.append(v.operand)
            elif isinstance(v, ast.Compare) and len(v.ops) == 1 and type(v.ops[0]) in _NEG_OPS:
                c = ast.Compare(left=v.left, ops=[_NEG_OPS[type(v.ops[0])]()], comparators=v.comparators)
                vals.append(ast.copy_location(c, v))
            else:
                return None
        new = ast.BoolOp(op=ast.Or() if isinstance(test.op, ast.And) else ast.And(), values=vals)
        return ast.copy_location(new, test)
    return None


def unfold_guards(func):
    """N5  `if not C: raise X` ; rest   ->   `if C: rest` ; `raise X`      (rest exits on every path)
    The repository writes its type/format guards in the second form; the first one is the usual early-exit spelling."""
    changed = True
    while changed:
        changed = False
        for node in ast.walk(func):
            for fld in ("body", "orelse"):
                b = getattr(node, fld, None)
                if not (isinstance(b, list) and b and isinstance(b[0], ast.stmt)):
                    continue
                for i, st in enumerate(b[:-1]):
                    if isinstance(st, ast.If) and not st.orelse and len(st.body) == 1 and isinstance(st.body[0], ast.Raise) \
                            and positive_form(st.test) is not None:
                        positive = positive_form(st.test)
                        rest = b[i + 1:]
                        if any(isinstance(x, (ast.FunctionDef, ast.ClassDef)) for x in rest):
                            continue
                        if always_exits(rest):
                            new_if = ast.If(test=positive, body=rest, orelse=[])
                            tail = [st.body[0]]
                        else:
                            # (e.g. inside a loop body) the rest falls through: the raise becomes the else branch
                            new_if = ast.If(test=positive, body=rest, orelse=[st.body[0]])
                            tail = []
                        ast.copy_location(new_if, st)
                        new_if.end_lineno = getattr(rest[-1], "end_lineno", None)
                        new_if.end_col_offset = getattr(rest[-1], "end_col_offset", None)
                        b[i:] = [new_if] + tail
                        changed = True
                        break
                if changed:
                    break
            if changed:
                break


def drop_pass(tree):
    """N6  a `pass` next to other statements is dropped"""
    for node in ast.walk(tree):
        for fld in ("body", "orelse", "finalbody"):
            b = getattr(node, fld, None)
            if isinstance(b, list) and len(b) > 1 and any(isinstance(x, ast.Pass) for x in b) and any(not isinstance(x, ast.Pass) for x in b):
                b[:] = [x for x in b if not isinstance(x, ast.Pass)]


def _stores(node, name):
    return any(isinstance(x, ast.Name) and x.id == name and isinstance(x.ctx, (ast.Store, ast.Del)) for x in ast.walk(node))


def fold_index_loops(tree):
    """N7  for i in range(len(S)): x = S[i] ; body   ->   for i, x in enumerate(S): body
           for k in D: v = D[k] ; body                ->   for k, v in D.items(): body       (S, D, i, k not re-bound in the body)"""
    for n in ast.walk(tree):
        if not (isinstance(n, ast.For) and isinstance(n.target, ast.Name) and n.body and not n.orelse):
            continue
        first = n.body[0]
        if not (isinstance(first, ast.Assign) and len(first.targets) == 1 and isinstance(first.value, ast.Subscript)
                and isinstance(first.value.slice, ast.Name) and first.value.slice.id == n.target.id):
            continue
        seq_txt = ast.unparse(first.value.value)
        rest = n.body[1:]
        if not rest:
            continue
        base = first.value.value
        root = base
        while isinstance(root, ast.Attribute):
            root = root.value
        if not isinstance(root, ast.Name):
            continue
        if any(_stores(x, n.target.id) or _stores(x, root.id) for x in rest):
            continue
        it = n.iter
        if isinstance(it, ast.Call) and isinstance(it.func, ast.Name) and it.func.id in ("range", "xrange") and len(it.args) == 1 and \
                isinstance(it.args[0], ast.Call) and isinstance(it.args[0].func, ast.Name) and it.args[0].func.id == "len" and \
                len(it.args[0].args) == 1 and ast.unparse(it.args[0].args[0]) == seq_txt:
            new_iter = ast.Call(func=ast.Name(id="enumerate", ctx=ast.Load()), args=[base], keywords=[])
        elif ast.unparse(it) == seq_txt:
            new_iter = ast.Call(func=ast.Attribute(value=base, attr="items", ctx=ast.Load()), args=[], keywords=[])
        else:
            continue
        tgt = first.targets[0]
        if not isinstance(tgt, (ast.Name, ast.Tuple)):
            continue
        ast.copy_location(new_iter, it)
        n.iter = new_iter
        new_t = ast.Tuple(elts=[ast.Name(id=n.target.id, ctx=ast.Store()), tgt], ctx=ast.Store())
        ast.copy_location(new_t, n.target)
        n.target = new_t
        n.body = rest


def canonicalise(tree, inline=True):
    from . import inline as _inline

    c = Canon()
    tree = c.visit(tree)
    drop_pass(tree)
    for f in ast.walk(tree):
        if isinstance(f, (ast.FunctionDef, ast.AsyncFunctionDef)):
            c.fold_returns(f)
    tree = _inline.apply(tree, helpers=inline)          # N8 helper inlining (optional), N5b early-return guards, N9 alias selection
    fold_index_loops(tree)
    for f in ast.walk(tree):
        if isinstance(f, (ast.FunctionDef, ast.AsyncFunctionDef)):
            unfold_guards(f)
    ast.fix_missing_locations(tree)
    return tree
